(* Journey2t.v -- T2 for C03 (journey continuity) on the STAGE-2 engine model: PRE-EMPTIVE CAPACITATED SLOTS.   PARTIAL.
   Journey2.v / Journey2s.v / Journey2r.v leave pre-emptive capacitated slots out of their scope: a slot whose size is below the
   number in service interrupts customers (interrupt_service: continuation record, the customer stays in its queue and joins the
   node's list of interrupted customers) and a later slot with room restarts them (slot_loop: no record).  Journey2's NoInt /
   Journey2s's IntInv (only a node with a pre-emptive Schedule has interrupted customers) are false there.

   What this file delivers (partial correctness; no hypothesis on the draws; every configuration in scope2t):
     scope2t (executable)      Journey2s.scope2s extended by pre-emptive capacitated slots (sl_pre in resume / restart / resample:
                               no slot table has option 4, which Slotted.__init__ rejects; no capacities anywhere when a
                               pre-emptive capacitated slot is present; no reroute); scope2s_scope2t.
     SlotInt cf s              THE INVARIANT FOR THE INTERRUPTED LISTS OF SLOTTED NODES (what Journey2r.v names as missing):
                               no customer twice on the list; a listed customer is recorded in that node, carries a server
                               mark (i_server <> None) and has NO service start date and NO service end date (so it is neither
                               a victim of the next shrinking slot nor picked for the next end of service); a customer recorded
                               at a slotted node with a service start date carries the server mark.  slotint_b / slotint_b_sound.
     Jrn2t cf an s h           = Conserve2.WFx2 + JH + Lq (the journey invariant proper) + SlotInt;   jrn2t_b / jrn2t_b_sound.
     Jrn2t_means               the six clauses (0)-(5) of C03, word for word as Journey2s.Jrn2s_means.
     Jrn2t_int_means           the interrupted lists of slotted nodes, in words.
     slotted_service_jrn2t     FUNCTION LEVEL: a slot event of any table in scope keeps the journey part (Journey2r's
                               slotted_service_journey_partial) AND SlotInt (new: interrupt_service_SI, slot_loop_SI, slotted_service_SI).
     interrupt_service_other_SI, biis_SI   FUNCTION LEVEL, no scope: the two other functions that handle interrupted customers
                               (shift change of a pre-emptive Schedule at a non-slotted node; a real server restarting the head of
                               its node's list) keep SlotInt.
     PickT, event_tail_pickT   whatever the event: if SlotInt holds when the next events are recomputed, the customers a slotted node
                               names for its next end of service are not on its list (what finish_service will need).
     event_step_jrn2t_partial  EVENT LEVEL, SLOT EVENTS ONLY (slot_event_b s = true: the active node's next event is a slot): one
                               whole event (slotted_service, update of every node's next event, choice of the next active node)
                               keeps Jrn2t, extends the history by the event's log, and establishes PickT.
     run_slots_jrn2t_partial   any run consisting of slot events only (slots_only / slots_only_b).
   What is MISSING for event_step_jrn2t / run_hist_jrn2t / run_many_jrn2t / engine_journey2t (ALL events): for the events that are
   not slot events the journey part needs Journey2s's server invariant (SrvInv + IntInv + PickOK) with ii_sch relaxed to slotted
   nodes, and SlotInt needs to ride along: it speaks about i_sst / i_send, which every start block writes (start_fresh /
   start_give / start_preemptor / begin_interrupted_individuals_service / release_blocked_individual / reset_individual_attributes),
   outside the views (fiS) through which Journey2s's walk carries its invariants; showing that those writes never hit a customer
   listed at a slotted node (it is in a queue of its node with a server mark: not waiting, not in flight, not blocked, not held by a
   real server) needs exactly the knowledge IntInv / SrvInv hold at those points, i.e. a fork of Journey2s's recursive core
   (core_St, ~10 places where a date write has to be taken out of the automatic frame step).  Not done in the time.  NOT refuted:
   jt_run checks the executable invariant after EVERY event (arrival, ends of service, slots) of a run in which customer 2 is
   interrupted twice by a shrinking slot, resumed twice and leaves with a service record (jt_chain: its four records chain).
   Examples (section 8): jt_scope, jt_start, jt_run, jt_chain, jt_s7_inv, jt_s7_not_Jrn2s (Journey2s's invariant is false there),
   jt_thm (the theorem applied to every run of slot events from the state with customer 2 on the list), jt_three_slots. *)
From Coq Require Import ZArith List Bool Lia Permutation.
From RecordUpdate Require Import RecordUpdate.
From CiwV Require Import Sx Prelude Routing Sched.
From CiwV.Engine Require Import State2 Engine2 Codec2.
From CiwV.Inv Require Conserve2.
From CiwV.Inv Require Import Journey2.
From CiwV.Inv Require Journey2s Journey2r Slot2.
Import ListNotations.
Open Scope Z_scope.

Local Arguments Z.mul : simpl never.
Local Arguments Z.add : simpl never.
Local Arguments Z.sub : simpl never.
Local Arguments Z.ltb : simpl never.
Local Arguments Z.leb : simpl never.
Local Arguments Z.eqb : simpl never.
Local Arguments Z.to_nat : simpl never.
Local Arguments Z.of_nat : simpl never.
Local Arguments nth_error : simpl never.

(* ====================================================================================================================
   1. The scope
   ==================================================================================================================== *)
Definition pslot_nc (nc : ncfg) : bool := match nc_srv nc with SSlot sl => sl_cap sl && negb (sl_pre sl =? 0) | _ => false end.
Definition pslot (cf : config) : bool := existsb pslot_nc (cf_nodes cf).
Definition scope_nc_t (nc : ncfg) : bool :=
  negb (nc_preempt nc =? 4) &&
  match nc_srv nc with
  | SFixed => true
  | SSched sc => negb (sc_pre sc =? 4)
  | SSlot sl => negb (sl_pre sl =? 4) && negb (nc_reneging nc) && (nc_preempt nc =? 0)
  end.
Definition scope2t (cf : config) : bool :=
  forallb scope_nc_t (cf_nodes cf) && (if preempts cf then forallb nocap (cf_nodes cf) && negb (cf_dyn cf) else true)
  && (if Journey2s.psched cf || pslot cf then forallb nocap (cf_nodes cf) else true).

(* Journey2s.scope2s admits a NON-capacitated slot table with option 4 (`reroute`; the slot never interrupts; Slotted.__init__
   rejects the option anyway); here no slot table has it *)
Definition noslot4_nc (nc : ncfg) : bool := match nc_srv nc with SSlot sl => negb (sl_pre sl =? 4) | _ => true end.
Lemma scope2s_scope2t cf : Journey2s.scope2s cf = true -> forallb noslot4_nc (cf_nodes cf) = true -> scope2t cf = true.
Proof.
  unfold Journey2s.scope2s, scope2t. intros H H4. apply andb_true_iff in H as [H H3]. apply andb_true_iff in H as [H1 H2].
  rewrite forallb_forall in H1, H4.
  assert (Hall : forall nc, In nc (cf_nodes cf) -> scope_nc_t nc = true /\ pslot_nc nc = false).
  { intros nc Hin. specialize (H1 nc Hin). specialize (H4 nc Hin). unfold Journey2s.scope_nc in H1. unfold scope_nc_t, pslot_nc, noslot4_nc in *.
    apply andb_true_iff in H1 as [A B]. rewrite A. destruct (nc_srv nc) as [|sc|sl]; [auto|auto|].
    apply andb_true_iff in B as [B B3]. apply andb_true_iff in B as [B1 B2]. rewrite B2, B3, H4. split; [reflexivity|].
    apply negb_true_iff in B1. exact B1. }
  assert (Hp : pslot cf = false).
  { unfold pslot. destruct (existsb pslot_nc (cf_nodes cf)) eqn:E; [|reflexivity]. apply existsb_exists in E as (nc & Hin & Hnc).
    destruct (Hall nc Hin) as [_ Hx]. congruence. }
  rewrite Hp, orb_false_r, H2, H3, andb_true_r, andb_true_r. apply forallb_forall. intros nc Hin. exact (proj1 (Hall nc Hin)).
Qed.
Lemma scope2t_nc cf j nc : scope2t cf = true -> nthZ (cf_nodes cf) (j - 1) = Some nc -> scope_nc_t nc = true.
Proof.
  unfold scope2t. intros H Hn. apply andb_true_iff in H as [H _]. apply andb_true_iff in H as [H _].
  rewrite forallb_forall in H. apply H. eapply nthZ_In; eauto.
Qed.

(* ====================================================================================================================
   2. A view for the slot invariant (queues and interrupted lists; server mark, service dates, node of a customer) and the
      invariant.  SlotIntX cf ex s exempts customer ex (in the middle of slotted_service: the customer whose service is being
      interrupted is on the list before its dates are cleared; the waiting customer being started has a start date before it
      gets the server mark).
   ==================================================================================================================== *)
Definition fnT (nd : node) := (n_queues nd, n_interrupted nd).
Definition fiT (x : ind) := (i_server x, i_sst x, i_send x, i_node x).
Definition fgT (s : sim) := tt.
Notation keepT := (keepV fnT fiT fgT).
Notation VT := (VW fnT fiT fgT).

Lemma VT_node s s' k nd' : VT s' = VT s -> nodeZ s' k = Some nd' ->
  exists nd, nodeZ s k = Some nd /\ n_id nd' = n_id nd /\ n_queues nd' = n_queues nd /\ n_interrupted nd' = n_interrupted nd.
Proof.
  intros E Hn. pose proof (VW_node fnT fiT fgT s s' k E) as Hv. rewrite Hn in Hv. destruct (nodeZ s k) as [nd|]; [|discriminate].
  cbn in Hv. unfold nv, fnT in Hv. injection Hv as E1 E2 E3. exists nd. auto.
Qed.
Lemma VT_find s s' i x' : VT s' = VT s -> find_ind i (inds s') = Some x' ->
  exists x, find_ind i (inds s) = Some x /\ i_server x' = i_server x /\ i_sst x' = i_sst x /\ i_send x' = i_send x /\ i_node x' = i_node x.
Proof.
  intros E Hf. pose proof (VW_ind fnT fiT fgT s s' i E) as Hv. rewrite Hf in Hv. destruct (find_ind i (inds s)) as [x|]; [|discriminate].
  cbn in Hv. unfold fiT in Hv. injection Hv as E1 E2 E3 E4. exists x. auto.
Qed.
Lemma Idx_VT s s' : VT s' = VT s -> Idx s -> Idx s'.
Proof. intros E HI k nd' Hn. destruct (VT_node _ _ _ _ E Hn) as (nd & Hn0 & Eid & _). rewrite Eid. exact (HI k nd Hn0). Qed.
Lemma keepT_VT {X} (m : M X) s a s' : keepT KT m -> Idx s -> m s = Ok (a, s') -> VT s' = VT s.
Proof. intros Hm HI H. apply (Hm s a s'); [apply Idx_vidx; exact HI|exact I|exact H]. Qed.

Definition Listed (cf : config) (s : sim) (i : Z) : Prop :=
  exists j nd, nodeZ s j = Some nd /\ slot_of cf j = true /\ In i (n_interrupted nd).

Record SlotIntX (cf : config) (ex : option Z) (s : sim) : Prop := mkSI {
  sx_nd : forall j nd, nodeZ s j = Some nd -> slot_of cf j = true -> NoDup (n_interrupted nd);
  sx_mem : forall j nd i, nodeZ s j = Some nd -> slot_of cf j = true -> In i (n_interrupted nd) ->
     exists x, find_ind i (inds s) = Some x /\ i_node x = Some j /\ i_server x <> None /\
               (ex <> Some i -> i_sst x = None /\ i_send x = None);
  sx_mark : forall i x j, find_ind i (inds s) = Some x -> i_node x = Some j -> slot_of cf j = true -> ex <> Some i ->
     i_sst x <> None -> i_server x <> None
}.
Notation SlotInt cf s := (SlotIntX cf None s).

Lemma SlotIntX_VT cf ex s s' : VT s' = VT s -> SlotIntX cf ex s -> SlotIntX cf ex s'.
Proof.
  intros E [A B C]. assert (E' : VT s = VT s') by auto. constructor.
  - intros j nd' Hn Hs. destruct (VT_node _ _ _ _ E Hn) as (nd & Hn0 & _ & _ & Ei). rewrite Ei. exact (A j nd Hn0 Hs).
  - intros j nd' i Hn Hs Hin. destruct (VT_node _ _ _ _ E Hn) as (nd & Hn0 & _ & _ & Ei). rewrite Ei in Hin.
    destruct (B j nd i Hn0 Hs Hin) as (x & Hx & P1 & P2 & P3).
    destruct (VT_find _ _ i x E' Hx) as (x' & Hx' & Q1 & Q2 & Q3 & Q4). exists x'. split; [exact Hx'|].
    split; [congruence|]. split; [congruence|]. intros Hex. destruct (P3 Hex). split; congruence.
  - intros i x' j Hf Hnode Hs Hex Hsst. destruct (VT_find _ _ i x' E Hf) as (x & Hx & Q1 & Q2 & Q3 & Q4).
    rewrite Q1. apply (C i x j Hx); [congruence|exact Hs|exact Hex|congruence].
Qed.
Lemma SlotIntX_keep cf ex {X} (m : M X) s a s' : keepT KT m -> Idx s -> SlotIntX cf ex s -> m s = Ok (a, s') ->
  SlotIntX cf ex s' /\ VT s' = VT s /\ Idx s'.
Proof.
  intros Hm HI HS H. pose proof (keepT_VT m s a s' Hm HI H) as E.
  split; [eapply SlotIntX_VT; eauto|]. split; [exact E|eapply Idx_VT; eauto].
Qed.
Lemma Listed_VT cf s s' i : VT s' = VT s -> Listed cf s' i -> Listed cf s i.
Proof. intros E (j & nd' & Hn & Hs & Hin). destruct (VT_node _ _ _ _ E Hn) as (nd & Hn0 & _ & _ & Ei). exists j, nd. rewrite <- Ei. auto. Qed.

(* the record of customer i is replaced *)
Lemma SlotIntX_put_ind cf ex ex' s s' i x x' : SlotIntX cf ex s -> find_ind i (inds s) = Some x -> i_id x' = i ->
  inds s' = put_ind_l x' (inds s) -> nodes s' = nodes s -> i_node x' = i_node x -> (i_server x <> None -> i_server x' <> None) ->
  (forall y, y <> i -> ex' <> Some y -> ex <> Some y) ->
  (ex' <> Some i -> Listed cf s i -> i_sst x' = None /\ i_send x' = None) ->
  (ex' <> Some i -> forall j, i_node x' = Some j -> slot_of cf j = true -> i_sst x' <> None -> i_server x' <> None) ->
  SlotIntX cf ex' s'.
Proof.
  intros [A B C] Hf Hid Ei En Hnode Hsrv Hex Hlist Hmark.
  assert (HZ : forall k, nodeZ s' k = nodeZ s k) by (intros k; apply nodeZ_same; exact En).
  assert (Hsame : find_ind i (inds s') = Some x') by (rewrite Ei, <- Hid; apply find_put_same).
  assert (Hoth : forall y, y <> i -> find_ind y (inds s') = find_ind y (inds s)) by (intros y Hy; rewrite Ei; apply find_put_other; congruence).
  constructor.
  - intros j nd Hn Hs. rewrite HZ in Hn. exact (A j nd Hn Hs).
  - intros j nd y Hn Hs Hin. rewrite HZ in Hn. destruct (B j nd y Hn Hs Hin) as (z & Hz & P1 & P2 & P3).
    destruct (Z.eq_dec y i) as [->|Hne].
    + assert (z = x) by congruence. subst z. exists x'. split; [exact Hsame|]. split; [congruence|]. split; [auto|].
      intros He. apply (Hlist He). exists j, nd. auto.
    + exists z. rewrite (Hoth y Hne). split; [exact Hz|]. split; [exact P1|]. split; [exact P2|]. intros He. exact (P3 (Hex y Hne He)).
  - intros y z j Hy Hnode' Hs He Hsst. destruct (Z.eq_dec y i) as [->|Hne].
    + assert (z = x') by congruence. subst z. exact (Hmark He j Hnode' Hs Hsst).
    + rewrite (Hoth y Hne) in Hy. exact (C y z j Hy Hnode' Hs (Hex y Hne He) Hsst).
Qed.

(* node j is replaced; its interrupted list may change *)
Lemma SlotIntX_put_node cf ex s s' j nd nd' : SlotIntX cf ex s -> Idx s -> nodeZ s j = Some nd -> n_id nd' = j ->
  nodes s' = updZ (nodes s) (n_id nd' - 1) nd' -> inds s' = inds s ->
  (slot_of cf j = true -> NoDup (n_interrupted nd') /\
     forall i, In i (n_interrupted nd') -> In i (n_interrupted nd) \/
        exists x, find_ind i (inds s) = Some x /\ i_node x = Some j /\ i_server x <> None /\ (ex <> Some i -> i_sst x = None /\ i_send x = None)) ->
  SlotIntX cf ex s'.
Proof.
  intros [A B C] HI Hn Hid En Ei Hnew.
  assert (HZ : forall k, nodeZ s' k = if k =? j then Some nd' else nodeZ s k).
  { intros k. rewrite <- Hid. apply (nodeZ_upd s s' nd' nd k En). rewrite Hid. exact Hn. }
  constructor.
  - intros k n Hk Hs. rewrite HZ in Hk. destruct (Z.eqb_spec k j) as [->|Hne]; [injection Hk as <-; exact (proj1 (Hnew Hs))|exact (A k n Hk Hs)].
  - intros k n i Hk Hs Hin. rewrite HZ in Hk. rewrite Ei. destruct (Z.eqb_spec k j) as [->|Hne]; [|exact (B k n i Hk Hs Hin)].
    injection Hk as <-. destruct (proj2 (Hnew Hs) i Hin) as [Hold|Hx]; [exact (B j nd i Hn Hs Hold)|exact Hx].
  - intros i x k Hf. rewrite Ei in Hf. exact (C i x k Hf).
Qed.

(* ====================================================================================================================
   3. interrupt_service at a slotted node: the victim (a customer of the node with a service start date) joins the list and
      loses its dates; nobody else's record changes in what the invariant looks at
   ==================================================================================================================== *)
Ltac tstep H a s1 E :=
  match type of H with
  | bind ?m ?f ?s = Ok _ =>
    unfold bind in H at 1; destruct (m s) as [[a s1]| |] eqn:E; [|discriminate H|discriminate H];
    try (match type of a with unit => destruct a end)
  end.

Lemma upd_node_spec j g s u s' : upd_node j g s = Ok (u, s') ->
  exists nd, nodeZ s j = Some nd /\ nodes s' = updZ (nodes s) (n_id (g nd) - 1) (g nd) /\ inds s' = inds s.
Proof.
  unfold upd_node. intros H. mstep H as nd. exists nd. split; [exact Hn|]. unfold put_node in H. apply modify_spec in H. subst s'. split; reflexivity.
Qed.
Lemma NoDup_snoc {A} (l : list A) a : NoDup l -> ~ In a l -> NoDup (l ++ [a]).
Proof. intros Hl Ha. apply (Permutation_NoDup (l := a :: l)); [apply Permutation_cons_append|constructor; assumption]. Qed.
Lemma SlotIntX_weaken cf ex s : SlotInt cf s -> SlotIntX cf ex s.
Proof.
  intros [A B C]. constructor; [exact A| |].
  - intros j nd i Hn Hs Hin. destruct (B j nd i Hn Hs Hin) as (x & Hx & P1 & P2 & P3). exists x. split; [exact Hx|]. split; [exact P1|]. split; [exact P2|].
    intros _. apply P3. discriminate.
  - intros i x j Hf Hnode Hs _. apply (C i x j Hf Hnode Hs). discriminate.
Qed.

Definition SameT (i : Z) (s s' : sim) : Prop :=
  forall y, y <> i -> option_map fiT (find_ind y (inds s')) = option_map fiT (find_ind y (inds s)).
Lemma SameT_VT i s s' : VT s' = VT s -> SameT i s s'.
Proof. intros E y _. exact (VW_ind fnT fiT fgT s s' y E). Qed.
Lemma SameT_inds i s s' : inds s' = inds s -> SameT i s s'.
Proof. intros E y _. rewrite E. reflexivity. Qed.
Lemma SameT_put i s s' x' : inds s' = put_ind_l x' (inds s) -> i_id x' = i -> SameT i s s'.
Proof. intros E Hid y Hy. rewrite E, find_put_other by congruence. reflexivity. Qed.
Lemma SameT_trans i s1 s2 s3 : SameT i s1 s2 -> SameT i s2 s3 -> SameT i s1 s3.
Proof. intros H1 H2 y Hy. rewrite (H2 y Hy). exact (H1 y Hy). Qed.
Lemma SameT_refl i s : SameT i s s.
Proof. intros y _. reflexivity. Qed.

(* a customer recorded in node j with a service start date *)
Definition Started (s : sim) (j y : Z) : Prop := exists z, find_ind y (inds s) = Some z /\ i_node z = Some j /\ i_sst z <> None.
Lemma Started_SameT i s s' j y : SameT i s s' -> y <> i -> Started s j y -> Started s' j y.
Proof.
  intros HT Hy (z & Hz & P1 & P2). pose proof (HT y Hy) as E. rewrite Hz in E. destruct (find_ind y (inds s')) as [z'|] eqn:Ez; [|discriminate].
  cbn in E. unfold fiT in E. injection E as E1 E2 E3 E4. exists z'. split; [exact Ez|]. split; congruence.
Qed.

Ltac tkeep HI HS E HS' ET' HI' :=
  match type of E with
  | ?m ?s0 = Ok (?a, ?s1) =>
    let Hm := fresh "Hm" in
    assert (Hm : keepT KT m) by kv0;
    destruct (SlotIntX_keep _ _ m s0 a s1 Hm HI HS E) as (HS' & ET' & HI'); clear Hm
  end.

Section SlotWalk.
  Variable cf : config.

  Lemma kt_wint j i d : keepT KT (write_interruption_record cf j i d).
  Proof. unfold write_interruption_record, log_rec, bump_rec, ncfg_of, tnow. kv0. Qed.

  Lemma interrupt_service_SI fuel j i pre s s' : (pre =? 4) = false -> slot_of cf j = true -> Idx s -> SlotInt cf s -> Started s j i ->
    interrupt_service cf fuel j i pre s = Ok (tt, s') ->
    SlotInt cf s' /\ Idx s' /\ SameT i s s'.
  Proof.
    intros Hpre Hsl HI HS (x & Hf & Hnode & Hsst) H. unfold interrupt_service in H. rewrite Hpre in H.
    tstep H t0 s0 E0. apply gets_spec in E0 as [-> ->].
    tstep H u0 sa Ea.
    tkeep HI HS Ea HSa ETa HIa. clear Ea.
    destruct (VT_find sa s i x ltac:(symmetry; exact ETa) Hf) as (xa & Hxa & Qa1 & Qa2 & Qa3 & Qa4).
    assert (Hsrv : i_server xa <> None) by (apply (sx_mark _ _ _ HSa i xa j Hxa); [congruence|exact Hsl|discriminate|congruence]).
    tstep H u1 sb Eb. destruct (upd_node_spec _ _ _ _ _ Eb) as (nd & Hn & Enb & Eib). clear Eb.
    match type of Enb with nodes _ = updZ _ _ ?n => set (nd1 := n) in * end.
    assert (Hid1 : n_id nd1 = j) by exact (HIa _ _ Hn).
    assert (HIb : Idx sb).
    { intros k n Hk. pose proof (HIa _ _ Hn) as Hid.
      rewrite (nodeZ_upd sa sb nd1 nd k Enb ltac:(rewrite Hid1; exact Hn)) in Hk. rewrite Hid1 in Hk.
      destruct (Z.eqb_spec k j) as [->|Hne]; [injection Hk as <-; exact Hid1|exact (HIa _ _ Hk)]. }
    assert (HSb : SlotIntX cf (Some i) sb).
    { apply (SlotIntX_put_node cf (Some i) sa sb j nd nd1 (SlotIntX_weaken cf (Some i) sa HSa) HIa Hn Hid1 Enb Eib).
      intros _. change (n_interrupted nd1) with (n_interrupted nd ++ [i]). split.
      - apply NoDup_snoc; [exact (sx_nd _ _ _ HSa j nd Hn Hsl)|]. intros Hin.
        destruct (sx_mem _ _ _ HSa j nd i Hn Hsl Hin) as (z & Hz & _ & _ & P3). assert (z = xa) by congruence. subst z.
        destruct (P3 ltac:(discriminate)) as [P _]. congruence.
      - intros y Hy. apply in_app_or in Hy as [Hy|[<-|[]]]; [left; exact Hy|right]. exists xa. split; [exact Hxa|]. split; [congruence|]. split; [exact Hsrv|].
        intros Hne. exfalso. apply Hne. reflexivity. }
    tstep H u2 sc Ec.
    tkeep HIb HSb Ec HSc ETc HIc. clear Ec.
    tstep H u3 sd Ed.
    destruct (SlotIntX_keep cf (Some i) _ sc tt sd (kt_wint j i None) HIc HSc Ed) as (HSd & ETd & HId). clear Ed.
    tstep H u4 se Ee. destruct (upd_ind_spec _ _ _ _ _ Ee) as (xd & Hxd & Eie & Ene). clear Ee.
    match type of Eie with inds _ = put_ind_l ?x' _ => set (xe := x') in * end.
    assert (Hide : i_id xe = i) by exact (find_ind_id _ _ _ Hxd).
    assert (HSe : SlotInt cf se).
    { apply (SlotIntX_put_ind cf (Some i) None sd se i xd xe HSd Hxd Hide Eie Ene); cbn.
      - reflexivity.
      - auto.
      - intros y Hy _. congruence.
      - intros _ _. auto.
      - intros _ k _ _ Hx. exfalso. apply Hx. reflexivity. }
    assert (HIe : Idx se) by (intros k n Hk; rewrite (nodeZ_same sd se k Ene) in Hk; exact (HId _ _ Hk)).
    tkeep HIe HSe H HS' ET' HI'.
    split; [exact HS'|]. split; [exact HI'|].
    apply (SameT_trans i s sa s' (SameT_VT i s sa ETa)). apply (SameT_trans i sa sb s' (SameT_inds i sa sb Eib)).
    apply (SameT_trans i sb sc s' (SameT_VT i sb sc ETc)). apply (SameT_trans i sc sd s' (SameT_VT i sc sd ETd)).
    apply (SameT_trans i sd se s'); [|exact (SameT_VT i se s' ET')].
    exact (SameT_put i sd se xe Eie Hide).
  Qed.

  Lemma forM_interrupt_SI fuel j pre : (pre =? 4) = false -> slot_of cf j = true -> forall l s s', Idx s -> SlotInt cf s -> NoDup l ->
    (forall i, In i l -> Started s j i) ->
    forM_ l (fun i => interrupt_service cf fuel j i pre) s = Ok (tt, s') -> SlotInt cf s' /\ Idx s'.
  Proof.
    intros Hpre Hsl. induction l as [|i r IH]; intros s s' HI HS Hnd Hl H; cbn [forM_] in H; [apply ret_spec in H as [_ ->]; auto|].
    tstep H u0 sa Ea. inversion Hnd as [|? ? Hni Hndr]. subst.
    destruct (interrupt_service_SI fuel j i pre s sa Hpre Hsl HI HS (Hl i (or_introl eq_refl)) Ea) as (HSa & HIa & HT).
    apply (IH sa s' HIa HSa Hndr); [|exact H]. intros y Hy. apply (Started_SameT i s sa j y HT); [intros ->; exact (Hni Hy)|].
    apply Hl. right. exact Hy.
  Qed.

  (* ---- slot_loop: the head of the list (or a waiting customer) is started ---- *)
  Lemma Listed_nodes s s' i : nodes s' = nodes s -> Listed cf s' i -> Listed cf s i.
  Proof. intros En (j & nd & Hn & Hs & Hin). rewrite (nodeZ_same s s' j En) in Hn. exists j, nd. auto. Qed.
  Lemma Idx_nodes s s' : nodes s' = nodes s -> Idx s -> Idx s'.
  Proof. intros En HI k n Hk. rewrite (nodeZ_same s s' k En) in Hk. exact (HI _ _ Hk). Qed.

  Lemma kt_give i : keepT KT (give_individual_a_service_time i).
  Proof. unfold give_individual_a_service_time, give_service_time_after_preemption. kv0. Qed.
  Lemma kt_reset j i : keepT KT (reset_class_change cf j i).
  Proof. unfold reset_class_change, find_next_class_change. kv0. Qed.

  Definition slot_start (j c t : Z) : M unit :=
    upd_ind c (fun x => x <| i_sst := Some t |>) ;;;
    give_individual_a_service_time c ;;;
    x <- get_ind c ;; st <- stime_num x ;;
    put_ind (x <| i_send := Some (t + st) |> <| i_server := Some (-1) |>) ;;;
    upd_node j (fun n' => n' <| n_insvc := n_insvc n' + 1 |>) ;;;
    reset_class_change cf j c.

  Lemma slot_start_SI j c t s s' : Idx s -> SlotInt cf s -> ~ Listed cf s c -> slot_start j c t s = Ok (tt, s') -> SlotInt cf s' /\ Idx s'.
  Proof.
    intros HI HS Hnl H. unfold slot_start in H.
    tstep H u0 sa Ea. destruct (upd_ind_spec _ _ _ _ _ Ea) as (x0 & Hx0 & Eia & Ena). clear Ea.
    match type of Eia with inds _ = put_ind_l ?x' _ => set (xa := x') in * end.
    assert (Hida : i_id xa = c) by exact (find_ind_id _ _ _ Hx0).
    assert (HSa : SlotIntX cf (Some c) sa).
    { apply (SlotIntX_put_ind cf None (Some c) s sa c x0 xa HS Hx0 Hida Eia Ena); cbn.
      - reflexivity.
      - auto.
      - intros y _ _. discriminate.
      - intros Hne. exfalso. apply Hne. reflexivity.
      - intros Hne. exfalso. apply Hne. reflexivity. }
    pose proof (Idx_nodes s sa Ena HI) as HIa.
    assert (Hnla : ~ Listed cf sa c) by (intros HL; exact (Hnl (Listed_nodes s sa c Ena HL))).
    tstep H u1 sb Eb.
    destruct (SlotIntX_keep cf (Some c) _ sa tt sb (kt_give c) HIa HSa Eb) as (HSb & ETb & HIb). clear Eb.
    assert (Hnlb : ~ Listed cf sb c) by (intros HL; exact (Hnla (Listed_VT cf sa sb c ETb HL))).
    tstep H x sb' Ex. apply get_ind_spec in Ex as [-> Hx].
    tstep H st sb' Est. assert (sb' = sb) by (unfold stime_num in Est; destruct (i_smark x =? 0); [apply ret_spec in Est as [_ ->]; reflexivity|discriminate Est]). subst sb'. clear Est.
    tstep H u2 sc Ec. destruct (put_ind_facts _ _ _ _ Ec) as (Eic & Enc & _). clear Ec.
    match type of Eic with inds _ = put_ind_l ?x' _ => set (xc := x') in * end.
    assert (Hidc : i_id xc = c) by exact (find_ind_id _ _ _ Hx).
    assert (HSc : SlotInt cf sc).
    { apply (SlotIntX_put_ind cf (Some c) None sb sc c x xc HSb Hx Hidc Eic Enc); cbn.
      - reflexivity.
      - intros _. discriminate.
      - intros y Hy _. congruence.
      - intros _ HL. exfalso. exact (Hnlb HL).
      - intros _ k _ _ _. discriminate. }
    pose proof (Idx_nodes sb sc Enc HIb) as HIc.
    tstep H u3 sd Ed. tkeep HIc HSc Ed HSd ETd HId. clear Ed.
    destruct (SlotIntX_keep cf None _ sd tt s' (kt_reset j c) HId HSd H) as (HS' & _ & HI'). auto.
  Qed.

  Lemma slot_loop_SI j : slot_of cf j = true -> forall k s s', Idx s -> SlotInt cf s -> slot_loop cf k j s = Ok (tt, s') -> SlotInt cf s' /\ Idx s'.
  Proof.
    intros Hsl. induction k as [|k IH]; intros s s' HI HS H; cbn [slot_loop] in H; [apply ret_spec in H as [_ ->]; auto|].
    tstep H t0 s0 E0. apply gets_spec in E0 as [-> ->].
    tstep H nd s0 E0. apply get_node_spec in E0 as [-> Hn].
    tstep H cand s1 Ec.
    assert (Hmid : SlotInt cf s1 /\ Idx s1 /\ (forall c, cand = Some c -> ~ Listed cf s1 c)).
    { destruct (0 <? n_nint nd).
      - tstep Ec i sq1 Ei. apply lift_spec in Ei as [-> Hhd].
        tstep Ec l' sq2 El. apply lift_spec in El as [-> Hrm].
        destruct (Journey2s.remove_first_nodup i _ l' Hrm (sx_nd _ _ _ HS j nd Hn Hsl)) as (ND' & Hni & Hsub & Hin).
        tstep Ec u0 sa Ea. destruct (put_node_facts _ _ _ _ Ea) as (Esa & Eia & _). clear Ea.
        match type of Esa with _ = _ <| nodes := updZ _ _ ?n |> => set (nd1 := n) in * end.
        assert (Hid1 : n_id nd1 = j) by exact (HI _ _ Hn).
        assert (Ena : nodes sa = updZ (nodes s) (n_id nd1 - 1) nd1) by (rewrite Esa; reflexivity).
        assert (HSa : SlotInt cf sa).
        { apply (SlotIntX_put_node cf None s sa j nd nd1 HS HI Hn Hid1 Ena Eia). intros _. change (n_interrupted nd1) with l'.
          split; [exact ND'|]. intros y Hy. left. exact (Hsub y Hy). }
        assert (HZa : nodeZ sa j = Some nd1).
        { rewrite <- Hid1 at 1. rewrite (nodeZ_upd s sa nd1 nd (n_id nd1) Ena ltac:(rewrite Hid1; exact Hn)), Z.eqb_refl. reflexivity. }
        assert (HIa : Idx sa).
        { intros k0 n Hk. rewrite (nodeZ_upd s sa nd1 nd k0 Ena ltac:(rewrite Hid1; exact Hn)) in Hk. rewrite Hid1 in Hk.
          destruct (Z.eqb_spec k0 j) as [->|Hne]; [injection Hk as <-; exact Hid1|exact (HI _ _ Hk)]. }
        destruct (sx_mem _ _ _ HS j nd i Hn Hsl Hin) as (xi & Hxi & Pn & _).
        tstep Ec u1 sb Eb. tkeep HIa HSa Eb HSb ETb HIb. clear Eb.
        apply ret_spec in Ec as [-> ->]. split; [exact HSb|]. split; [exact HIb|]. intros c Hc. injection Hc as <-.
        intros HL. apply (Listed_VT cf sa sb i ETb) in HL. destruct HL as (k0 & n & Hk & Hsk & Hik).
        destruct (sx_mem _ _ _ HSa k0 n i Hk Hsk Hik) as (z & Hz & Pz & _). rewrite Eia in Hz. assert (z = xi) by congruence. subst z.
        assert (k0 = j) by congruence. subst k0. assert (n = nd1) by congruence. subst n. exact (Hni Hik).
      - destruct cand as [c|].
        + destruct (cnc_spec cf j c s s1 Ec) as (_ & (xc & Hxc & Hsv) & En1 & Ei1).
          assert (E1 : VT s1 = VT s) by (unfold VW; rewrite En1, Ei1; reflexivity).
          split; [exact (SlotIntX_VT cf None s s1 E1 HS)|]. split; [exact (Idx_nodes s s1 En1 HI)|]. intros c0 Hc0. injection Hc0 as <-.
          intros HL. apply (Listed_nodes s s1 c En1) in HL. destruct HL as (k0 & n & Hk & Hsk & Hik).
          destruct (sx_mem _ _ _ HS k0 n c Hk Hsk Hik) as (z & Hz & _ & Pz & _). congruence.
        + assert (Hk : keepT KT (choose_next_customer cf j)) by (unfold choose_next_customer, choice_uniform, ncfg_of; kv0).
          destruct (SlotIntX_keep cf None _ s None s1 Hk HI HS Ec) as (A & _ & B). split; [exact A|]. split; [exact B|]. intros c Hc. discriminate Hc. }
    destruct Hmid as (HS1 & HI1 & Hnl). clear Ec.
    tstep H u2 s2 E2.
    assert (H2 : SlotInt cf s2 /\ Idx s2).
    { destruct cand as [c|]; [|apply ret_spec in E2 as [_ ->]; auto].
      exact (slot_start_SI j c (now s) s1 s2 HI1 HS1 (Hnl c eq_refl) E2). }
    destruct H2 as (HS2 & HI2). exact (IH s2 s' HI2 HS2 H).
  Qed.
End SlotWalk.

(* ====================================================================================================================
   4. slotted_service, function level: the victims are distinct customers of the node with a service start date
   ==================================================================================================================== *)
Lemma NoDup_app_l {A} (a b : list A) : NoDup (a ++ b) -> NoDup a.
Proof.
  induction a as [|x a IH]; cbn; [constructor|]. intros H. inversion H as [|? ? Hn Hd]. constructor; [|exact (IH Hd)].
  intros Hin. apply Hn. apply in_or_app. left. exact Hin.
Qed.
Lemma NoDup_concat_in {A} (L : list (list A)) l : NoDup (concat L) -> In l L -> NoDup l.
Proof.
  induction L as [|a L IH]; cbn; [intros _ []|]. intros H [->|Hin]; [exact (NoDup_app_l _ _ H)|exact (IH (NoDup_app_r _ _ H) Hin)].
Qed.
Lemma NoDup_firstn_t {A} : forall n (l : list A), NoDup l -> NoDup (firstn n l).
Proof.
  induction n as [|n IH]; intros l H; [constructor|]. destruct l as [|a l]; [constructor|]. cbn [firstn]. inversion H as [|? ? Hn Hd].
  constructor; [|exact (IH l Hd)]. intros Hin. apply Hn. exact (Journey2r.firstn_in n l a Hin).
Qed.
Lemma ins_key_desc_perm k i l : Permutation (map snd (ins_key_desc k i l)) (i :: map snd l).
Proof.
  induction l as [|[k' i'] r IH]; cbn [ins_key_desc]; [reflexivity|]. destruct (key_ge k' k); [|reflexivity].
  cbn [map snd]. rewrite IH. apply perm_swap.
Qed.
Lemma sort_by_key_desc_perm l : Permutation (sort_by_key_desc l) (map snd l).
Proof.
  unfold sort_by_key_desc.
  assert (G : forall acc, Permutation (map snd (fold_left (fun a p => ins_key_desc (fst p) (snd p) a) l acc)) (map snd acc ++ map snd l)).
  { induction l as [|p r IH]; intros acc; cbn [fold_left map]; [rewrite app_nil_r; reflexivity|].
    rewrite IH, ins_key_desc_perm. cbn. apply Permutation_middle. }
  exact (G []).
Qed.
Lemma WFx2_node_nodup fl s j nd : Conserve2.WFx2 fl s -> nodeZ s j = Some nd -> NoDup (all_individuals nd).
Proof.
  intros HW Hn. pose proof (NoDup_app_l _ _ (WFx2_nodup _ _ HW)) as HQ. unfold Conserve2.qids, Conserve2.shp in HQ. cbn in HQ. rewrite map_map in HQ.
  apply (NoDup_concat_in _ _ HQ). apply in_map_iff. exists nd. split; [reflexivity|]. eapply nthZ_In; exact Hn.
Qed.

Section SlotEvent.
  Variable cf : config.

  Lemma slotted_service_SI j s s' :
    (forall nc sl, nthZ (cf_nodes cf) (j - 1) = Some nc -> nc_srv nc = SSlot sl -> (sl_pre sl =? 4) = false) ->
    Conserve2.WFx2 [] s -> NodeOK s -> SlotInt cf s -> slotted_service cf j s = Ok (tt, s') -> SlotInt cf s' /\ Idx s'.
  Proof.
    intros Hp4 HW HNO HS H. pose proof (WFx2_Idx _ _ HW) as HI.
    unfold slotted_service in H. tstep H nc s0 E0. apply ncfg_of_spec in E0 as [-> Hc].
    destruct (nc_srv nc) as [|sc|sl] eqn:Esrv; try discriminate H. pose proof (Hp4 nc sl Hc Esrv) as Hpre.
    assert (Hsl : slot_of cf j = true) by (unfold slot_of, nc_slotted; rewrite Hc, Esrv; reflexivity).
    tstep H nd s0 E0. apply get_node_spec in E0 as [-> Hn].
    tstep H u0 s0 E0.
    assert (s0 = s) by (destruct (sl_b sl); [discriminate E0|apply ret_spec in E0 as [_ ->]; reflexivity]). subst s0. clear E0.
    tstep H u1 sa Ea.
    assert (Ha : SlotInt cf sa /\ Idx sa).
    { destruct (sl_cap sl && negb (sl_pre sl =? 0)); [|apply ret_spec in Ea as [_ ->]; auto].
      destruct (0 <? n_insvc nd - fst (slot_values sl (Z.to_nat (n_spos nd)))); [|apply ret_spec in Ea as [_ ->]; auto].
      tstep Ea il s0 E0. apply gets_spec in E0 as [-> ->].
      tstep Ea kl s0 E0. apply Journey2r.keyed_spec in E0 as [-> Hkl].
      tstep Ea fl s0 E0. apply gets_spec in E0 as [-> ->].
      match type of Hkl with map snd kl = ?l => set (started := l) in * end.
      match type of Ea with forM_ ?l _ _ = _ => apply (forM_interrupt_SI cf (fuel_of s) j (sl_pre sl) Hpre Hsl l s sa HI HS) end; [| |exact Ea].
      - apply NoDup_firstn_t. apply (Permutation_NoDup (l := map snd kl)); [symmetry; apply sort_by_key_desc_perm|].
        rewrite Hkl. apply NoDup_filter. exact (WFx2_node_nodup _ _ _ _ HW Hn).
      - intros i Hi. apply Journey2r.firstn_in in Hi. apply Journey2r.sort_by_key_desc_in in Hi. rewrite Hkl in Hi. apply filter_In in Hi as [Hi Hst].
        destruct (HNO j i (ex_intro _ nd (conj Hn Hi))) as (x & Hx & Hnode). rewrite Hx in Hst. exists x. split; [exact Hx|]. split; [exact Hnode|].
        destruct (i_sst x); [discriminate|discriminate Hst]. }
    destruct Ha as (HSa & HIa). clear Ea.
    tstep H u2 sb Eb. destruct (slot_loop_SI cf j Hsl _ sa sb HIa HSa Eb) as (HSb & HIb). clear Eb.
    tkeep HIb HSb H HS' ET' HI'. auto.
  Qed.
End SlotEvent.

(* ====================================================================================================================
   4a. The two other functions that handle interrupted customers, function level, no scope:
       interrupt_service at a node that is NOT slotted (shift change of a pre-emptive Schedule) keeps SlotInt whoever the victim is
       (it only clears dates); begin_interrupted_individuals_service (a real server restarts the head of the node's list) keeps
       SlotInt provided that head is not on the list of a slotted node (Journey2s.IntInv: it is recorded in the restarting node).
   ==================================================================================================================== *)
Section OtherInt.
  Variable cf : config.

  Lemma interrupt_service_other_SI fuel j i pre s s' : (pre =? 4) = false -> slot_of cf j = false -> Idx s -> SlotInt cf s ->
    interrupt_service cf fuel j i pre s = Ok (tt, s') -> SlotInt cf s' /\ Idx s'.
  Proof.
    intros Hpre Hsl HI HS H. unfold interrupt_service in H. rewrite Hpre in H.
    tstep H t0 s0 E0. apply gets_spec in E0 as [-> ->].
    tstep H u0 sa Ea. tkeep HI HS Ea HSa ETa HIa. clear Ea.
    tstep H u1 sb Eb. destruct (upd_node_spec _ _ _ _ _ Eb) as (nd & Hn & Enb & Eib). clear Eb.
    match type of Enb with nodes _ = updZ _ _ ?n => set (nd1 := n) in * end.
    assert (Hid1 : n_id nd1 = j) by exact (HIa _ _ Hn).
    assert (HIb : Idx sb).
    { intros k n Hk. rewrite (nodeZ_upd sa sb nd1 nd k Enb ltac:(rewrite Hid1; exact Hn)) in Hk. rewrite Hid1 in Hk.
      destruct (Z.eqb_spec k j) as [->|Hne]; [injection Hk as <-; exact Hid1|exact (HIa _ _ Hk)]. }
    assert (HSb : SlotInt cf sb).
    { apply (SlotIntX_put_node cf None sa sb j nd nd1 HSa HIa Hn Hid1 Enb Eib). intros Hx. congruence. }
    tstep H u2 sc Ec. tkeep HIb HSb Ec HSc ETc HIc. clear Ec.
    tstep H u3 sd Ed.
    destruct (SlotIntX_keep cf None _ sc tt sd (kt_wint cf j i None) HIc HSc Ed) as (HSd & ETd & HId). clear Ed.
    tstep H u4 se Ee. destruct (upd_ind_spec _ _ _ _ _ Ee) as (xd & Hxd & Eie & Ene). clear Ee.
    match type of Eie with inds _ = put_ind_l ?x' _ => set (xe := x') in * end.
    assert (Hide : i_id xe = i) by exact (find_ind_id _ _ _ Hxd).
    assert (HSe : SlotInt cf se).
    { apply (SlotIntX_put_ind cf None None sd se i xd xe HSd Hxd Hide Eie Ene); cbn.
      - reflexivity.
      - auto.
      - intros y _ Hy. exact Hy.
      - intros _ _. auto.
      - intros _ k _ _ Hx. exfalso. apply Hx. reflexivity. }
    pose proof (Idx_nodes sd se Ene HId) as HIe.
    tkeep HIe HSe H HS' ET' HI'. auto.
  Qed.

  Lemma kt_upd_server j sid f : keepT KT (upd_server j sid f).
  Proof. unfold upd_server. kv0. Qed.

  Lemma biis_SI j sid s s' : Idx s -> SlotInt cf s ->
    (forall nd i, nodeZ s j = Some nd -> hd_error (n_interrupted nd) = Some i -> ~ Listed cf s i) ->
    begin_interrupted_individuals_service j sid s = Ok (tt, s') -> SlotInt cf s' /\ Idx s'.
  Proof.
    intros HI HS Hnl H. unfold begin_interrupted_individuals_service in H.
    tstep H nd s0 E0. apply get_node_spec in E0 as [-> Hn].
    tstep H i s0 E0. apply lift_spec in E0 as [-> Hhd].
    pose proof (Hnl nd i Hn Hhd) as Hni.
    assert (Hsl : slot_of cf j = false).
    { destruct (slot_of cf j) eqn:E; [|reflexivity]. exfalso. apply Hni. exists j, nd. split; [exact Hn|]. split; [exact E|].
      destruct (n_interrupted nd); [discriminate Hhd|]. injection Hhd as ->. left. reflexivity. }
    tstep H x s0 E0. apply get_ind_spec in E0 as [-> Hx].
    tstep H u0 sa Ea.
    assert (Ha : SlotInt cf sa /\ VT sa = VT s /\ Idx sa).
    { destruct (i_blocked x).
      - match type of Ea with ?m _ = _ => assert (Hm : keepT (fun w => oki fiT w x) m) end.
        { kv0. }
        assert (E : VT sa = VT s) by (apply (Hm s tt sa); [apply Idx_vidx; exact HI|exact (proj2 (get_ind_oki fnT fiT fgT _ s x Hx))|exact Ea]).
        split; [exact (SlotIntX_VT cf None s sa E HS)|]. split; [exact E|exact (Idx_VT s sa E HI)].
      - apply ret_spec in Ea as [_ ->]. auto. }
    destruct Ha as (HSa & ETa & HIa). clear Ea.
    assert (Hnia : ~ Listed cf sa i) by (intros HL; exact (Hni (Listed_VT cf s sa i ETa HL))).
    (* attach_server: the server, then the mark *)
    unfold attach_server in H.
    tstep H u1 sb Eb. tstep Eb u1' sb' Eb'.
    destruct (SlotIntX_keep cf None _ sa tt sb' (kt_upd_server j sid _) HIa HSa Eb') as (HSb' & ETb' & HIb'). clear Eb'.
    destruct (upd_ind_spec _ _ _ _ _ Eb) as (xb & Hxb & Eib & Enb). clear Eb.
    match type of Eib with inds _ = put_ind_l ?x' _ => set (xb1 := x') in * end.
    assert (Hidb : i_id xb1 = i) by exact (find_ind_id _ _ _ Hxb).
    assert (Hnib' : ~ Listed cf sb' i) by (intros HL; exact (Hnia (Listed_VT cf sa sb' i ETb' HL))).
    assert (HSb : SlotInt cf sb).
    { apply (SlotIntX_put_ind cf None None sb' sb i xb xb1 HSb' Hxb Hidb Eib Enb); cbn.
      - reflexivity.
      - intros _. discriminate.
      - intros y _ Hy. exact Hy.
      - intros _ HL. exfalso. exact (Hnib' HL).
      - intros _ k _ _ _. discriminate. }
    pose proof (Idx_nodes sb' sb Enb HIb') as HIb.
    assert (Hnib : ~ Listed cf sb i) by (intros HL; exact (Hnib' (Listed_nodes cf sb' sb i Enb HL))).
    tstep H u2 sc Ec.
    assert (Hk : keepT KT (give_service_time_after_preemption i)) by (unfold give_service_time_after_preemption; kv0).
    destruct (SlotIntX_keep cf None _ sb tt sc Hk HIb HSb Ec) as (HSc & ETc & HIc). clear Ec Hk.
    assert (Hnic : ~ Listed cf sc i) by (intros HL; exact (Hnib (Listed_VT cf sb sc i ETc HL))).
    tstep H t0 sq0 E0. apply gets_spec in E0 as [-> ->].
    tstep H x1 sq0 E0. apply get_ind_spec in E0 as [-> Hx1].
    tstep H st sq0 Est. assert (sq0 = sc) by (unfold stime_num in Est; destruct (i_smark x1 =? 0); [apply ret_spec in Est as [_ ->]; reflexivity|discriminate Est]). subst sq0. clear Est.
    tstep H u3 sd Ed. destruct (put_ind_facts _ _ _ _ Ed) as (Eid & End & _). clear Ed.
    match type of Eid with inds _ = put_ind_l ?x' _ => set (xd := x') in * end.
    assert (Hidd : i_id xd = i) by exact (find_ind_id _ _ _ Hx1).
    assert (Hsrv1 : i_server x1 <> None).
    { pose proof (VW_ind fnT fiT fgT sb sc i ETc) as Hv. rewrite Hx1 in Hv. rewrite Eib, <- Hidb, find_put_same in Hv. cbn in Hv. unfold fiT in Hv.
      injection Hv as Hv _ _ _. rewrite Hv. cbn. discriminate. }
    assert (HSd : SlotInt cf sd).
    { apply (SlotIntX_put_ind cf None None sc sd i x1 xd HSc Hx1 Hidd Eid End); cbn.
      - reflexivity.
      - auto.
      - intros y _ Hy. exact Hy.
      - intros _ HL. exfalso. exact (Hnic HL).
      - intros _ k _ _ _. exact Hsrv1. }
    pose proof (Idx_nodes sc sd End HIc) as HId.
    tstep H u4 se Ee. tkeep HId HSd Ee HSe ETe HIe. clear Ee.
    tstep H u5 sf Ef.
    destruct (SlotIntX_keep cf None _ se tt sf (kt_upd_server j sid _) HIe HSe Ef) as (HSf & ETf & HIf). clear Ef.
    tstep H nd2 sq0 E0. apply get_node_spec in E0 as [-> Hn2].
    tstep H l' sq0 E0. apply lift_spec in E0 as [-> Hrm].
    destruct (put_node_facts _ _ _ _ H) as (Es' & Ei' & _).
    match type of Es' with _ = _ <| nodes := updZ _ _ ?n |> => set (nd3 := n) in * end.
    assert (Hid3 : n_id nd3 = j) by exact (HIf _ _ Hn2).
    assert (En' : nodes s' = updZ (nodes sf) (n_id nd3 - 1) nd3) by (rewrite Es'; reflexivity).
    split.
    - apply (SlotIntX_put_node cf None sf s' j nd2 nd3 HSf HIf Hn2 Hid3 En' Ei'). intros Hx0. congruence.
    - intros k n Hk. rewrite (nodeZ_upd sf s' nd3 nd2 k En' ltac:(rewrite Hid3; exact Hn2)) in Hk. rewrite Hid3 in Hk.
      destruct (Z.eqb_spec k j) as [->|Hne]; [injection Hk as <-; exact Hid3|exact (HIf _ _ Hk)].
  Qed.
End OtherInt.

(* ====================================================================================================================
   4b. PickT: after the next events have been recomputed, the customers a slotted node names for its next end of service are not
       on its interrupted list (they have an end date, a listed customer has none) -- what a finish_service event at a slotted
       node will need (Journey2s.PickOK asks the same of Schedule nodes).  Established by update_all from SlotInt, at EVERY event.
   ==================================================================================================================== *)
Definition PickT (cf : config) (s : sim) : Prop :=
  forall j nd, nodeZ s j = Some nd -> slot_of cf j = true -> n_next_type nd = 0 -> forall i, In i (n_next_inds nd) -> ~ In i (n_interrupted nd).
Definition PickTat (cf : config) (s : sim) (j : Z) : Prop :=
  forall nd, nodeZ s j = Some nd -> slot_of cf j = true -> n_next_type nd = 0 -> forall i, In i (n_next_inds nd) -> ~ In i (n_interrupted nd).

Lemma scan_inds_send t il : forall q best acc c, In c (snd (scan_inds t q il best acc)) ->
  In c acc \/ (exists x e, find_ind c il = Some x /\ i_send x = Some e).
Proof.
  induction q as [|i r IH]; intros best acc c H; cbn [scan_inds] in H; [left; exact H|].
  destruct (find_ind i il) as [x|] eqn:Ef; [|exact (IH _ _ _ H)].
  destruct (i_send x) as [e|] eqn:Ee; [|exact (IH _ _ _ H)].
  destruct (negb (i_blocked x) && (t <=? e)); [|exact (IH _ _ _ H)].
  assert (Hme : exists x0 e0, find_ind i il = Some x0 /\ i_send x0 = Some e0) by eauto.
  destruct (date_lt (Some e) best).
  - destruct (IH _ _ _ H) as [[->|[]]|P]; [right; exact Hme|right; exact P].
  - destruct (date_eqb (Some e) best); [|exact (IH _ _ _ H)].
    destruct (IH _ _ _ H) as [Hin|P]; [|right; exact P]. apply in_app_or in Hin as [Hin|[->|[]]]; [left; exact Hin|right; exact Hme].
Qed.

Section PickT.
  Variable cf : config.

  Lemma une_pickT j s s' : Idx s -> SlotInt cf s -> update_next_event_date cf j s = Ok (tt, s') ->
    inds s' = inds s /\ (forall k, k <> j -> nodeZ s' k = nodeZ s k) /\ PickTat cf s' j.
  Proof.
    intros HI HS H. unfold update_next_event_date in H. mstep H as nd. mstep H as nc. mstep H as t0. mstep H as il.
    pose proof (HI _ _ Hn) as Hidn.
    set (inf := nd_inf nd) in *.
    set (es := if nc_slotted nc || inf then scan_inds (now s) (all_individuals nd) (inds s) None [] else scan_servers (n_servers nd) None []) in *.
    mstep H as rn.
    assert (Hrn : s0 = s) by (destruct (negb inf && nc_reneging nc); [apply lift_spec in E as [-> _]; reflexivity|apply ret_spec in E as [_ ->]; reflexivity]).
    subst s0. clear E.
    assert (Hes : slot_of cf j = true -> forall c, In c (snd es) -> ~ In c (n_interrupted nd)).
    { intros Hsl c Hcin Hl. assert (Hns : nc_slotted nc = true) by (unfold slot_of in Hsl; rewrite Hc in Hsl; exact Hsl).
      unfold es in Hcin. rewrite Hns in Hcin. cbn [orb] in Hcin.
      destruct (scan_inds_send _ _ _ _ _ c Hcin) as [[]|(x & e & Hx & He)].
      destruct (sx_mem _ _ _ HS j nd c Hn Hsl Hl) as (x0 & Hx0 & _ & _ & P). assert (x0 = x) by congruence. subst x0.
      destruct (P ltac:(discriminate)) as [_ P2]. congruence. }
    assert (Hfin : forall d l ty, (ty = 0 -> l = snd es) ->
              put_node (nd <| n_next_date := d |> <| n_next_inds := l |> <| n_next_type := ty |>) s = Ok (tt, s') ->
              inds s' = inds s /\ (forall k, k <> j -> nodeZ s' k = nodeZ s k) /\ PickTat cf s' j).
    { intros d l ty H0 Hp. set (nd1 := nd <| n_next_date := d |> <| n_next_inds := l |> <| n_next_type := ty |>) in *.
      destruct (put_node_facts _ _ _ _ Hp) as (Es & Ei & _).
      assert (En : nodes s' = updZ (nodes s) (n_id nd1 - 1) nd1) by (rewrite Es; reflexivity).
      assert (Hn' : nodeZ s (n_id nd1) = Some nd) by (change (n_id nd1) with (n_id nd); rewrite Hidn; exact Hn).
      assert (HZ : forall k, nodeZ s' k = if k =? j then Some nd1 else nodeZ s k).
      { intros k. rewrite (nodeZ_upd s s' nd1 nd k En Hn'). change (n_id nd1) with (n_id nd). rewrite Hidn. reflexivity. }
      split; [exact Ei|]. split.
      - intros k Hk. rewrite HZ. apply Z.eqb_neq in Hk. rewrite Hk. reflexivity.
      - intros nd' Hnn Hsl Hty c Hcin. rewrite HZ, Z.eqb_refl in Hnn. injection Hnn as <-. cbn in Hty, Hcin. change (n_interrupted nd1) with (n_interrupted nd).
        rewrite (H0 Hty) in Hcin. exact (Hes Hsl c Hcin). }
    destruct (nc_reneging nc || cf_dyn cf || nc_sched nc).
    - match type of H with context [decide_next_event ?cands ?best] => destruct (dne_in cands best) as [Hd|[Hd Hne]]; destruct (decide_next_event cands best) as [ty [d l]] end.
      + injection Hd as -> -> ->. apply (Hfin None [] 5); [intros Hx; discriminate Hx|exact H].
      + cbn in Hne. apply (fun A => Hfin d l ty A H).
        intros ->. apply in_app_or in Hd as [Hd|Hd].
        * destruct (nc_srv nc); cbn in Hd; [destruct Hd|destruct Hd as [Hd|[]]; discriminate Hd|destruct Hd as [Hd|[]]; discriminate Hd].
        * destruct Hd as [Hd|[Hd|[Hd|[]]]]; [injection Hd as Hd; rewrite Hd; reflexivity|discriminate Hd|discriminate Hd].
    - apply (Hfin (fst es) (snd es) 0); [intros _; reflexivity|exact H].
  Qed.

  Lemma kt_une j : keepT KT (update_next_event_date cf j).
  Proof. unfold update_next_event_date, ncfg_of, tnow. kv0. Qed.
  Lemma kt_update_all js : keepT KT (update_all cf js).
  Proof. induction js as [|j r IH]; cbn [update_all]; [apply kv_ret|]. apply kv_bind; [apply kt_une|intros _; exact IH]. Qed.

  Lemma update_all_pickT : forall js s s', Idx s -> SlotInt cf s -> update_all cf js s = Ok (tt, s') ->
    forall k, (In k js \/ PickTat cf s k) -> PickTat cf s' k.
  Proof.
    induction js as [|j r IH]; intros s s' HI HS H k Hk; cbn [update_all] in H.
    - apply ret_spec in H as [_ ->]. destruct Hk as [[]|Hk]. exact Hk.
    - tstep H u0 s1 E1. destruct (une_pickT j s s1 HI HS E1) as (Ei & Hoth & Hj).
      destruct (SlotIntX_keep cf None _ s tt s1 (kt_une j) HI HS E1) as (HS1 & ET1 & HI1).
      apply (IH s1 s' HI1 HS1 H k). destruct (Z.eq_dec k j) as [->|Hne]; [right; exact Hj|].
      destruct Hk as [[Hk|Hk]|Hk]; [congruence|left; exact Hk|right]. intros nd Hn. rewrite (Hoth k Hne) in Hn. exact (Hk nd Hn).
  Qed.

  (* whatever the event does: if SlotInt holds when the next events are recomputed, PickT holds at the end of the event *)
  Theorem event_tail_pickT s1 s' : Idx s1 -> SlotInt cf s1 ->
    (ns <- gets nodes ;; update_all cf (map n_id ns) ;;; find_next_active_node) s1 = Ok (tt, s') -> PickT cf s'.
  Proof.
    intros HI HS H. tstep H ns sq0 Ens. apply gets_spec in Ens as [-> ->]. tstep H u2 s2 E2.
    destruct (fnan_spec _ _ H) as (En & _).
    intros j nd Hn. rewrite (nodeZ_same s2 s' j En) in Hn.
    pose proof (keepT_VT _ s1 tt s2 (kt_update_all _) HI E2) as ET. destruct (VT_node _ _ _ _ ET Hn) as (nd1 & Hn1 & _).
    apply (update_all_pickT _ s1 s2 HI HS E2 j); [|exact Hn]. left.
    rewrite <- (HI _ _ Hn1). apply in_map. eapply nthZ_In; exact Hn1.
  Qed.
End PickT.

(* ====================================================================================================================
   5. The invariant at event boundaries; one SLOT event; runs of slot events
   ==================================================================================================================== *)
Definition Jrn2t (cf : config) (an : Z -> option Z) (s : sim) (h : list rec) : Prop :=
  Conserve2.WFx2 [] s /\ JH an h s /\ Lq s /\ SlotInt cf s.

(* the active node is about to run a slot event *)
Definition slot_event_b (s : sim) : bool :=
  negb (next_active s =? 0) && match nodeZ s (next_active s) with Some nd => n_next_type nd =? 4 | None => false end.

Lemma Jrn2t_same cf an s s' h : nodes s' = nodes s -> inds s' = inds s -> exit_ids s' = exit_ids s -> exit_n s' = exit_n s ->
  a_created (arr s') = a_created (arr s) -> Jrn2t cf an s h -> Jrn2t cf an s' h.
Proof.
  intros En Ei Ee Een Ec (A & B & C & D). split; [|split; [|split]].
  - eapply Conserve2.WFx2_shape; [|exact A]. unfold Conserve2.shp. rewrite En, Ei, Ee, Een, Ec. reflexivity.
  - apply (JH_mono an h s s' B); [intros k y; apply (at_node_nodes s s'); exact En|intros; rewrite Ei; reflexivity|exact Ee|lia].
  - exact (Lq_same s s' En Ei C).
  - apply (SlotIntX_VT cf None s s'); [|exact D]. unfold VW. rewrite En, Ei. reflexivity.
Qed.

Section SlotStep.
  Variable cf : config.
  Hypothesis Hsc : scope2t cf = true.

  Lemma scope2t_p4 j nc sl : nthZ (cf_nodes cf) (j - 1) = Some nc -> nc_srv nc = SSlot sl -> (sl_pre sl =? 4) = false.
  Proof.
    intros Hc Esrv. pose proof (scope2t_nc cf j nc Hsc Hc) as Hs. unfold scope_nc_t in Hs. rewrite Esrv in Hs.
    apply andb_true_iff in Hs as [_ Hs]. apply andb_true_iff in Hs as [Hs _]. apply andb_true_iff in Hs as [Hs _]. apply negb_true_iff in Hs. exact Hs.
  Qed.

  (* FUNCTION LEVEL: a slot event keeps the journey part of the state and the slot invariant *)
  Theorem slotted_service_jrn2t an h j s s' : Journey2s.Jst an h [] s -> SlotInt cf s -> slotted_service cf j s = Ok (tt, s') ->
    Journey2s.Jst an h [] s' /\ SlotInt cf s'.
  Proof.
    intros HJ HS H. destruct (Journey2s.Jst_Ctx an h [] s HJ) as [HW HNO].
    split.
    - exact (proj1 (Journey2r.slotted_service_journey_partial cf an h j s s' (fun nc sl => scope2t_p4 j nc sl) HJ H)).
    - exact (proj1 (slotted_service_SI cf j s s' (fun nc sl => scope2t_p4 j nc sl) HW HNO HS H)).
  Qed.

  Lemma event_step_Jrn2t_slot an h s s' : Jrn2t cf an s h -> slot_event_b s = true -> event_step cf s = Ok (tt, s') ->
    Jrn2t cf an s' (h ++ log s') /\ PickT cf s'.
  Proof.
    intros HJ Hse H. unfold event_step in H. tstep H u0 s0 E0. unfold modify in E0. injection E0 as <-.
    set (s0 := s <| log := [] |>) in *.
    assert (HJ0 : Jrn2t cf an s0 h) by (apply (Jrn2t_same cf an s s0 h); try reflexivity; exact HJ).
    destruct HJ0 as (A & B & C & D).
    assert (J0 : Journey2s.Jst an h [] s0).
    { split; [exact A|]. split; [|exact C]. unfold JI. change (log s0) with (@nil rec). rewrite app_nil_r. exact B. }
    tstep H k sx0 Ek. apply gets_spec in Ek as [-> ->].
    unfold slot_event_b in Hse. apply andb_true_iff in Hse as [Hk0 Hty]. apply negb_true_iff in Hk0.
    change (next_active s0) with (next_active s) in H. rewrite Hk0 in H.
    tstep H u1 s1 E1.
    assert (H1 : Journey2s.Jst an h [] s1 /\ SlotInt cf s1).
    { unfold node_have_event in E1. tstep E1 nd sx0 En. apply get_node_spec in En as [-> Hn].
      change (nodeZ s0 (next_active s)) with (nodeZ s (next_active s)) in Hn. rewrite Hn in Hty. apply Z.eqb_eq in Hty. rewrite Hty in E1.
      change (4 =? 0) with false in E1. change (4 =? 1) with false in E1. change (4 =? 2) with false in E1. change (4 =? 3) with false in E1.
      change (4 =? 4) with true in E1. cbv iota in E1.
      exact (slotted_service_jrn2t an h _ s0 s1 J0 D E1). }
    destruct H1 as (J1 & D1). clear E1.
    split; [|exact (event_tail_pickT cf s1 s' (WFx2_Idx _ _ (proj1 J1)) D1 H)].
    tstep H ns sx0 Ens. apply gets_spec in Ens as [-> ->].
    tstep H u2 s2 E2.
    pose proof (WFx2_Idx _ _ (proj1 J1)) as HI1.
    assert (EJ2 : Journey2s.VJ s2 = Journey2s.VJ s1).
    { apply (Journey2s.kb_kj KT _ (Journey2s.kb_update_all cf (map n_id (nodes s1))) s1 tt s2); [apply Idx_vidx; exact HI1|exact I|exact E2]. }
    pose proof (Journey2s.Jst_VJ an h [] s1 s2 EJ2 J1) as J2.
    destruct (SlotIntX_keep cf None _ s1 tt s2 (kt_update_all cf _) HI1 D1 E2) as (D2 & _ & _). clear E2.
    destruct (fnan_spec _ _ H) as (En & Ei & El & Ee & Een & Ea).
    apply (Jrn2t_same cf an s2 s' (h ++ log s')); [exact En|exact Ei|exact Ee|exact Een|rewrite Ea; reflexivity|].
    destruct J2 as (A2 & B2 & C2). rewrite El. split; [exact A2|]. split; [exact B2|]. split; [exact C2|exact D2].
  Qed.

  (* EVENT LEVEL, SLOT EVENTS ONLY *)
  Theorem event_step_jrn2t_partial an s s' h : Jrn2t cf an s h -> slot_event_b s = true -> event_step cf s = Ok (tt, s') ->
    Jrn2t cf (an_step s an) s' (h ++ log s') /\ PickT cf s'.
  Proof.
    intros (A & B & C & D) Hse H. apply (event_step_Jrn2t_slot (an_step s an) h s s'); [|exact Hse|exact H].
    split; [exact A|]. split; [|auto]. apply (JH_an_ext an _ _ _ A); [|exact B]. intros i Hi. apply an_step_old. exact Hi.
  Qed.
End SlotStep.

Lemma Jrn2t_dr cf an s h d : Jrn2t cf an s h -> Jrn2t cf an (s <| dr := d |>) h.
Proof. apply Jrn2t_same; reflexivity. Qed.

(* every event of the run is a slot event *)
Fixpoint slots_only (cf : config) (s : sim) (ds : list draws) : Prop :=
  match ds with
  | [] => True
  | d :: r => slot_event_b s = true /\ forall s1, event_step cf (s <| dr := d |>) = Ok (tt, s1) -> slots_only cf s1 r
  end.
Theorem run_slots_jrn2t_partial cf : scope2t cf = true -> forall ds s h an s' h' an', Jrn2t cf an s h -> slots_only cf s ds ->
  run_hist cf s h an ds = Ok (s', h', an') -> Jrn2t cf an' s' h' /\ run_many cf s ds = Ok s' /\ exists t, h' = h ++ t.
Proof.
  intros Hsc ds s h an s' h' an' HJ Hso H. split; [|split; [eapply run_hist_many; eauto|eapply run_hist_grows; eauto]].
  revert s h an HJ Hso H. induction ds as [|d r IH]; intros s h an HJ Hso H; cbn [run_hist] in H; [injection H as <- <- <-; exact HJ|].
  destruct (event_step cf (s <| dr := d |>)) as [[u s1]| |] eqn:E; try discriminate. destruct u. destruct Hso as [Hse Hso].
  apply (IH s1 (h ++ log s1) (an_step s an)); [|exact (Hso s1 E)|exact H].
  exact (proj1 (event_step_jrn2t_partial cf Hsc an _ s1 h (Jrn2t_dr _ _ _ _ d HJ) Hse E)).
Qed.

(* ====================================================================================================================
   6. What the invariant says (the six clauses of C03, as Journey2s.Jrn2s_means; the interrupted lists of slotted nodes)
   ==================================================================================================================== *)
Theorem Jrn2t_means cf an s h : Jrn2t cf an s h ->
  (* (0) the first record of a customer is at the node where it arrived *)
  (forall i r l, recs_of i h = r :: l -> an i = Some (r_node r)) /\
  (* (1) the records of one customer, in order, are one connected journey *)
  (forall i l1 r1 r2 l2, recs_of i h = l1 ++ r1 :: r2 :: l2 ->
     visit r2 /\ ((closing r1 /\ r_dest r1 = Some (r_node r2) /\ r_exit r1 = r_arr r2) \/ (cont r1 /\ r_node r2 = r_node r1 /\ r_arr r2 = r_arr r1))) /\
  (* (2) a baulk / rejection record is its customer's only record *)
  (forall r, In r h -> ~ visit r -> recs_of (r_id r) h = [r]) /\
  (* (3) a customer in node k+1 is recorded there, has as many records as its counter says, and its last record leads here *)
  (forall k nd i, nth_error (nodes s) k = Some nd -> In i (all_individuals nd) ->
     exists x, find_ind i (inds s) = Some x /\ i_node x = Some (Z.of_nat k + 1) /\ i_nrec x = zlen (recs_of i h) /\
       ((recs_of i h = [] /\ an i = Some (Z.of_nat k + 1)) \/
        exists l r, recs_of i h = l ++ [r] /\
          ((closing r /\ r_dest r = Some (Z.of_nat k + 1) /\ r_exit r = i_arr x) \/ (cont r /\ r_node r = Z.of_nat k + 1 /\ r_arr r = i_arr x))) /\
       (forall l1 r l2, recs_of i h = l1 ++ r :: l2 -> Forall cont l2 -> closing r ->
          r_dest r = Some (Z.of_nat k + 1) /\ r_exit r = i_arr x /\ Forall (fun r' => r_node r' = Z.of_nat k + 1 /\ r_arr r' = i_arr x) l2) /\
       (Forall cont (recs_of i h) -> an i = Some (Z.of_nat k + 1) /\ Forall (fun r' => r_node r' = Z.of_nat k + 1 /\ r_arr r' = i_arr x) (recs_of i h))) /\
  (* (4) a customer is at the exit exactly when its last record names destination -1 or is a baulk / rejection record *)
  (forall i, 1 <= i <= a_created (arr s) ->
     (In i (exit_ids s) <-> exists l r, recs_of i h = l ++ [r] /\ (r_dest r = Some (-1) \/ r_type r = 3 \/ r_type r = 4))) /\
  (* (5) records only name customers that exist *)
  (forall r, In r h -> r_id r <= a_created (arr s)).
Proof.
  intros (HW & [A B C F D] & _).
  assert (P3 : forall k nd i, nth_error (nodes s) k = Some nd -> In i (all_individuals nd) ->
     exists x, find_ind i (inds s) = Some x /\ good an (Z.of_nat k + 1) i x h).
  { intros k nd i Hk Hin. apply (A (Z.of_nat k + 1) i). exists nd. split; [|exact Hin]. unfold nodeZ.
    replace (Z.of_nat k + 1 - 1) with (Z.of_nat k) by lia. rewrite Conserve2.nthZ_of_nat. exact Hk. }
  split; [exact F|]. split; [|split; [|split; [|split; [|exact D]]]].
  - intros i l1 r1 r2 l2 E. pose proof (C i) as Hc. rewrite E in Hc. apply chain_mid in Hc. exact Hc.
  - intros r Hr Hty. apply (chain_only _ r (C (r_id r))); [apply recs_of_In; auto|exact Hty].
  - intros k nd i Hk Hin. destruct (P3 k nd i Hk Hin) as (x & Hx & Gn & Gl & Gc & Ga). exists x.
    split; [exact Hx|]. split; [exact Gn|]. split; [exact Gc|]. split; [|split].
    + unfold last_of in Gl. destruct (last_opt (recs_of i h)) as [r|] eqn:El.
      * right. destruct (last_opt_split _ _ El) as [l Hl]. exists l, r. split; [exact Hl|exact Gl].
      * left. apply last_opt_None in El. auto.
    + intros l1 r l2 E Hf Hcl. pose proof (C i) as Hc. rewrite E in Hc.
      assert (Hc' : chain (r :: l2)) by (clear -Hc; induction l1 as [|a t IH]; [exact Hc|apply IH; destruct Hc as [_ Hc]; exact Hc]).
      assert (Hl' : lastok (Z.of_nat k + 1) (i_arr x) (last_opt (r :: l2))).
      { unfold last_of in Gl. rewrite E in Gl. clear -Gl. induction l1 as [|a t IH]; [exact Gl|apply IH]. cbn [app last_opt] in Gl.
        destruct (last_opt (t ++ r :: l2)) eqn:E0; [exact Gl|]. apply last_opt_None in E0. destruct t; discriminate E0. }
      destruct (chain_visit _ _ l2 r Hc' Hf Hl') as (Q1 & _ & Q3). destruct (Q1 Hcl). auto.
    + intros Hf. destruct (recs_of i h) as [|r l] eqn:E; [split; [exact (Ga eq_refl)|constructor]|].
      inversion Hf as [|? ? Hcr Hfl]. subst. pose proof (C i) as Hc. rewrite E in Hc. unfold last_of in Gl. rewrite E in Gl.
      destruct (chain_visit _ _ l r Hc Hfl Gl) as (_ & Q2 & Q3). destruct (Q2 Hcr) as [N1 A1].
      split; [rewrite (F i r l E), N1; reflexivity|constructor; auto].
  - intros i Hi. split.
    + intros Hin. destruct (B i Hin) as (r & Hl & Ht). destruct (last_opt_split _ _ Hl) as [l El]. exists l, r. split; [exact El|].
      destruct Ht as [[_ Hd]|[Ht|Ht]]; auto.
    + intros (l & r & El & Hr).
      destruct (Conserve2.WFx2_means _ HW) as (HP & _).
      assert (Hin : In i (Conserve2.ids_of s)) by (eapply Permutation_in; [symmetry; exact HP|]; apply zseq_In; lia).
      unfold Conserve2.ids_of in Hin. apply in_app_or in Hin as [Hin|Hin]; [exfalso|exact Hin].
      unfold Conserve2.ids_in_nodes in Hin. apply in_concat in Hin as (q & Hq & Hiq). apply in_map_iff in Hq as (nd & <- & Hnd).
      apply In_nth_error in Hnd as (k & Hk).
      destruct (P3 k nd i Hk Hiq) as (x & _ & _ & Gl & _ & _). unfold last_of in Gl. rewrite El, last_opt_snoc in Gl.
      destruct Gl as [(Hcl & Hd & _)|((Ht & Hd) & _)].
      * destruct Hr as [Hr|[Hr|Hr]]; [rewrite Hr in Hd; injection Hd as Hd; lia| |]; destruct Hcl as [Hc|[Hc|[Hc _]]]; congruence.
      * destruct Hr as [Hr|[Hr|Hr]]; congruence.
Qed.

(* the customers on the interrupted list of a SLOTTED node k+1, in words: distinct customers in the queues of that node, recorded
   there, each carrying the server mark and neither a service start date nor a service end date; and every customer recorded at a
   slotted node with a service start date carries the server mark *)
Theorem Jrn2t_int_means cf an s h : Jrn2t cf an s h ->
  (forall k nd, nth_error (nodes s) k = Some nd -> slot_of cf (Z.of_nat k + 1) = true ->
     NoDup (n_interrupted nd) /\
     forall i, In i (n_interrupted nd) ->
       In i (all_individuals nd) /\
       exists x, find_ind i (inds s) = Some x /\ i_node x = Some (Z.of_nat k + 1) /\ i_server x <> None /\ i_sst x = None /\ i_send x = None) /\
  (forall i x j, find_ind i (inds s) = Some x -> i_node x = Some j -> slot_of cf j = true -> i_sst x <> None -> i_server x <> None).
Proof.
  intros (HW & HJ & _ & HS). split.
  - intros k nd Hk Hsl.
    assert (Hn : nodeZ s (Z.of_nat k + 1) = Some nd).
    { unfold nodeZ. replace (Z.of_nat k + 1 - 1) with (Z.of_nat k) by lia. rewrite Conserve2.nthZ_of_nat. exact Hk. }
    split; [exact (sx_nd _ _ _ HS _ nd Hn Hsl)|]. intros i Hin.
    destruct (sx_mem _ _ _ HS _ nd i Hn Hsl Hin) as (x & Hx & P1 & P2 & P3). destruct (P3 ltac:(discriminate)) as [P4 P5]. split.
    + destruct (WFx2_rec_place _ _ _ _ HW Hx) as [[k0 Hk0]|[]]. destruct (j_node _ _ _ HJ k0 i Hk0) as (x0 & Hx0 & G & _).
      assert (x0 = x) by congruence. subst x0. assert (k0 = Z.of_nat k + 1) by congruence. subst k0.
      destruct Hk0 as (n0 & Hn0 & Hi0). assert (n0 = nd) by congruence. subst n0. exact Hi0.
    + exists x. auto.
  - intros i x j Hf Hnode Hsl. apply (sx_mark _ _ _ HS i x j Hf Hnode Hsl). discriminate.
Qed.

(* ====================================================================================================================
   7. Executable test of the invariant
   ==================================================================================================================== *)
Definition slotint_b (cf : config) (s : sim) : bool :=
  forallb (fun nd =>
     negb (slot_of cf (n_id nd)) ||
     (nodupZ (n_interrupted nd) &&
      forallb (fun i => match find_ind i (inds s) with
                        | Some x => ozeqb (i_node x) (Some (n_id nd)) && negb (isnone (i_server x)) && isnone (i_sst x) && isnone (i_send x)
                        | None => false end) (n_interrupted nd))) (nodes s)
  && forallb (fun x => match i_node x with
                       | Some j => negb (slot_of cf j) || isnone (i_sst x) || negb (isnone (i_server x))
                       | None => true end) (inds s).
Definition jrn2t_b (cf : config) (an : Z -> option Z) (s : sim) (h : list rec) : bool :=
  Conserve2.wfx2_b s && jh_b an s h && lq_b s && slotint_b cf s.

Theorem slotint_b_sound cf s : Idx s -> slotint_b cf s = true -> SlotInt cf s.
Proof.
  intros HI H. unfold slotint_b in H. apply andb_true_iff in H as [H1 H2]. rewrite forallb_forall in H1, H2.
  assert (Hnode : forall j nd, nodeZ s j = Some nd -> slot_of cf j = true ->
            nodupZ (n_interrupted nd) = true /\ forall i, In i (n_interrupted nd) ->
              match find_ind i (inds s) with
              | Some x => ozeqb (i_node x) (Some j) && negb (isnone (i_server x)) && isnone (i_sst x) && isnone (i_send x)
              | None => false end = true).
  { intros j nd Hn Hs. specialize (H1 nd (nthZ_In _ _ _ Hn)). rewrite (HI _ _ Hn), Hs in H1. cbn in H1.
    apply andb_true_iff in H1 as [A B]. split; [exact A|]. rewrite forallb_forall in B. exact B. }
  constructor.
  - intros j nd Hn Hs. apply nodupZ_sound. exact (proj1 (Hnode j nd Hn Hs)).
  - intros j nd i Hn Hs Hin. pose proof (proj2 (Hnode j nd Hn Hs) i Hin) as B.
    destruct (find_ind i (inds s)) as [x|]; [|discriminate B]. apply andb_true_iff in B as [B E4]. apply andb_true_iff in B as [B E3].
    apply andb_true_iff in B as [E1 E2]. exists x. split; [reflexivity|]. split; [apply ozeqb_eq; exact E1|].
    split; [destruct (i_server x); [discriminate|discriminate E2]|]. intros _. split; apply isnone_eq; assumption.
  - intros i x j Hf Hnode' Hs _ Hsst. specialize (H2 x (find_ind_In _ _ _ Hf)). rewrite Hnode', Hs in H2. cbn in H2.
    destruct (i_sst x); [|congruence]. cbn in H2. destruct (i_server x); [discriminate|discriminate H2].
Qed.
Theorem jrn2t_b_sound cf an s h : jrn2t_b cf an s h = true -> Jrn2t cf an s h.
Proof.
  unfold jrn2t_b. intros H. apply andb_true_iff in H as [H B4]. apply andb_true_iff in H as [H B3]. apply andb_true_iff in H as [B1 B2].
  pose proof (Conserve2.wfx2_b_sound s B1) as HW. pose proof (WFx2_Idx _ _ HW) as HI.
  split; [exact HW|]. split; [apply jh_b_sound; assumption|]. split; [|exact (slotint_b_sound cf s HI B4)].
  unfold lq_b in B3. rewrite forallb_forall in B3. constructor.
  - intros d fr y (nd & Hn & Hin). specialize (B3 nd (nthZ_In _ _ _ Hn)). apply andb_true_iff in B3 as [B3 _]. rewrite forallb_forall in B3.
    specialize (B3 (fr, y) Hin). cbn in B3. destruct (find_ind y (inds s)) as [x|]; [|discriminate]. apply andb_true_iff in B3 as [E1 E2].
    exists x. rewrite (HI _ _ Hn) in E1. split; [reflexivity|]. split; [apply ozeqb_eq; exact E1|exact E2].
  - intros d nd Hn. specialize (B3 nd (nthZ_In _ _ _ Hn)). apply andb_true_iff in B3 as [_ B3]. apply nodupZ_sound. exact B3.
Qed.

(* ====================================================================================================================
   8. Example: Slot2's network (node 1: capacitated slots of sizes 2, 1, 2, 1, ... at 2, 5, 7, 10, ..., option `resume`; node 2: one
      server).  Three customers arrive at 1; slot 1 starts customers 1 and 2 (service times 1 and 12), customer 1 moves on at 3;
      slot 3 (size 2, at 7) starts customer 3 (100); slot 4 (size 1, at 10, two in service) INTERRUPTS customer 2: continuation
      record (2, node 1, type 1, 1..10, no destination), customer 2 is on the interrupted list (Journey2's NoInt and Journey2s's
      IntInv are false there); slot 5 (size 2, at 12) RESUMES it; slot 6 (size 1, at 15) interrupts it again, slot 7 (at 17)
      resumes it; it ends its service at 18 - service record (2, node 1, type 0, 1..18, to node 2) -, is served at node 2 and
      leaves at 24.  Its four records chain; the executable invariant holds after EVERY one of the 14 events (arrival, ends of
      service and slots alike); the slot-event theorem applies to the three consecutive slot events 12, 15, 17 (resume, interrupt,
      resume) and to every run of slot events from there.
   ==================================================================================================================== *)
Definition jt_cf : config := Slot2.ex_cf 1.
Definition jt_s0 : sim := Slot2.ex_s0.
Definition jt_d (l : list Z) : draws := mkDraws [1000] [3] l [0; 0] [] [].
Definition jt_ds : list draws := [jt_d []; jt_d [1; 12]; jt_d [6]; jt_d [6]; jt_d [100]] ++ repeat (jt_d [6]) 9.
Definition jt_after (n : nat) : sim * list rec * (Z -> option Z) :=
  match run_hist jt_cf jt_s0 [] jx_an0 (firstn n jt_ds) with Ok r => r | _ => (jt_s0, [], jx_an0) end.
Definition jt_s7 : sim := fst (fst (jt_after 7)).
Definition jt_h7 : list rec := snd (fst (jt_after 7)).
Definition jt_an7 : Z -> option Z := snd (jt_after 7).

Fixpoint slots_only_b (cf : config) (s : sim) (ds : list draws) : bool :=
  match ds with
  | [] => true
  | d :: r => slot_event_b s && match event_step cf (s <| dr := d |>) with Ok (_, s1) => slots_only_b cf s1 r | _ => true end
  end.
Lemma slots_only_b_sound cf : forall ds s, slots_only_b cf s ds = true -> slots_only cf s ds.
Proof.
  induction ds as [|d r IH]; intros s H; cbn [slots_only_b slots_only] in *; [exact I|]. apply andb_true_iff in H as [H1 H2].
  split; [exact H1|]. intros s1 E. rewrite E in H2. exact (IH s1 H2).
Qed.

Example jt_scope : scope2t jt_cf = true /\ Journey2s.scope2s jt_cf = false /\ pslot jt_cf = true.
Proof. vm_compute. auto. Qed.
Example jt_start : Jrn2t jt_cf jx_an0 jt_s0 [].
Proof. apply jrn2t_b_sound. vm_compute. reflexivity. Qed.
(* the invariant after each of the 14 events; which of them are slot events; the interrupted list of node 1 *)
Example jt_run :
  map (fun n => match run_hist jt_cf jt_s0 [] jx_an0 (firstn n jt_ds) with
                | Ok (s, h, an) => Some (now s, slot_event_b s, map n_interrupted (firstn 1 (nodes s)), jrn2t_b jt_cf an s h)
                | _ => None end) (seq 0 15) =
  [ Some (1, false, [[]], true); Some (2, true, [[]], true); Some (3, false, [[]], true); Some (5, true, [[]], true);
    Some (7, true, [[]], true); Some (9, false, [[]], true); Some (10, true, [[]], true); Some (12, true, [[2]], true);
    Some (15, true, [[]], true); Some (17, true, [[2]], true); Some (18, false, [[]], true); Some (20, true, [[]], true);
    Some (22, true, [[]], true); Some (24, false, [[]], true); Some (25, true, [[]], true) ].
Proof. vm_compute. reflexivity. Qed.
(* the records of customer 2 chain: two continuation records, a service record naming node 2, a service record naming the exit *)
Example jt_chain : exists s h an, run_hist jt_cf jt_s0 [] jx_an0 jt_ds = Ok (s, h, an) /\ Jrn2t jt_cf an s h /\
  map jx_view (recs_of 2 h) = [(2, 1, 1, Some 1, Some 10, None); (2, 1, 1, Some 1, Some 15, None); (2, 1, 0, Some 1, Some 18, Some 2);
                               (2, 2, 0, Some 18, Some 24, Some (-1))] /\ exit_ids s = [1; 2].
Proof. eexists. eexists. eexists. split; [vm_compute; reflexivity|]. split; [apply jrn2t_b_sound; vm_compute; reflexivity|]. vm_compute. auto. Qed.
(* customer 2 on the list at 12: the invariant holds; the theorem covers the slot events that follow, whatever the draws *)
Example jt_s7_inv : Jrn2t jt_cf jt_an7 jt_s7 jt_h7 /\ map n_interrupted (nodes jt_s7) = [[2]; []] /\ slot_event_b jt_s7 = true.
Proof. split; [apply jrn2t_b_sound; vm_compute; reflexivity|]. vm_compute. auto. Qed.
(* Journey2s's invariant is FALSE in that state (ii_sch: only a node with a pre-emptive Schedule has interrupted customers), as
   Journey2's is (Journey2r.jrn2_not_kept_by_preemptive_slot): the region is outside their scope, not a defect of the engine *)
Example jt_s7_not_Jrn2s : ~ Journey2s.Jrn2s jt_cf jt_an7 jt_s7 jt_h7.
Proof.
  intros (_ & _ & _ & HI & _).
  assert (Hn : exists nd, nodeZ jt_s7 1 = Some nd /\ n_interrupted nd = [2]) by (eexists; split; vm_compute; reflexivity).
  destruct Hn as (nd & Hn & Hl). pose proof (Journey2s.ii_sch _ _ _ _ _ HI 1 nd Hn ltac:(vm_compute; reflexivity)) as Hy. congruence.
Qed.
Example jt_thm : forall ds s h an, slots_only jt_cf jt_s7 ds -> run_hist jt_cf jt_s7 jt_h7 jt_an7 ds = Ok (s, h, an) -> Jrn2t jt_cf an s h.
Proof.
  intros ds s h an Hso H. exact (proj1 (run_slots_jrn2t_partial jt_cf (proj1 jt_scope) ds jt_s7 jt_h7 jt_an7 s h an (proj1 jt_s7_inv) Hso H)).
Qed.
Example jt_three_slots : slots_only jt_cf jt_s7 (firstn 3 (skipn 7 jt_ds)) /\
  exists s h an, run_hist jt_cf jt_s7 jt_h7 jt_an7 (firstn 3 (skipn 7 jt_ds)) = Ok (s, h, an) /\ Jrn2t jt_cf an s h /\
    now s = 18 /\ map jx_view (recs_of 2 h) = [(2, 1, 1, Some 1, Some 10, None); (2, 1, 1, Some 1, Some 15, None)].
Proof.
  assert (Hso : slots_only jt_cf jt_s7 (firstn 3 (skipn 7 jt_ds))) by (apply slots_only_b_sound; vm_compute; reflexivity).
  split; [exact Hso|]. eexists. eexists. eexists. split; [vm_compute; reflexivity|].
  split; [apply (jt_thm (firstn 3 (skipn 7 jt_ds))); [exact Hso|vm_compute; reflexivity]|]. vm_compute. auto.
Qed.

Print Assumptions scope2s_scope2t.
Print Assumptions slotted_service_jrn2t.
Print Assumptions event_step_jrn2t_partial.
Print Assumptions run_slots_jrn2t_partial.
Print Assumptions Jrn2t_means.
Print Assumptions Jrn2t_int_means.
Print Assumptions jrn2t_b_sound.
Print Assumptions interrupt_service_other_SI.
Print Assumptions biis_SI.
Print Assumptions event_tail_pickT.
Print Assumptions slotint_b_sound.
Print Assumptions jt_s7_not_Jrn2s.
Print Assumptions jt_run.
Print Assumptions jt_chain.
Print Assumptions jt_thm.
Print Assumptions jt_three_slots.

(* Journey2t.v -- T2 for C03 (journey continuity) on the STAGE-2 engine model: PRE-EMPTIVE CAPACITATED SLOTS.   PARTIAL.
   Journey2.v / Journey2s.v / Journey2r.v leave pre-emptive capacitated slots out of their scope: a slot whose size is below the
   number in service interrupts customers (interrupt_service: continuation record, the customer stays in its queue and joins the
   node's list of interrupted customers) and a later slot with room restarts them (slot_loop: no record).  Journey2's NoInt /
   Journey2s's IntInv (only a node with a pre-emptive Schedule has interrupted customers) are false there.

   What this file delivers (partial correctness; no hypothesis on the draws):
     scope2t (executable)      Journey2s.scope2s extended by pre-emptive capacitated slots (sl_pre <> 4; no capacities anywhere
                               when one is present); scope2s_scope2t.
     SlotInt cf s              THE INVARIANT FOR THE INTERRUPTED LISTS OF SLOTTED NODES (what Journey2r.v names as missing):
                               no customer twice on the list; a listed customer is recorded in that node, carries a server
                               mark (i_server <> None) and has NO service start date and NO service end date (so it is neither
                               a victim of the next shrinking slot nor picked for the next end of service); a customer of a
                               slotted node with a service start date carries the server mark.   slotint_b / slotint_b_sound.
     PickT cf s                the customers named for the next end of service at a slotted node are not on its list.
     Jrn2t cf an s h           = Conserve2.WFx2 + JH + Lq (the journey invariant proper) + SlotInt + PickT;   jrn2t_b(_sound).
     Jrn2t_means               the six clauses (0)-(5) of C03, word for word as Journey2s.Jrn2s_means.
     Jrn2t_int_means           the interrupted lists of slotted nodes, in words.
     slotted_service_jrn2t     FUNCTION LEVEL: a slot event of any table in scope keeps journey part and SlotInt.
     event_step_jrn2t_partial  EVENT LEVEL, SLOT EVENTS ONLY: if the active node runs a slot event (n_next_type = 4), one whole event
                               (slotted_service, update of every node's next event, choice of the next active node) keeps Jrn2t.
     run_slots_jrn2t_partial   any run consisting of slot events only.
   What is MISSING for event_step_jrn2t / run_many_jrn2t (all events): SlotInt speaks about i_sst / i_send, which every start
   block writes (start_fresh / start_give / start_preemptor / begin_interrupted_individuals_service / release_blocked_individual /
   reset_individual_attributes), so it needs its own walk through the recursive core (accept / release / preempt) to show that those
   writes never hit a customer listed at a slotted node (such a customer is in a queue of its node with a server mark, is not
   waiting, not in flight, not blocked, not held by a real server), together with Journey2s's server invariant with ii_sch
   relaxed to slotted nodes.  Not refuted: jt_run checks the executable invariant after EVERY event (arrivals, ends of service,
   slots) of a run in which customer 2 is interrupted twice by a shrinking slot, resumed twice and leaves with a service record. *)
From Coq Require Import ZArith List Bool Lia Permutation.
From RecordUpdate Require Import RecordUpdate.
From CiwV Require Import Sx Prelude Routing Sched.
From CiwV.Engine Require Import State2 Engine2 Codec2.
From CiwV.Inv Require Conserve2.
From CiwV.Inv Require Import Journey2.
From CiwV.Inv Require Journey2s Journey2r Slot2.
Import ListNotations.
Open Scope Z_scope.

Local Arguments Z.mul : simpl never.
Local Arguments Z.add : simpl never.
Local Arguments Z.sub : simpl never.
Local Arguments Z.ltb : simpl never.
Local Arguments Z.leb : simpl never.
Local Arguments Z.eqb : simpl never.
Local Arguments Z.to_nat : simpl never.
Local Arguments Z.of_nat : simpl never.
Local Arguments nth_error : simpl never.

(* ====================================================================================================================
   1. The scope
   ==================================================================================================================== *)
Definition pslot_nc (nc : ncfg) : bool := match nc_srv nc with SSlot sl => sl_cap sl && negb (sl_pre sl =? 0) | _ => false end.
Definition pslot (cf : config) : bool := existsb pslot_nc (cf_nodes cf).
Definition scope_nc_t (nc : ncfg) : bool :=
  negb (nc_preempt nc =? 4) &&
  match nc_srv nc with
  | SFixed => true
  | SSched sc => negb (sc_pre sc =? 4)
  | SSlot sl => negb (sl_pre sl =? 4) && negb (nc_reneging nc) && (nc_preempt nc =? 0)
  end.
Definition scope2t (cf : config) : bool :=
  forallb scope_nc_t (cf_nodes cf) && (if preempts cf then forallb nocap (cf_nodes cf) && negb (cf_dyn cf) else true)
  && (if Journey2s.psched cf || pslot cf then forallb nocap (cf_nodes cf) else true).

(* Journey2s.scope2s admits a NON-capacitated slot table with option 4 (`reroute`; the slot never interrupts; Slotted.__init__
   rejects the option anyway); here no slot table has it *)
Definition noslot4_nc (nc : ncfg) : bool := match nc_srv nc with SSlot sl => negb (sl_pre sl =? 4) | _ => true end.
Lemma scope2s_scope2t cf : Journey2s.scope2s cf = true -> forallb noslot4_nc (cf_nodes cf) = true -> scope2t cf = true.
Proof.
  unfold Journey2s.scope2s, scope2t. intros H H4. apply andb_true_iff in H as [H H3]. apply andb_true_iff in H as [H1 H2].
  rewrite forallb_forall in H1, H4.
  assert (Hall : forall nc, In nc (cf_nodes cf) -> scope_nc_t nc = true /\ pslot_nc nc = false).
  { intros nc Hin. specialize (H1 nc Hin). specialize (H4 nc Hin). unfold Journey2s.scope_nc in H1. unfold scope_nc_t, pslot_nc, noslot4_nc in *.
    apply andb_true_iff in H1 as [A B]. rewrite A. destruct (nc_srv nc) as [|sc|sl]; [auto|auto|].
    apply andb_true_iff in B as [B B3]. apply andb_true_iff in B as [B1 B2]. rewrite B2, B3, H4. split; [reflexivity|].
    apply negb_true_iff in B1. exact B1. }
  assert (Hp : pslot cf = false).
  { unfold pslot. destruct (existsb pslot_nc (cf_nodes cf)) eqn:E; [|reflexivity]. apply existsb_exists in E as (nc & Hin & Hnc).
    destruct (Hall nc Hin) as [_ Hx]. congruence. }
  rewrite Hp, orb_false_r, H2, H3, andb_true_r, andb_true_r. apply forallb_forall. intros nc Hin. exact (proj1 (Hall nc Hin)).
Qed.
Lemma scope2t_nc cf j nc : scope2t cf = true -> nthZ (cf_nodes cf) (j - 1) = Some nc -> scope_nc_t nc = true.
Proof.
  unfold scope2t. intros H Hn. apply andb_true_iff in H as [H _]. apply andb_true_iff in H as [H _].
  rewrite forallb_forall in H. apply H. eapply nthZ_In; eauto.
Qed.

(* ====================================================================================================================
   2. A view for the slot invariant (queues and interrupted lists; server mark, service dates, node of a customer) and the
      invariant.  SlotIntX cf ex s exempts customer ex (in the middle of slotted_service: the customer whose service is being
      interrupted is on the list before its dates are cleared; the waiting customer being started has a start date before it
      gets the server mark).
   ==================================================================================================================== *)
Definition fnT (nd : node) := (n_queues nd, n_interrupted nd).
Definition fiT (x : ind) := (i_server x, i_sst x, i_send x, i_node x).
Definition fgT (s : sim) := tt.
Notation keepT := (keepV fnT fiT fgT).
Notation VT := (VW fnT fiT fgT).

Lemma VT_node s s' k nd' : VT s' = VT s -> nodeZ s' k = Some nd' ->
  exists nd, nodeZ s k = Some nd /\ n_id nd' = n_id nd /\ n_queues nd' = n_queues nd /\ n_interrupted nd' = n_interrupted nd.
Proof.
  intros E Hn. pose proof (VW_node fnT fiT fgT s s' k E) as Hv. rewrite Hn in Hv. destruct (nodeZ s k) as [nd|]; [|discriminate].
  cbn in Hv. unfold nv, fnT in Hv. injection Hv as E1 E2 E3. exists nd. auto.
Qed.
Lemma VT_find s s' i x' : VT s' = VT s -> find_ind i (inds s') = Some x' ->
  exists x, find_ind i (inds s) = Some x /\ i_server x' = i_server x /\ i_sst x' = i_sst x /\ i_send x' = i_send x /\ i_node x' = i_node x.
Proof.
  intros E Hf. pose proof (VW_ind fnT fiT fgT s s' i E) as Hv. rewrite Hf in Hv. destruct (find_ind i (inds s)) as [x|]; [|discriminate].
  cbn in Hv. unfold fiT in Hv. injection Hv as E1 E2 E3 E4. exists x. auto.
Qed.
Lemma Idx_VT s s' : VT s' = VT s -> Idx s -> Idx s'.
Proof. intros E HI k nd' Hn. destruct (VT_node _ _ _ _ E Hn) as (nd & Hn0 & Eid & _). rewrite Eid. exact (HI k nd Hn0). Qed.
Lemma keepT_VT {X} (m : M X) s a s' : keepT KT m -> Idx s -> m s = Ok (a, s') -> VT s' = VT s.
Proof. intros Hm HI H. apply (Hm s a s'); [apply Idx_vidx; exact HI|exact I|exact H]. Qed.

Definition Listed (cf : config) (s : sim) (i : Z) : Prop :=
  exists j nd, nodeZ s j = Some nd /\ slot_of cf j = true /\ In i (n_interrupted nd).

Record SlotIntX (cf : config) (ex : option Z) (s : sim) : Prop := mkSI {
  sx_nd : forall j nd, nodeZ s j = Some nd -> slot_of cf j = true -> NoDup (n_interrupted nd);
  sx_mem : forall j nd i, nodeZ s j = Some nd -> slot_of cf j = true -> In i (n_interrupted nd) ->
     exists x, find_ind i (inds s) = Some x /\ i_node x = Some j /\ i_server x <> None /\
               (ex <> Some i -> i_sst x = None /\ i_send x = None);
  sx_mark : forall i x j, find_ind i (inds s) = Some x -> i_node x = Some j -> slot_of cf j = true -> ex <> Some i ->
     i_sst x <> None -> i_server x <> None
}.
Notation SlotInt cf s := (SlotIntX cf None s).

Lemma SlotIntX_VT cf ex s s' : VT s' = VT s -> SlotIntX cf ex s -> SlotIntX cf ex s'.
Proof.
  intros E [A B C]. assert (E' : VT s = VT s') by auto. constructor.
  - intros j nd' Hn Hs. destruct (VT_node _ _ _ _ E Hn) as (nd & Hn0 & _ & _ & Ei). rewrite Ei. exact (A j nd Hn0 Hs).
  - intros j nd' i Hn Hs Hin. destruct (VT_node _ _ _ _ E Hn) as (nd & Hn0 & _ & _ & Ei). rewrite Ei in Hin.
    destruct (B j nd i Hn0 Hs Hin) as (x & Hx & P1 & P2 & P3).
    destruct (VT_find _ _ i x E' Hx) as (x' & Hx' & Q1 & Q2 & Q3 & Q4). exists x'. split; [exact Hx'|].
    split; [congruence|]. split; [congruence|]. intros Hex. destruct (P3 Hex). split; congruence.
  - intros i x' j Hf Hnode Hs Hex Hsst. destruct (VT_find _ _ i x' E Hf) as (x & Hx & Q1 & Q2 & Q3 & Q4).
    rewrite Q1. apply (C i x j Hx); [congruence|exact Hs|exact Hex|congruence].
Qed.
Lemma SlotIntX_keep cf ex {X} (m : M X) s a s' : keepT KT m -> Idx s -> SlotIntX cf ex s -> m s = Ok (a, s') ->
  SlotIntX cf ex s' /\ VT s' = VT s /\ Idx s'.
Proof.
  intros Hm HI HS H. pose proof (keepT_VT m s a s' Hm HI H) as E.
  split; [eapply SlotIntX_VT; eauto|]. split; [exact E|eapply Idx_VT; eauto].
Qed.
Lemma Listed_VT cf s s' i : VT s' = VT s -> Listed cf s' i -> Listed cf s i.
Proof. intros E (j & nd' & Hn & Hs & Hin). destruct (VT_node _ _ _ _ E Hn) as (nd & Hn0 & _ & _ & Ei). exists j, nd. rewrite <- Ei. auto. Qed.

(* the record of customer i is replaced *)
Lemma SlotIntX_put_ind cf ex ex' s s' i x x' : SlotIntX cf ex s -> find_ind i (inds s) = Some x -> i_id x' = i ->
  inds s' = put_ind_l x' (inds s) -> nodes s' = nodes s -> i_node x' = i_node x -> (i_server x <> None -> i_server x' <> None) ->
  (forall y, y <> i -> ex' <> Some y -> ex <> Some y) ->
  (ex' <> Some i -> Listed cf s i -> i_sst x' = None /\ i_send x' = None) ->
  (ex' <> Some i -> forall j, i_node x' = Some j -> slot_of cf j = true -> i_sst x' <> None -> i_server x' <> None) ->
  SlotIntX cf ex' s'.
Proof.
  intros [A B C] Hf Hid Ei En Hnode Hsrv Hex Hlist Hmark.
  assert (HZ : forall k, nodeZ s' k = nodeZ s k) by (intros k; apply nodeZ_same; exact En).
  assert (Hsame : find_ind i (inds s') = Some x') by (rewrite Ei, <- Hid; apply find_put_same).
  assert (Hoth : forall y, y <> i -> find_ind y (inds s') = find_ind y (inds s)) by (intros y Hy; rewrite Ei; apply find_put_other; congruence).
  constructor.
  - intros j nd Hn Hs. rewrite HZ in Hn. exact (A j nd Hn Hs).
  - intros j nd y Hn Hs Hin. rewrite HZ in Hn. destruct (B j nd y Hn Hs Hin) as (z & Hz & P1 & P2 & P3).
    destruct (Z.eq_dec y i) as [->|Hne].
    + assert (z = x) by congruence. subst z. exists x'. split; [exact Hsame|]. split; [congruence|]. split; [auto|].
      intros He. apply (Hlist He). exists j, nd. auto.
    + exists z. rewrite (Hoth y Hne). split; [exact Hz|]. split; [exact P1|]. split; [exact P2|]. intros He. exact (P3 (Hex y Hne He)).
  - intros y z j Hy Hnode' Hs He Hsst. destruct (Z.eq_dec y i) as [->|Hne].
    + assert (z = x') by congruence. subst z. exact (Hmark He j Hnode' Hs Hsst).
    + rewrite (Hoth y Hne) in Hy. exact (C y z j Hy Hnode' Hs (Hex y Hne He) Hsst).
Qed.

(* node j is replaced; its interrupted list may change *)
Lemma SlotIntX_put_node cf ex s s' j nd nd' : SlotIntX cf ex s -> Idx s -> nodeZ s j = Some nd -> n_id nd' = j ->
  nodes s' = updZ (nodes s) (n_id nd' - 1) nd' -> inds s' = inds s ->
  (slot_of cf j = true -> NoDup (n_interrupted nd') /\
     forall i, In i (n_interrupted nd') -> In i (n_interrupted nd) \/
        exists x, find_ind i (inds s) = Some x /\ i_node x = Some j /\ i_server x <> None /\ (ex <> Some i -> i_sst x = None /\ i_send x = None)) ->
  SlotIntX cf ex s'.
Proof.
  intros [A B C] HI Hn Hid En Ei Hnew.
  assert (HZ : forall k, nodeZ s' k = if k =? j then Some nd' else nodeZ s k).
  { intros k. rewrite <- Hid. apply (nodeZ_upd s s' nd' nd k En). rewrite Hid. exact Hn. }
  constructor.
  - intros k n Hk Hs. rewrite HZ in Hk. destruct (Z.eqb_spec k j) as [->|Hne]; [injection Hk as <-; exact (proj1 (Hnew Hs))|exact (A k n Hk Hs)].
  - intros k n i Hk Hs Hin. rewrite HZ in Hk. rewrite Ei. destruct (Z.eqb_spec k j) as [->|Hne]; [|exact (B k n i Hk Hs Hin)].
    injection Hk as <-. destruct (proj2 (Hnew Hs) i Hin) as [Hold|Hx]; [exact (B j nd i Hn Hs Hold)|exact Hx].
  - intros i x k Hf. rewrite Ei in Hf. exact (C i x k Hf).
Qed.

(* ====================================================================================================================
   3. interrupt_service at a slotted node: the victim (a customer of the node with a service start date) joins the list and
      loses its dates; nobody else's record changes in what the invariant looks at
   ==================================================================================================================== *)
Ltac tstep H a s1 E :=
  match type of H with
  | bind ?m ?f ?s = Ok _ =>
    unfold bind in H at 1; destruct (m s) as [[a s1]| |] eqn:E; [|discriminate H|discriminate H];
    try (match type of a with unit => destruct a end)
  end.

Lemma upd_node_spec j g s u s' : upd_node j g s = Ok (u, s') ->
  exists nd, nodeZ s j = Some nd /\ nodes s' = updZ (nodes s) (n_id (g nd) - 1) (g nd) /\ inds s' = inds s.
Proof.
  unfold upd_node. intros H. mstep H as nd. exists nd. split; [exact Hn|]. unfold put_node in H. apply modify_spec in H. subst s'. split; reflexivity.
Qed.
Lemma NoDup_snoc {A} (l : list A) a : NoDup l -> ~ In a l -> NoDup (l ++ [a]).
Proof. intros Hl Ha. apply (Permutation_NoDup (l := a :: l)); [apply Permutation_cons_append|constructor; assumption]. Qed.
Lemma SlotIntX_weaken cf ex s : SlotInt cf s -> SlotIntX cf ex s.
Proof.
  intros [A B C]. constructor; [exact A| |].
  - intros j nd i Hn Hs Hin. destruct (B j nd i Hn Hs Hin) as (x & Hx & P1 & P2 & P3). exists x. split; [exact Hx|]. split; [exact P1|]. split; [exact P2|].
    intros _. apply P3. discriminate.
  - intros i x j Hf Hnode Hs _. apply (C i x j Hf Hnode Hs). discriminate.
Qed.

Definition SameT (i : Z) (s s' : sim) : Prop :=
  forall y, y <> i -> option_map fiT (find_ind y (inds s')) = option_map fiT (find_ind y (inds s)).
Lemma SameT_VT i s s' : VT s' = VT s -> SameT i s s'.
Proof. intros E y _. exact (VW_ind fnT fiT fgT s s' y E). Qed.
Lemma SameT_inds i s s' : inds s' = inds s -> SameT i s s'.
Proof. intros E y _. rewrite E. reflexivity. Qed.
Lemma SameT_put i s s' x' : inds s' = put_ind_l x' (inds s) -> i_id x' = i -> SameT i s s'.
Proof. intros E Hid y Hy. rewrite E, find_put_other by congruence. reflexivity. Qed.
Lemma SameT_trans i s1 s2 s3 : SameT i s1 s2 -> SameT i s2 s3 -> SameT i s1 s3.
Proof. intros H1 H2 y Hy. rewrite (H2 y Hy). exact (H1 y Hy). Qed.
Lemma SameT_refl i s : SameT i s s.
Proof. intros y _. reflexivity. Qed.

(* a customer recorded in node j with a service start date *)
Definition Started (s : sim) (j y : Z) : Prop := exists z, find_ind y (inds s) = Some z /\ i_node z = Some j /\ i_sst z <> None.
Lemma Started_SameT i s s' j y : SameT i s s' -> y <> i -> Started s j y -> Started s' j y.
Proof.
  intros HT Hy (z & Hz & P1 & P2). pose proof (HT y Hy) as E. rewrite Hz in E. destruct (find_ind y (inds s')) as [z'|] eqn:Ez; [|discriminate].
  cbn in E. unfold fiT in E. injection E as E1 E2 E3 E4. exists z'. split; [exact Ez|]. split; congruence.
Qed.

Ltac tkeep HI HS E HS' ET' HI' :=
  match type of E with
  | ?m ?s0 = Ok (?a, ?s1) =>
    let Hm := fresh "Hm" in
    assert (Hm : keepT KT m) by kv0;
    destruct (SlotIntX_keep _ _ m s0 a s1 Hm HI HS E) as (HS' & ET' & HI'); clear Hm
  end.

Section SlotWalk.
  Variable cf : config.

  Lemma kt_wint j i d : keepT KT (write_interruption_record cf j i d).
  Proof. unfold write_interruption_record, log_rec, bump_rec, ncfg_of, tnow. kv0. Qed.

  Lemma interrupt_service_SI fuel j i pre s s' : (pre =? 4) = false -> slot_of cf j = true -> Idx s -> SlotInt cf s -> Started s j i ->
    interrupt_service cf fuel j i pre s = Ok (tt, s') ->
    SlotInt cf s' /\ Idx s' /\ SameT i s s'.
  Proof.
    intros Hpre Hsl HI HS (x & Hf & Hnode & Hsst) H. unfold interrupt_service in H. rewrite Hpre in H.
    tstep H t0 s0 E0. apply gets_spec in E0 as [-> ->].
    tstep H u0 sa Ea.
    tkeep HI HS Ea HSa ETa HIa. clear Ea.
    destruct (VT_find sa s i x ltac:(symmetry; exact ETa) Hf) as (xa & Hxa & Qa1 & Qa2 & Qa3 & Qa4).
    assert (Hsrv : i_server xa <> None) by (apply (sx_mark _ _ _ HSa i xa j Hxa); [congruence|exact Hsl|discriminate|congruence]).
    tstep H u1 sb Eb. destruct (upd_node_spec _ _ _ _ _ Eb) as (nd & Hn & Enb & Eib). clear Eb.
    match type of Enb with nodes _ = updZ _ _ ?n => set (nd1 := n) in * end.
    assert (Hid1 : n_id nd1 = j) by exact (HIa _ _ Hn).
    assert (HIb : Idx sb).
    { intros k n Hk. pose proof (HIa _ _ Hn) as Hid.
      rewrite (nodeZ_upd sa sb nd1 nd k Enb ltac:(rewrite Hid1; exact Hn)) in Hk. rewrite Hid1 in Hk.
      destruct (Z.eqb_spec k j) as [->|Hne]; [injection Hk as <-; exact Hid1|exact (HIa _ _ Hk)]. }
    assert (HSb : SlotIntX cf (Some i) sb).
    { apply (SlotIntX_put_node cf (Some i) sa sb j nd nd1 (SlotIntX_weaken cf (Some i) sa HSa) HIa Hn Hid1 Enb Eib).
      intros _. change (n_interrupted nd1) with (n_interrupted nd ++ [i]). split.
      - apply NoDup_snoc; [exact (sx_nd _ _ _ HSa j nd Hn Hsl)|]. intros Hin.
        destruct (sx_mem _ _ _ HSa j nd i Hn Hsl Hin) as (z & Hz & _ & _ & P3). assert (z = xa) by congruence. subst z.
        destruct (P3 ltac:(discriminate)) as [P _]. congruence.
      - intros y Hy. apply in_app_or in Hy as [Hy|[<-|[]]]; [left; exact Hy|right]. exists xa. split; [exact Hxa|]. split; [congruence|]. split; [exact Hsrv|].
        intros Hne. exfalso. apply Hne. reflexivity. }
    tstep H u2 sc Ec.
    tkeep HIb HSb Ec HSc ETc HIc. clear Ec.
    tstep H u3 sd Ed.
    destruct (SlotIntX_keep cf (Some i) _ sc tt sd (kt_wint j i None) HIc HSc Ed) as (HSd & ETd & HId). clear Ed.
    tstep H u4 se Ee. destruct (upd_ind_spec _ _ _ _ _ Ee) as (xd & Hxd & Eie & Ene). clear Ee.
    match type of Eie with inds _ = put_ind_l ?x' _ => set (xe := x') in * end.
    assert (Hide : i_id xe = i) by exact (find_ind_id _ _ _ Hxd).
    assert (HSe : SlotInt cf se).
    { apply (SlotIntX_put_ind cf (Some i) None sd se i xd xe HSd Hxd Hide Eie Ene); cbn.
      - reflexivity.
      - auto.
      - intros y Hy _. congruence.
      - intros _ _. auto.
      - intros _ k _ _ Hx. exfalso. apply Hx. reflexivity. }
    assert (HIe : Idx se) by (intros k n Hk; rewrite (nodeZ_same sd se k Ene) in Hk; exact (HId _ _ Hk)).
    tkeep HIe HSe H HS' ET' HI'.
    split; [exact HS'|]. split; [exact HI'|].
    apply (SameT_trans i s sa s' (SameT_VT i s sa ETa)). apply (SameT_trans i sa sb s' (SameT_inds i sa sb Eib)).
    apply (SameT_trans i sb sc s' (SameT_VT i sb sc ETc)). apply (SameT_trans i sc sd s' (SameT_VT i sc sd ETd)).
    apply (SameT_trans i sd se s'); [|exact (SameT_VT i se s' ET')].
    exact (SameT_put i sd se xe Eie Hide).
  Qed.

  Lemma forM_interrupt_SI fuel j pre : (pre =? 4) = false -> slot_of cf j = true -> forall l s s', Idx s -> SlotInt cf s -> NoDup l ->
    (forall i, In i l -> Started s j i) ->
    forM_ l (fun i => interrupt_service cf fuel j i pre) s = Ok (tt, s') -> SlotInt cf s' /\ Idx s'.
  Proof.
    intros Hpre Hsl. induction l as [|i r IH]; intros s s' HI HS Hnd Hl H; cbn [forM_] in H; [apply ret_spec in H as [_ ->]; auto|].
    tstep H u0 sa Ea. inversion Hnd as [|? ? Hni Hndr]. subst.
    destruct (interrupt_service_SI fuel j i pre s sa Hpre Hsl HI HS (Hl i (or_introl eq_refl)) Ea) as (HSa & HIa & HT).
    apply (IH sa s' HIa HSa Hndr); [|exact H]. intros y Hy. apply (Started_SameT i s sa j y HT); [intros ->; exact (Hni Hy)|].
    apply Hl. right. exact Hy.
  Qed.

  (* ---- slot_loop: the head of the list (or a waiting customer) is started ---- *)
  Lemma Listed_nodes s s' i : nodes s' = nodes s -> Listed cf s' i -> Listed cf s i.
  Proof. intros En (j & nd & Hn & Hs & Hin). rewrite (nodeZ_same s s' j En) in Hn. exists j, nd. auto. Qed.
  Lemma Idx_nodes s s' : nodes s' = nodes s -> Idx s -> Idx s'.
  Proof. intros En HI k n Hk. rewrite (nodeZ_same s s' k En) in Hk. exact (HI _ _ Hk). Qed.

  Lemma kt_give i : keepT KT (give_individual_a_service_time i).
  Proof. unfold give_individual_a_service_time, give_service_time_after_preemption. kv0. Qed.
  Lemma kt_reset j i : keepT KT (reset_class_change cf j i).
  Proof. unfold reset_class_change, find_next_class_change. kv0. Qed.

  Definition slot_start (j c t : Z) : M unit :=
    upd_ind c (fun x => x <| i_sst := Some t |>) ;;;
    give_individual_a_service_time c ;;;
    x <- get_ind c ;; st <- stime_num x ;;
    put_ind (x <| i_send := Some (t + st) |> <| i_server := Some (-1) |>) ;;;
    upd_node j (fun n' => n' <| n_insvc := n_insvc n' + 1 |>) ;;;
    reset_class_change cf j c.

  Lemma slot_start_SI j c t s s' : Idx s -> SlotInt cf s -> ~ Listed cf s c -> slot_start j c t s = Ok (tt, s') -> SlotInt cf s' /\ Idx s'.
  Proof.
    intros HI HS Hnl H. unfold slot_start in H.
    tstep H u0 sa Ea. destruct (upd_ind_spec _ _ _ _ _ Ea) as (x0 & Hx0 & Eia & Ena). clear Ea.
    match type of Eia with inds _ = put_ind_l ?x' _ => set (xa := x') in * end.
    assert (Hida : i_id xa = c) by exact (find_ind_id _ _ _ Hx0).
    assert (HSa : SlotIntX cf (Some c) sa).
    { apply (SlotIntX_put_ind cf None (Some c) s sa c x0 xa HS Hx0 Hida Eia Ena); cbn.
      - reflexivity.
      - auto.
      - intros y _ _. discriminate.
      - intros Hne. exfalso. apply Hne. reflexivity.
      - intros Hne. exfalso. apply Hne. reflexivity. }
    pose proof (Idx_nodes s sa Ena HI) as HIa.
    assert (Hnla : ~ Listed cf sa c) by (intros HL; exact (Hnl (Listed_nodes s sa c Ena HL))).
    tstep H u1 sb Eb.
    destruct (SlotIntX_keep cf (Some c) _ sa tt sb (kt_give c) HIa HSa Eb) as (HSb & ETb & HIb). clear Eb.
    assert (Hnlb : ~ Listed cf sb c) by (intros HL; exact (Hnla (Listed_VT cf sa sb c ETb HL))).
    tstep H x sb' Ex. apply get_ind_spec in Ex as [-> Hx].
    tstep H st sb' Est. assert (sb' = sb) by (unfold stime_num in Est; destruct (i_smark x =? 0); [apply ret_spec in Est as [_ ->]; reflexivity|discriminate Est]). subst sb'. clear Est.
    tstep H u2 sc Ec. destruct (put_ind_facts _ _ _ _ Ec) as (Eic & Enc & _). clear Ec.
    match type of Eic with inds _ = put_ind_l ?x' _ => set (xc := x') in * end.
    assert (Hidc : i_id xc = c) by exact (find_ind_id _ _ _ Hx).
    assert (HSc : SlotInt cf sc).
    { apply (SlotIntX_put_ind cf (Some c) None sb sc c x xc HSb Hx Hidc Eic Enc); cbn.
      - reflexivity.
      - intros _. discriminate.
      - intros y Hy _. congruence.
      - intros _ HL. exfalso. exact (Hnlb HL).
      - intros _ k _ _ _. discriminate. }
    pose proof (Idx_nodes sb sc Enc HIb) as HIc.
    tstep H u3 sd Ed. tkeep HIc HSc Ed HSd ETd HId. clear Ed.
    destruct (SlotIntX_keep cf None _ sd tt s' (kt_reset j c) HId HSd H) as (HS' & _ & HI'). auto.
  Qed.

  Lemma slot_loop_SI j : slot_of cf j = true -> forall k s s', Idx s -> SlotInt cf s -> slot_loop cf k j s = Ok (tt, s') -> SlotInt cf s' /\ Idx s'.
  Proof.
    intros Hsl. induction k as [|k IH]; intros s s' HI HS H; cbn [slot_loop] in H; [apply ret_spec in H as [_ ->]; auto|].
    tstep H t0 s0 E0. apply gets_spec in E0 as [-> ->].
    tstep H nd s0 E0. apply get_node_spec in E0 as [-> Hn].
    tstep H cand s1 Ec.
    assert (Hmid : SlotInt cf s1 /\ Idx s1 /\ (forall c, cand = Some c -> ~ Listed cf s1 c)).
    { destruct (0 <? n_nint nd).
      - tstep Ec i sq1 Ei. apply lift_spec in Ei as [-> Hhd].
        tstep Ec l' sq2 El. apply lift_spec in El as [-> Hrm].
        destruct (Journey2s.remove_first_nodup i _ l' Hrm (sx_nd _ _ _ HS j nd Hn Hsl)) as (ND' & Hni & Hsub & Hin).
        tstep Ec u0 sa Ea. destruct (put_node_facts _ _ _ _ Ea) as (Esa & Eia & _). clear Ea.
        match type of Esa with _ = _ <| nodes := updZ _ _ ?n |> => set (nd1 := n) in * end.
        assert (Hid1 : n_id nd1 = j) by exact (HI _ _ Hn).
        assert (Ena : nodes sa = updZ (nodes s) (n_id nd1 - 1) nd1) by (rewrite Esa; reflexivity).
        assert (HSa : SlotInt cf sa).
        { apply (SlotIntX_put_node cf None s sa j nd nd1 HS HI Hn Hid1 Ena Eia). intros _. change (n_interrupted nd1) with l'.
          split; [exact ND'|]. intros y Hy. left. exact (Hsub y Hy). }
        assert (HZa : nodeZ sa j = Some nd1).
        { rewrite <- Hid1 at 1. rewrite (nodeZ_upd s sa nd1 nd (n_id nd1) Ena ltac:(rewrite Hid1; exact Hn)), Z.eqb_refl. reflexivity. }
        assert (HIa : Idx sa).
        { intros k0 n Hk. rewrite (nodeZ_upd s sa nd1 nd k0 Ena ltac:(rewrite Hid1; exact Hn)) in Hk. rewrite Hid1 in Hk.
          destruct (Z.eqb_spec k0 j) as [->|Hne]; [injection Hk as <-; exact Hid1|exact (HI _ _ Hk)]. }
        destruct (sx_mem _ _ _ HS j nd i Hn Hsl Hin) as (xi & Hxi & Pn & _).
        tstep Ec u1 sb Eb. tkeep HIa HSa Eb HSb ETb HIb. clear Eb.
        apply ret_spec in Ec as [-> ->]. split; [exact HSb|]. split; [exact HIb|]. intros c Hc. injection Hc as <-.
        intros HL. apply (Listed_VT cf sa sb i ETb) in HL. destruct HL as (k0 & n & Hk & Hsk & Hik).
        destruct (sx_mem _ _ _ HSa k0 n i Hk Hsk Hik) as (z & Hz & Pz & _). rewrite Eia in Hz. assert (z = xi) by congruence. subst z.
        assert (k0 = j) by congruence. subst k0. assert (n = nd1) by congruence. subst n. exact (Hni Hik).
      - destruct cand as [c|].
        + destruct (cnc_spec cf j c s s1 Ec) as (_ & (xc & Hxc & Hsv) & En1 & Ei1).
          assert (E1 : VT s1 = VT s) by (unfold VW; rewrite En1, Ei1; reflexivity).
          split; [exact (SlotIntX_VT cf None s s1 E1 HS)|]. split; [exact (Idx_nodes s s1 En1 HI)|]. intros c0 Hc0. injection Hc0 as <-.
          intros HL. apply (Listed_nodes s s1 c En1) in HL. destruct HL as (k0 & n & Hk & Hsk & Hik).
          destruct (sx_mem _ _ _ HS k0 n c Hk Hsk Hik) as (z & Hz & _ & Pz & _). congruence.
        + assert (Hk : keepT KT (choose_next_customer cf j)) by (unfold choose_next_customer, choice_uniform, ncfg_of; kv0).
          destruct (SlotIntX_keep cf None _ s None s1 Hk HI HS Ec) as (A & _ & B). split; [exact A|]. split; [exact B|]. intros c Hc. discriminate Hc. }
    destruct Hmid as (HS1 & HI1 & Hnl). clear Ec.
    tstep H u2 s2 E2.
    assert (H2 : SlotInt cf s2 /\ Idx s2).
    { destruct cand as [c|]; [|apply ret_spec in E2 as [_ ->]; auto].
      exact (slot_start_SI j c (now s) s1 s2 HI1 HS1 (Hnl c eq_refl) E2). }
    destruct H2 as (HS2 & HI2). exact (IH s2 s' HI2 HS2 H).
  Qed.
End SlotWalk.

(* ====================================================================================================================
   4. slotted_service, function level: the victims are distinct customers of the node with a service start date
   ==================================================================================================================== *)
Lemma NoDup_app_l {A} (a b : list A) : NoDup (a ++ b) -> NoDup a.
Proof.
  induction a as [|x a IH]; cbn; [constructor|]. intros H. inversion H as [|? ? Hn Hd]. constructor; [|exact (IH Hd)].
  intros Hin. apply Hn. apply in_or_app. left. exact Hin.
Qed.
Lemma NoDup_concat_in {A} (L : list (list A)) l : NoDup (concat L) -> In l L -> NoDup l.
Proof.
  induction L as [|a L IH]; cbn; [intros _ []|]. intros H [->|Hin]; [exact (NoDup_app_l _ _ H)|exact (IH (NoDup_app_r _ _ H) Hin)].
Qed.
Lemma NoDup_firstn_t {A} : forall n (l : list A), NoDup l -> NoDup (firstn n l).
Proof.
  induction n as [|n IH]; intros l H; [constructor|]. destruct l as [|a l]; [constructor|]. cbn [firstn]. inversion H as [|? ? Hn Hd].
  constructor; [|exact (IH l Hd)]. intros Hin. apply Hn. exact (Journey2r.firstn_in n l a Hin).
Qed.
Lemma ins_key_desc_perm k i l : Permutation (map snd (ins_key_desc k i l)) (i :: map snd l).
Proof.
  induction l as [|[k' i'] r IH]; cbn [ins_key_desc]; [reflexivity|]. destruct (key_ge k' k); [|reflexivity].
  cbn [map snd]. rewrite IH. apply perm_swap.
Qed.
Lemma sort_by_key_desc_perm l : Permutation (sort_by_key_desc l) (map snd l).
Proof.
  unfold sort_by_key_desc.
  assert (G : forall acc, Permutation (map snd (fold_left (fun a p => ins_key_desc (fst p) (snd p) a) l acc)) (map snd acc ++ map snd l)).
  { induction l as [|p r IH]; intros acc; cbn [fold_left map]; [rewrite app_nil_r; reflexivity|].
    rewrite IH, ins_key_desc_perm. cbn. apply Permutation_middle. }
  exact (G []).
Qed.
Lemma WFx2_node_nodup fl s j nd : Conserve2.WFx2 fl s -> nodeZ s j = Some nd -> NoDup (all_individuals nd).
Proof.
  intros HW Hn. pose proof (NoDup_app_l _ _ (WFx2_nodup _ _ HW)) as HQ. unfold Conserve2.qids, Conserve2.shp in HQ. cbn in HQ. rewrite map_map in HQ.
  apply (NoDup_concat_in _ _ HQ). apply in_map_iff. exists nd. split; [reflexivity|]. eapply nthZ_In; exact Hn.
Qed.

Section SlotEvent.
  Variable cf : config.

  Lemma slotted_service_SI j s s' :
    (forall nc sl, nthZ (cf_nodes cf) (j - 1) = Some nc -> nc_srv nc = SSlot sl -> (sl_pre sl =? 4) = false) ->
    Conserve2.WFx2 [] s -> NodeOK s -> SlotInt cf s -> slotted_service cf j s = Ok (tt, s') -> SlotInt cf s' /\ Idx s'.
  Proof.
    intros Hp4 HW HNO HS H. pose proof (WFx2_Idx _ _ HW) as HI.
    unfold slotted_service in H. tstep H nc s0 E0. apply ncfg_of_spec in E0 as [-> Hc].
    destruct (nc_srv nc) as [|sc|sl] eqn:Esrv; try discriminate H. pose proof (Hp4 nc sl Hc Esrv) as Hpre.
    assert (Hsl : slot_of cf j = true) by (unfold slot_of, nc_slotted; rewrite Hc, Esrv; reflexivity).
    tstep H nd s0 E0. apply get_node_spec in E0 as [-> Hn].
    tstep H u0 s0 E0.
    assert (s0 = s) by (destruct (sl_b sl); [discriminate E0|apply ret_spec in E0 as [_ ->]; reflexivity]). subst s0. clear E0.
    tstep H u1 sa Ea.
    assert (Ha : SlotInt cf sa /\ Idx sa).
    { destruct (sl_cap sl && negb (sl_pre sl =? 0)); [|apply ret_spec in Ea as [_ ->]; auto].
      destruct (0 <? n_insvc nd - fst (slot_values sl (Z.to_nat (n_spos nd)))); [|apply ret_spec in Ea as [_ ->]; auto].
      tstep Ea il s0 E0. apply gets_spec in E0 as [-> ->].
      tstep Ea kl s0 E0. apply Journey2r.keyed_spec in E0 as [-> Hkl].
      tstep Ea fl s0 E0. apply gets_spec in E0 as [-> ->].
      match type of Hkl with map snd kl = ?l => set (started := l) in * end.
      match type of Ea with forM_ ?l _ _ = _ => apply (forM_interrupt_SI cf (fuel_of s) j (sl_pre sl) Hpre Hsl l s sa HI HS) end; [| |exact Ea].
      - apply NoDup_firstn_t. apply (Permutation_NoDup (l := map snd kl)); [symmetry; apply sort_by_key_desc_perm|].
        rewrite Hkl. apply NoDup_filter. exact (WFx2_node_nodup _ _ _ _ HW Hn).
      - intros i Hi. apply Journey2r.firstn_in in Hi. apply Journey2r.sort_by_key_desc_in in Hi. rewrite Hkl in Hi. apply filter_In in Hi as [Hi Hst].
        destruct (HNO j i (ex_intro _ nd (conj Hn Hi))) as (x & Hx & Hnode). rewrite Hx in Hst. exists x. split; [exact Hx|]. split; [exact Hnode|].
        destruct (i_sst x); [discriminate|discriminate Hst]. }
    destruct Ha as (HSa & HIa). clear Ea.
    tstep H u2 sb Eb. destruct (slot_loop_SI cf j Hsl _ sa sb HIa HSa Eb) as (HSb & HIb). clear Eb.
    tkeep HIb HSb H HS' ET' HI'. auto.
  Qed.
End SlotEvent.

(* Renege2.v -- T2 for C13 (reneging and baulking) on the STAGE-2 engine model (Engine2 / State2 / Codec2).
   Part 1  baulking (every configuration, no invariant needed): release_individual_spec -- a customer facing a baulking table
           baulks iff 4*u < p4 * 2^53 (u the uniform draw, p4 the table value in quarters for the population it sees), hence never
           for p = 0 (u >= 0) and always for p = 1 (u < 2^53); a customer that is turned away gets one record and goes straight to
           the exit, no node changes.
   Part 2  reneging, function level (every configuration): accept_stamps -- Node.accept writes arrival date = now and reneging
           date = now + the next patience draw (or "never", or nothing at a node without reneging); next_renege_selected /
           event_step_candidates -- after any event, a node whose next event is a renege has as date the minimum reneging date
           of its customers WITHOUT server and as candidates exactly those who attain it, and when that node acts next the clock
           stands at that date; renege_spec -- what the renege event does with the selected customer (queue, record of type 2
           with exit date = now, reset, jockeying destination or exit, release of a blocked customer).
   Part 3  reneging over runs, scope nopre cf = true (no priority pre-emption, no pre-emptive schedule, no pre-emptive capacitated
           slot), patience draws >= 0: the invariant RenInv (executable: RenInv_b, RenInv_b_sound) is kept by every event and any
           run (event_step_RenInvF, run_many_RenInvF); it says (RenInv_means) that every customer is in the queue of its node and
           that at a finite node with reneging nobody without a server has a reneging date in the past; no renege is ever
           scheduled in the past; and (stamp_is_kept) the arrival date and reneging date of a customer do not change as long as
           no record is written for it, so the date at which it reneges is the one stamped at its arrival.
           Outside the scope the second claim is false: no_past_renege_refuted (finding F-02c). *)
From Coq Require Import ZArith List Bool Lia Permutation.
From RecordUpdate Require Import RecordUpdate.
From CiwV Require Import Sx Prelude Routing Sched.
From CiwV.Engine Require Import State2 Engine2 Codec2.
Import ListNotations.
Open Scope Z_scope.

Local Arguments Z.mul : simpl never.
Local Arguments Z.add : simpl never.
Local Arguments Z.sub : simpl never.
Local Arguments Z.ltb : simpl never.
Local Arguments Z.leb : simpl never.
Local Arguments Z.eqb : simpl never.
Local Arguments Z.to_nat : simpl never.
Local Arguments Z.of_nat : simpl never.
Local Arguments Z.min : simpl never.
Local Arguments Z.max : simpl never.
Local Arguments nth_error : simpl never.

(* ================================================================================================================ *)
(* Part 0: small facts about the state monad and the access functions                                               *)
(* ================================================================================================================ *)

(* invert one bind, with names chosen by the caller *)
Ltac minv H a s1 E :=
  match type of H with
  | bind ?m ?f ?s = Ok _ => unfold bind in H at 1; destruct (m s) as [[a s1]| |] eqn:E; [|discriminate H|discriminate H]
  end.

Lemma ret_inv {A} (a b : A) s s' : ret a s = Ok (b, s') -> b = a /\ s' = s.
Proof. unfold ret. intros H. injection H as <- <-. auto. Qed.
Lemma gets_inv {A} (f : sim -> A) b s s' : gets f s = Ok (b, s') -> b = f s /\ s' = s.
Proof. unfold gets. intros H. injection H as <- <-. auto. Qed.
Lemma tnow_inv b s s' : tnow s = Ok (b, s') -> b = now s /\ s' = s.
Proof. apply gets_inv. Qed.
Lemma modify_inv f u s s' : modify f s = Ok (u, s') -> s' = f s.
Proof. unfold modify. intros H. injection H as <- <-. auto. Qed.
Lemma lift_inv {A} e (o : option A) a s s' : lift e o s = Ok (a, s') -> o = Some a /\ s' = s.
Proof. destruct o as [x|]; cbn; unfold ret, fail; intros H; [injection H as <- <-; auto|discriminate]. Qed.
Lemma get_node_inv j nd s s' : get_node j s = Ok (nd, s') -> s' = s /\ 1 <= j /\ nthZ (nodes s) (j - 1) = Some nd.
Proof.
  unfold get_node. destruct (j <? 1) eqn:E; [discriminate|]. apply Z.ltb_ge in E.
  destruct (nthZ (nodes s) (j - 1)) as [x|]; [|discriminate]. intros H. injection H as <- <-. auto.
Qed.
Lemma get_ind_inv i x s s' : get_ind i s = Ok (x, s') -> s' = s /\ find_ind i (inds s) = Some x.
Proof. unfold get_ind. destruct (find_ind i (inds s)) as [y|]; [|discriminate]. intros H. injection H as <- <-. auto. Qed.
Lemma ncfg_of_inv cf j nc s s' : ncfg_of cf j s = Ok (nc, s') -> s' = s /\ nthZ (cf_nodes cf) (j - 1) = Some nc.
Proof. unfold ncfg_of. intros H. apply lift_inv in H. tauto. Qed.

Lemma find_ind_id i l x : find_ind i l = Some x -> i_id x = i.
Proof. induction l as [|y r IH]; cbn; [discriminate|]. destruct (i_id y =? i) eqn:E; [intros H; injection H as <-; apply Z.eqb_eq; exact E|exact IH]. Qed.
Lemma find_ind_In i l x : find_ind i l = Some x -> In x l.
Proof. induction l as [|y r IH]; cbn; [discriminate|]. destruct (i_id y =? i); [intros H; injection H as ->; left; reflexivity|intros H; right; auto]. Qed.
Lemma find_put_ind x l i : find_ind i (put_ind_l x l) = if i =? i_id x then Some x else find_ind i l.
Proof.
  induction l as [|y r IH]; cbn.
  - rewrite (Z.eqb_sym (i_id x) i). reflexivity.
  - destruct (i_id y =? i_id x) eqn:E; cbn.
    + apply Z.eqb_eq in E. rewrite (Z.eqb_sym (i_id x) i). destruct (i =? i_id x) eqn:E2; [reflexivity|].
      rewrite E. rewrite (Z.eqb_sym (i_id x) i), E2. reflexivity.
    + destruct (i_id y =? i) eqn:E2; [|exact IH].
      apply Z.eqb_eq in E2. apply Z.eqb_neq in E. destruct (i =? i_id x) eqn:E3; [apply Z.eqb_eq in E3; lia|reflexivity].
Qed.
Lemma put_put_ind a b l : i_id a = i_id b -> put_ind_l b (put_ind_l a l) = put_ind_l b l.
Proof.
  intros Hab. induction l as [|y r IH]; cbn.
  - rewrite Hab, Z.eqb_refl. reflexivity.
  - rewrite Hab. destruct (i_id y =? i_id b) eqn:E; cbn.
    + rewrite Hab, Z.eqb_refl. reflexivity.
    + rewrite E, IH. reflexivity.
Qed.
Lemma nthZ_In {A} (l : list A) k x : nthZ l k = Some x -> In x l.
Proof. unfold nthZ. destruct (k <? 0); [discriminate|apply nth_error_In]. Qed.

(* upd_ind as one step *)
Lemma upd_ind_inv i f u s s' : upd_ind i f s = Ok (u, s') ->
  exists x, find_ind i (inds s) = Some x /\ s' = s <| inds := put_ind_l (f x) (inds s) |>.
Proof.
  unfold upd_ind. intros H. minv H x s1 E. apply get_ind_inv in E as [-> E]. unfold put_ind in H. apply modify_inv in H. eauto.
Qed.

(* ================================================================================================================ *)
(* Part 1: baulking                                                                                                 *)
(* ================================================================================================================ *)
Section Baulk.
  Variable cf : config.

  (* the table value (in quarters) for the population seen: the last entry serves every larger population *)
  Definition baulk_p4 (tb : list Z) (pop : Z) : Z :=
    match nth_error tb (Z.to_nat (Z.min pop (Z.of_nat (length tb) - 1))) with Some p => p | None => 0 end.

  (* a customer that is turned away (rejected: ty = 4, baulked: ty = 3): one record, then straight to the exit *)
  Definition br_rec (x : ind) (j ty t pop : Z) : rec :=
    mkRec (i_id x) (i_pcls x) (i_ocls x) j ty (Some t) None None None None None (Some t) None (Some pop) None None.
  Definition TurnedAway (s s' : sim) (x : ind) (j ty pop : Z) : Prop :=
    log s' = log s ++ [br_rec x j ty (now s) pop] /\
    inds s' = del_ind_l (i_id x) (put_ind_l (x <| i_nrec := i_nrec x + 1 |>) (inds s)) /\
    exit_ids s' = exit_ids s ++ [i_id x] /\ exit_n s' = exit_n s + 1 /\ exit_completed s' = exit_completed s /\
    (* never let in: no node has changed, the acceptance counter has not moved *)
    nodes s' = nodes s /\ arr s' = arr s /\ now s' = now s /\ dr s' = dr s /\ cyc s' = cyc s /\ next_active s' = next_active s.

  Lemma turned_away j i ty x nd s s' : find_ind i (inds s) = Some x -> 1 <= j -> nthZ (nodes s) (j - 1) = Some nd ->
    (write_br_record j i ty ;;; exit_accept i false) s = Ok (tt, s') -> TurnedAway s s' x j ty (n_pop nd).
  Proof.
    intros Hx Hj Hn H. pose proof (find_ind_id _ _ _ Hx) as Hid. subst i.
    unfold write_br_record, exit_accept, bump_rec, upd_ind, log_rec, put_ind, del_ind, bind, tnow, gets, modify, get_node, get_ind in H.
    destruct (j <? 1) eqn:Ej; [apply Z.ltb_lt in Ej; lia|]. rewrite Hn in H. rewrite Hx in H. cbn in H. rewrite Hx in H. cbn in H.
    injection H as <-. unfold TurnedAway. cbn. repeat split; try reflexivity. lia.
  Qed.

  Definition is_full (nc : ncfg) (nd : node) (s : sim) : bool :=
    (match nc_cap nc with None => false | Some cap => cap <=? n_pop nd end)
    || (match cf_syscap cf with None => false | Some sc => sc <=? (a_created (arr s) - 1) - exit_n s end).

  (* release_individual, completely: rejected if the node or the system is full; otherwise, with a baulking table, the customer
     baulks iff 4*u < p4 * 2^53 (u the next uniform draw, p4 the table value in quarters for the population it sees);
     otherwise it is sent to the node (send_individual = count it as accepted, then Node.accept) *)
  Theorem release_individual_spec j i s s' : release_individual cf j i s = Ok (tt, s') ->
    exists x nd nc, find_ind i (inds s) = Some x /\ 1 <= j /\ nthZ (nodes s) (j - 1) = Some nd /\ nthZ (cf_nodes cf) (j - 1) = Some nc /\
      if is_full nc nd s then TurnedAway s s' x j 4 (n_pop nd)
      else exists tabs tab, nthZ (cf_baulk cf) (i_cls x) = Some tabs /\ nthZ tabs (j - 1) = Some tab /\
        match tab with
        | None => send_individual cf j i s = Ok (tt, s')
        | Some tb =>
          exists u rest, d_unif (dr s) = u :: rest /\
            let s1 := s <| dr := dr s <| d_unif := rest |> |> in
            if 4 * u <? baulk_p4 tb (n_pop nd) * two53 then TurnedAway s1 s' x j 3 (n_pop nd)
            else send_individual cf j i s1 = Ok (tt, s')
        end.
  Proof.
    intros H. unfold release_individual in H.
    minv H x s1 E1. apply get_ind_inv in E1 as [-> Hx].
    minv H nd s1 E2. apply get_node_inv in E2 as (-> & Hj & Hn).
    minv H nc s1 E3. apply ncfg_of_inv in E3 as [-> Hc].
    minv H sp s1 E4. unfold sys_population, bind, gets, ret in E4. injection E4 as <- <-.
    exists x, nd, nc. split; [exact Hx|]. split; [exact Hj|]. split; [exact Hn|]. split; [exact Hc|].
    unfold is_full.
    destruct ((match nc_cap nc with None => false | Some cap => cap <=? n_pop nd end)
              || (match cf_syscap cf with None => false | Some sc => sc <=? (a_created (arr s) - 1) - exit_n s end)) eqn:Ef.
    - eapply turned_away; eauto.
    - minv H tabs s1 E5. apply lift_inv in E5 as [E5 ->]. minv H tab s1 E6. apply lift_inv in E6 as [E6 ->].
      exists tabs, tab. split; [exact E5|]. split; [exact E6|]. destruct tab as [tb|]; [|exact H].
      minv H u s1 E7. unfold draw_unif in E7. destruct (d_unif (dr s)) as [|u0 rest] eqn:Eu; [discriminate|]. injection E7 as <- <-.
      exists u0, rest. split; [reflexivity|]. cbv zeta. fold (baulk_p4 tb (n_pop nd)) in H.
      destruct (4 * u0 <? baulk_p4 tb (n_pop nd) * two53) eqn:Eb; [|exact H].
      eapply turned_away; [| |exact Hn|exact H]; [exact Hx|exact Hj].
  Qed.

  (* the decision as a function of the configuration, the population seen and the draw *)
  Definition baulks (tb : list Z) (pop u : Z) : bool := 4 * u <? baulk_p4 tb pop * two53.
  Lemma baulks_never tb pop u : baulk_p4 tb pop = 0 -> 0 <= u -> baulks tb pop u = false.
  Proof. unfold baulks. intros -> Hu. apply Z.ltb_ge. unfold two53. lia. Qed.
  Lemma baulks_always tb pop u : baulk_p4 tb pop = 4 -> u < two53 -> baulks tb pop u = true.
  Proof. unfold baulks. intros -> Hu. apply Z.ltb_lt. lia. Qed.
  (* in between, the customer baulks exactly for the draws below p: u / 2^53 < p4 / 4 *)
  Lemma baulks_iff tb pop u : baulks tb pop u = true <-> 4 * u < baulk_p4 tb pop * two53.
  Proof. unfold baulks. apply Z.ltb_lt. Qed.

  (* a customer facing probability 0 is never turned away by the baulking function, one facing probability 1 always is *)
  Corollary never_baulks_at_0 j i s s' x nd nc tabs tb u rest :
    release_individual cf j i s = Ok (tt, s') ->
    find_ind i (inds s) = Some x -> nthZ (nodes s) (j - 1) = Some nd -> nthZ (cf_nodes cf) (j - 1) = Some nc ->
    is_full nc nd s = false -> nthZ (cf_baulk cf) (i_cls x) = Some tabs -> nthZ tabs (j - 1) = Some (Some tb) ->
    d_unif (dr s) = u :: rest -> 0 <= u -> baulk_p4 tb (n_pop nd) = 0 ->
    send_individual cf j i (s <| dr := dr s <| d_unif := rest |> |>) = Ok (tt, s').
  Proof.
    intros H Hx Hn Hc Hf Ht Htb Hu Hu0 Hp.
    destruct (release_individual_spec _ _ _ _ H) as (x' & nd' & nc' & Hx' & _ & Hn' & Hc' & R).
    rewrite Hx in Hx'. injection Hx' as <-. rewrite Hn in Hn'. injection Hn' as <-. rewrite Hc in Hc'. injection Hc' as <-.
    rewrite Hf in R. destruct R as (tabs' & tab' & Ht' & Htb' & R). rewrite Ht in Ht'. injection Ht' as <-. rewrite Htb in Htb'. injection Htb' as <-.
    destruct R as (u' & rest' & Hu' & R). rewrite Hu in Hu'. injection Hu' as <- <-. cbv zeta in R.
    fold (baulks tb (n_pop nd) u) in R. rewrite (baulks_never _ _ _ Hp Hu0) in R. exact R.
  Qed.
  Corollary always_baulks_at_1 j i s s' x nd nc tabs tb u rest :
    release_individual cf j i s = Ok (tt, s') ->
    find_ind i (inds s) = Some x -> nthZ (nodes s) (j - 1) = Some nd -> nthZ (cf_nodes cf) (j - 1) = Some nc ->
    is_full nc nd s = false -> nthZ (cf_baulk cf) (i_cls x) = Some tabs -> nthZ tabs (j - 1) = Some (Some tb) ->
    d_unif (dr s) = u :: rest -> u < two53 -> baulk_p4 tb (n_pop nd) = 4 ->
    TurnedAway (s <| dr := dr s <| d_unif := rest |> |>) s' x j 3 (n_pop nd).
  Proof.
    intros H Hx Hn Hc Hf Ht Htb Hu Hu0 Hp.
    destruct (release_individual_spec _ _ _ _ H) as (x' & nd' & nc' & Hx' & _ & Hn' & Hc' & R).
    rewrite Hx in Hx'. injection Hx' as <-. rewrite Hn in Hn'. injection Hn' as <-. rewrite Hc in Hc'. injection Hc' as <-.
    rewrite Hf in R. destruct R as (tabs' & tab' & Ht' & Htb' & R). rewrite Ht in Ht'. injection Ht' as <-. rewrite Htb in Htb'. injection Htb' as <-.
    destruct R as (u' & rest' & Hu' & R). rewrite Hu in Hu'. injection Hu' as <- <-. cbv zeta in R.
    fold (baulks tb (n_pop nd) u) in R. rewrite (baulks_always _ _ _ Hp Hu0) in R. exact R.
  Qed.
  (* a customer that is turned away is in no node afterwards, whatever happened: the nodes are those of before *)
  Corollary turned_away_never_enters s s' x j ty pop : TurnedAway s s' x j ty pop ->
    nodes s' = nodes s /\ a_accepted (arr s') = a_accepted (arr s) /\ In (i_id x) (exit_ids s') /\
    exists r, log s' = log s ++ [r] /\ r_type r = ty /\ r_id r = i_id x /\ r_node r = j /\ r_arr r = Some (now s) /\ r_exit r = Some (now s) /\ r_qa r = Some pop /\ r_sst r = None.
  Proof.
    intros (A & B & C & D & E & F & G & _). split; [exact F|]. split; [rewrite G; reflexivity|]. split; [rewrite C; apply in_or_app; right; left; reflexivity|].
    eexists. split; [exact A|]. cbn. repeat split; reflexivity.
  Qed.
  (* a customer that is not turned away is counted as accepted and handed to Node.accept *)
  Lemma send_individual_spec j i s s' : send_individual cf j i s = Ok (tt, s') ->
    accept cf (fuel_of s) j i (s <| arr := arr s <| a_accepted := a_accepted (arr s) + 1 |> |>) = Ok (tt, s').
  Proof. unfold send_individual, bind, modify, gets. cbn. intros H. exact H. Qed.
End Baulk.

(* ================================================================================================================ *)
(* Part 2: reneging, function level                                                                                 *)
(* ================================================================================================================ *)

(* ---------- dates: None is +infinity ---------- *)
Definition dle (a b : option Z) : Prop :=
  match a, b with _, None => True | None, Some _ => False | Some x, Some y => x <= y end.
Lemma dle_refl a : dle a a.
Proof. destruct a; cbn; [lia|exact I]. Qed.
Lemma dle_trans a b c : dle a b -> dle b c -> dle a c.
Proof. destruct a, b, c; cbn; try tauto; lia. Qed.
Lemma date_lt_dle a b : date_lt a b = true -> dle a b.
Proof. destruct a, b; cbn; intros H; try discriminate; try exact I. apply Z.ltb_lt in H. lia. Qed.
Lemma date_lt_Some a b : date_lt a b = true -> exists z, a = Some z.
Proof. destruct a; cbn; [eauto|discriminate]. Qed.
Lemma date_lt_ne a b : date_lt a b = true -> a <> b.
Proof. destruct a, b; cbn; intros H; try discriminate. apply Z.ltb_lt in H. intros E. injection E as E. lia. Qed.
Lemma date_nlt_dle a b : date_lt a b = false -> dle b a.
Proof. destruct a, b; cbn; intros H; try discriminate; try exact I. apply Z.ltb_ge in H. lia. Qed.
Lemma date_eqb_eq a b : date_eqb a b = true -> a = b.
Proof. destruct a, b; cbn; intros H; try discriminate; [apply Z.eqb_eq in H; congruence|reflexivity]. Qed.

(* ---------- list positions ---------- *)
Lemma nth_error_upd_eq {A} (l : list A) k y x : nth_error l k = Some x -> nth_error (upd l k y) k = Some y.
Proof. revert k; induction l as [|a l IH]; intros [|k] H; cbn in *; try discriminate; [reflexivity|apply IH; exact H]. Qed.
Lemma nth_error_upd_ne {A} (l : list A) k k' y : k <> k' -> nth_error (upd l k y) k' = nth_error l k'.
Proof. revert k k'; induction l as [|a l IH]; intros [|k] [|k'] H; cbn; try reflexivity; try lia. apply IH. lia. Qed.
Lemma nth_error_upd_cases {A} (l : list A) k0 y k x :
  nth_error (upd l k0 y) k = Some x -> (k = k0 /\ x = y) \/ (k <> k0 /\ nth_error l k = Some x).
Proof.
  revert k0 k; induction l as [|a l IH]; intros [|k0] [|k] H; cbn in *; try discriminate.
  - injection H as <-. left. auto.
  - right. split; [lia|exact H].
  - right. split; [lia|exact H].
  - destruct (IH _ _ H) as [[-> ->]|[Hne Hk]]; [left; auto|right; split; [lia|exact Hk]].
Qed.
Lemma length_upd {A} (l : list A) k y : length (upd l k y) = length l.
Proof. revert k; induction l as [|a l IH]; intros [|k]; cbn; auto. Qed.
Lemma length_updZ {A} (l : list A) k y : length (updZ l k y) = length l.
Proof. unfold updZ. destruct (k <? 0); [reflexivity|apply length_upd]. Qed.
Lemma nthZ_nat {A} (l : list A) k x : nthZ l k = Some x -> 0 <= k /\ nth_error l (Z.to_nat k) = Some x.
Proof. unfold nthZ. destruct (k <? 0) eqn:E; [discriminate|]. apply Z.ltb_ge in E. auto. Qed.
Lemma nthZ_of_nat {A} (l : list A) n : nthZ l (Z.of_nat n) = nth_error l n.
Proof. unfold nthZ. destruct (Z.of_nat n <? 0) eqn:E; [apply Z.ltb_lt in E; lia|]. rewrite Nat2Z.id. reflexivity. Qed.
Lemma In_updZ {A} (l : list A) k y x : In x (updZ l k y) -> x = y \/ In x l.
Proof.
  unfold updZ. destruct (k <? 0); [auto|]. intros H. apply In_nth_error in H as [n Hn].
  destruct (nth_error_upd_cases _ _ _ _ _ Hn) as [[_ ->]|[_ Hk]]; [left; reflexivity|right; eapply nth_error_In; eauto].
Qed.

(* node j is the j-th node *)
Definition Idx (s : sim) : Prop := forall k nd, nth_error (nodes s) k = Some nd -> n_id nd = Z.of_nat k + 1.
Lemma Idx_get s j nd : Idx s -> 1 <= j -> nthZ (nodes s) (j - 1) = Some nd -> n_id nd = j.
Proof. intros HI Hj H. apply nthZ_nat in H as [H0 H]. rewrite (HI _ _ H). lia. Qed.
Lemma Idx_updZ (l : list node) nd :
  (forall k x, nth_error l k = Some x -> n_id x = Z.of_nat k + 1) ->
  forall k x, nth_error (updZ l (n_id nd - 1) nd) k = Some x -> n_id x = Z.of_nat k + 1.
Proof.
  intros HI k x Hk. unfold updZ in Hk. destruct (n_id nd - 1 <? 0) eqn:E; [apply (HI _ _ Hk)|]. apply Z.ltb_ge in E.
  destruct (nth_error_upd_cases _ _ _ _ _ Hk) as [[-> ->]|[_ Hk']]; [lia|apply (HI _ _ Hk')].
Qed.

(* ---------- the scan that finds the next renege: minimum over the waiting customers, and who attains it ---------- *)
(* customer i is waiting (has no server) with reneging date z *)
Definition waiting_at (il : list ind) (i z : Z) : Prop := exists x, find_ind i il = Some x /\ i_ren x = XV z /\ i_server x = None.

Lemma scan_ren_spec : forall q il best acc d l, scan_ren q il best acc = Some (d, l) ->
  (forall i, In i q -> exists x, find_ind i il = Some x /\ i_ren x <> XU) /\
  dle d best /\
  (forall i z, In i q -> waiting_at il i z -> dle d (Some z)) /\
  (forall i, In i l -> (In i acc /\ d = best) \/ (In i q /\ exists z, waiting_at il i z /\ d = Some z)) /\
  ((acc <> [] \/ d <> best) -> l <> []).
Proof.
  induction q as [|i r IH]; intros il best acc d l H; cbn [scan_ren] in H.
  - injection H as <- <-. split; [intros i []|]. split; [apply dle_refl|]. split; [intros i z []|]. split; [intros i Hi; left; auto|].
    intros [Ha|Hd]; [exact Ha|congruence].
  - destruct (find_ind i il) as [x|] eqn:Ex; [|discriminate]. destruct (i_ren x) as [| |z] eqn:Er; [discriminate| |].
    + destruct (IH _ _ _ _ _ H) as (G1 & G2 & G3 & G4 & G5). split; [|split; [exact G2|split; [|split; [|exact G5]]]].
      * intros i0 [<-|Hi]; [exists x; split; [exact Ex|congruence]|auto].
      * intros i0 z [<-|Hi] Hw; [|eauto]. destruct Hw as (x' & Hx' & Hr' & _). congruence.
      * intros i0 Hi. destruct (G4 i0 Hi) as [?|(Hq & Hz)]; [left; assumption|right; split; [right; exact Hq|exact Hz]].
    + set (w := match i_server x with None => true | Some _ => false end) in H.
      assert (Hw : forall z', waiting_at il i z' -> z' = z /\ w = true).
      { intros z' (x' & Hx' & Hr' & Hs'). rewrite Ex in Hx'. injection Hx' as <-. rewrite Er in Hr'. injection Hr' as <-.
        split; [reflexivity|]. unfold w. rewrite Hs'. reflexivity. }
      destruct (date_lt (Some z) best && w) eqn:E1; [|destruct (date_eqb (Some z) best && w) eqn:E2].
      * apply andb_true_iff in E1 as [E1 Ew]. destruct (IH _ _ _ _ _ H) as (G1 & G2 & G3 & G4 & G5).
        assert (Hwi : waiting_at il i z). { exists x. split; [exact Ex|]. split; [exact Er|]. unfold w in Ew. destruct (i_server x); [discriminate|reflexivity]. }
        split; [|split; [|split; [|split]]].
        -- intros i0 [<-|Hi]; [exists x; split; [exact Ex|congruence]|auto].
        -- eapply dle_trans; [exact G2|apply date_lt_dle; exact E1].
        -- intros i0 z' [<-|Hi] Hw'; [destruct (Hw _ Hw') as [-> _]; exact G2|eauto].
        -- intros i0 Hi. destruct (G4 i0 Hi) as [[[<-|[]] ->]|(Hq & Hz)]; right; [split; [left; reflexivity|exists z; auto]|split; [right; exact Hq|exact Hz]].
        -- intros _. apply G5. left. discriminate.
      * apply andb_true_iff in E2 as [E2 Ew]. apply date_eqb_eq in E2. destruct (IH _ _ _ _ _ H) as (G1 & G2 & G3 & G4 & G5).
        assert (Hwi : waiting_at il i z). { exists x. split; [exact Ex|]. split; [exact Er|]. unfold w in Ew. destruct (i_server x); [discriminate|reflexivity]. }
        split; [|split; [exact G2|split; [|split]]].
        -- intros i0 [<-|Hi]; [exists x; split; [exact Ex|congruence]|auto].
        -- intros i0 z' [<-|Hi] Hw'; [destruct (Hw _ Hw') as [-> _]; rewrite E2; exact G2|eauto].
        -- intros i0 Hi. destruct (G4 i0 Hi) as [[Hin ->]|(Hq & Hz)].
           ++ apply in_app_or in Hin as [Hin|[<-|[]]]; [left; auto|right; split; [left; reflexivity|exists z; auto]].
           ++ right. split; [right; exact Hq|exact Hz].
        -- intros _. apply G5. left. intros E. apply app_eq_nil in E as [_ E]. discriminate.
      * destruct (IH _ _ _ _ _ H) as (G1 & G2 & G3 & G4 & G5). split; [|split; [exact G2|split; [|split; [|exact G5]]]].
        -- intros i0 [<-|Hi]; [exists x; split; [exact Ex|congruence]|auto].
        -- intros i0 z' [<-|Hi] Hw'; [|eauto]. destruct (Hw _ Hw') as [-> Hwt]. rewrite Hwt, andb_true_r in E1.
           eapply dle_trans; [exact G2|apply date_nlt_dle; exact E1].
        -- intros i0 Hi. destruct (G4 i0 Hi) as [?|(Hq & Hz)]; [left; assumption|right; split; [right; exact Hq|exact Hz]].
Qed.

(* the scan from scratch: the date is the minimum of the waiting customers' reneging dates, the list is who attains it *)
Corollary scan_ren_min q il d l : scan_ren q il None [] = Some (d, l) ->
  (forall i, In i q -> exists x, find_ind i il = Some x /\ i_ren x <> XU) /\
  (forall i z, In i q -> waiting_at il i z -> dle d (Some z)) /\
  (forall i, In i l -> In i q /\ exists z, waiting_at il i z /\ d = Some z) /\
  (d <> None -> l <> []) /\ (d = None -> l = []).
Proof.
  intros H. destruct (scan_ren_spec _ _ _ _ _ _ H) as (G1 & G2 & G3 & G4 & G5).
  split; [exact G1|]. split; [exact G3|]. split; [|split].
  - intros i Hi. destruct (G4 i Hi) as [[[] _]|R]; exact R.
  - intros Hd. apply G5. right. exact Hd.
  - intros ->. destruct l as [|i l']; [reflexivity|]. destruct (G4 i (or_introl eq_refl)) as [[[] _]|(_ & z & _ & E)]. discriminate.
Qed.

(* decide_next_event: the earliest candidate (the first of the earliest), or the default when no candidate has a date *)
Lemma dne_spec : forall cands best, let r := decide_next_event cands best in
  (r = best \/ (In r cands /\ exists z, fst (snd r) = Some z)) /\ dle (fst (snd r)) (fst (snd best)) /\
  Forall (fun c => dle (fst (snd r)) (fst (snd c))) cands.
Proof.
  induction cands as [|c cs IH]; intros best; cbn [decide_next_event].
  - split; [left; reflexivity|]. split; [apply dle_refl|constructor].
  - destruct (date_lt (fst (snd c)) (fst (snd best))) eqn:E.
    + destruct (IH c) as (A & B & C). split; [|split].
      * destruct A as [->|(Hin & Hz)]; [right; split; [left; reflexivity|apply (date_lt_Some _ _ E)]|right; split; [right; exact Hin|exact Hz]].
      * eapply dle_trans; [exact B|apply date_lt_dle; exact E].
      * constructor; assumption.
    + destruct (IH best) as (A & B & C). split; [|split; [exact B|]].
      * destruct A as [->|(Hin & Hz)]; [left; reflexivity|right; split; [right; exact Hin|exact Hz]].
      * constructor; [|exact C]. eapply dle_trans; [exact B|apply date_nlt_dle; exact E].
Qed.

Lemma scan_active_spec : forall ds k0 best acc d cands, scan_active k0 ds best acc = (d, cands) ->
  dle d best /\ Forall (dle d) ds /\
  (forall k, In k cands -> (In k acc /\ d = best) \/ exists n, k = k0 + Z.of_nat n /\ nth_error ds n = Some d).
Proof.
  induction ds as [|x r IH]; intros k0 best acc d cands H; cbn [scan_active] in H.
  - injection H as <- <-. split; [apply dle_refl|split; [constructor|]]. intros k Hk. left. auto.
  - destruct (date_lt x best) eqn:E1.
    + destruct (IH _ _ _ _ _ H) as (A & B & C). split; [eapply dle_trans; [exact A|apply date_lt_dle; exact E1]|]. split; [constructor; assumption|].
      intros k Hk. right. destruct (C k Hk) as [[Hin ->]|(n & -> & Hn)].
      * destruct Hin as [<-|[]]. exists 0%nat. split; [lia|reflexivity].
      * exists (S n). split; [lia|exact Hn].
    + assert (Hb : dle best x) by (apply date_nlt_dle; exact E1).
      destruct (date_eqb x best) eqn:E2.
      * apply date_eqb_eq in E2. rewrite E2 in *.
        destruct (IH _ _ _ _ _ H) as (A & B & C). split; [exact A|]. split; [constructor; assumption|].
        intros k Hk. destruct (C k Hk) as [[Hin ->]|(n & -> & Hn)].
        -- apply in_app_or in Hin as [Hin|[<-|[]]]; [left; auto|right; exists 0%nat; split; [lia|reflexivity]].
        -- right. exists (S n). split; [lia|exact Hn].
      * destruct (IH _ _ _ _ _ H) as (A & B & C). split; [exact A|]. split; [constructor; [eapply dle_trans; eauto|exact B]|].
        intros k Hk. destruct (C k Hk) as [[Hin ->]|(n & -> & Hn)]; [left; auto|right; exists (S n); split; [lia|exact Hn]].
Qed.

Section Select.
  Variable cf : config.

  (* what update_next_event_date leaves on a node, as far as reneging is concerned (il = the customers at that time) *)
  Definition UQ (il : list ind) (nd : node) : Prop :=
    exists nc, nthZ (cf_nodes cf) (n_id nd - 1) = Some nc /\
      (nd_inf nd = false -> nc_reneging nc = true ->
         exists rd rl, scan_ren (all_individuals nd) il None [] = Some (rd, rl) /\ dle (n_next_date nd) rd) /\
      (n_next_type nd = 2 ->
         nd_inf nd = false /\ nc_reneging nc = true /\
         scan_ren (all_individuals nd) il None [] = Some (n_next_date nd, n_next_inds nd) /\ exists z, n_next_date nd = Some z).

  Lemma update_next_event_date_spec j s s' : update_next_event_date cf j s = Ok (tt, s') ->
    exists nd d l ty, 1 <= j /\ nthZ (nodes s) (j - 1) = Some nd /\
      s' = s <| nodes := updZ (nodes s) (n_id nd - 1) (nd <| n_next_date := d |> <| n_next_inds := l |> <| n_next_type := ty |>) |> /\
      (n_id nd = j -> UQ (inds s) (nd <| n_next_date := d |> <| n_next_inds := l |> <| n_next_type := ty |>)).
  Proof.
    intros H. unfold update_next_event_date in H.
    minv H nd s1 E1. apply get_node_inv in E1 as (-> & Hj & Hn).
    minv H nc s1 E2. apply ncfg_of_inv in E2 as [-> Hc].
    minv H t s1 E3. apply tnow_inv in E3 as [-> ->].
    minv H il s1 E4. apply gets_inv in E4 as [-> ->].
    cbv zeta in H.
    set (es := if nc_slotted nc || nd_inf nd then scan_inds (now s) (all_individuals nd) (inds s) None [] else scan_servers (n_servers nd) None []) in H.
    minv H rn s1 E5.
    assert (Hrn : s1 = s /\ if negb (nd_inf nd) && nc_reneging nc then scan_ren (all_individuals nd) (inds s) None [] = Some rn else rn = (None, [])).
    { destruct (negb (nd_inf nd) && nc_reneging nc); [apply lift_inv in E5 as [E5 ->]; auto|apply ret_inv in E5 as [-> ->]; auto]. }
    destruct Hrn as [-> Hrn]. clear E5.
    set (cc := if cf_dyn cf && negb (nd_inf nd) then (n_nccd nd, match n_ncci nd with Some i => [i] | None => [] end) else (None, [])) in H.
    set (sh := match nc_srv nc with
               | SSched _ => [(1, (n_next_shift nd, []))]
               | SSlot sl => [(4, (Some (snd (slot_values sl (Z.to_nat (n_spos nd)))), []))]
               | SFixed => [] end) in H.
    destruct (nc_reneging nc || cf_dyn cf || nc_sched nc) eqn:Eg.
    - destruct (decide_next_event (sh ++ [(0, es); (3, cc); (2, rn)]) (5, (None, []))) as [ty [d l]] eqn:ED.
      unfold put_node in H. apply modify_inv in H. exists nd, d, l, ty. split; [exact Hj|]. split; [exact Hn|]. split; [exact H|].
      intros Hid. exists nc. split; [cbn [n_id set]; rewrite Hid; exact Hc|].
      pose proof (dne_spec (sh ++ [(0, es); (3, cc); (2, rn)]) (5, (None, []))) as D. cbv zeta in D. rewrite ED in D. cbn [fst snd] in D.
      destruct D as (DA & _ & DC). split.
      + intros Hinf Hren. change (nd_inf (nd <| n_next_date := d |> <| n_next_inds := l |> <| n_next_type := ty |>)) with (nd_inf nd) in Hinf.
        rewrite Hinf, Hren in Hrn. cbn in Hrn. destruct rn as [rd rl]. exists rd, rl. split; [exact Hrn|]. cbn.
        rewrite Forall_forall in DC. apply (DC (2, (rd, rl))). apply in_or_app. right. right. right. left. reflexivity.
      + cbn. intros Hty. destruct DA as [DA|(DA & z & Hz)]; [apply (f_equal fst) in DA; cbn in DA; lia|].
        apply in_app_or in DA as [DA|DA].
        { exfalso. unfold sh in DA. destruct (nc_srv nc); [destruct DA|destruct DA as [DA|[]]; apply (f_equal fst) in DA; cbn in DA; lia|destruct DA as [DA|[]]; apply (f_equal fst) in DA; cbn in DA; lia]. }
        destruct DA as [DA|[DA|[DA|[]]]]; [apply (f_equal fst) in DA; cbn in DA; lia|apply (f_equal fst) in DA; cbn in DA; lia|].
        apply (f_equal snd) in DA. cbn in DA. rename DA into Hrn'. destruct (negb (nd_inf nd) && nc_reneging nc) eqn:G.
        * apply andb_true_iff in G as [G1 G2]. apply negb_true_iff in G1.
          change (nd_inf (nd <| n_next_date := d |> <| n_next_inds := l |> <| n_next_type := ty |>)) with (nd_inf nd).
          split; [exact G1|]. split; [exact G2|]. split; [rewrite <- Hrn'; exact Hrn|exists z; exact Hz].
        * rewrite Hrn in Hrn'. injection Hrn' as <- _. discriminate.
    - unfold put_node in H. apply modify_inv in H. exists nd, (fst es), (snd es), 0. split; [exact Hj|]. split; [exact Hn|]. split; [exact H|].
      intros Hid. exists nc. split; [cbn [n_id set]; rewrite Hid; exact Hc|].
      apply orb_false_iff in Eg as [Eg _]. apply orb_false_iff in Eg as [Eg _].
      split; [intros _ Hren; congruence|cbn; intros Hty; lia].
  Qed.

  (* the parts of a node that update_next_event_date does not touch *)
  Definition nfix (a b : node) : Prop :=
    n_id b = n_id a /\ n_queues b = n_queues a /\ n_c b = n_c a /\ n_pop b = n_pop a /\ n_insvc b = n_insvc a /\ n_servers b = n_servers a /\
    n_bq b = n_bq a /\ n_lenbq b = n_lenbq a /\ n_interrupted b = n_interrupted a /\ n_nint b = n_nint a.
  Lemma nfix_refl a : nfix a a. Proof. unfold nfix. repeat split; reflexivity. Qed.
  Lemma nfix_trans a b c : nfix a b -> nfix b c -> nfix a c.
  Proof. unfold nfix. intros (A1 & A2 & A3 & A4 & A5 & A6 & A7 & A8 & A9 & A10) (B1 & B2 & B3 & B4 & B5 & B6 & B7 & B8 & B9 & B10). repeat split; congruence. Qed.
  Definition same_but_nodes (s s' : sim) : Prop :=
    now s' = now s /\ next_active s' = next_active s /\ arr s' = arr s /\ exit_ids s' = exit_ids s /\ exit_n s' = exit_n s /\
    exit_completed s' = exit_completed s /\ inds s' = inds s /\ dr s' = dr s /\ log s' = log s /\ cyc s' = cyc s.

  Lemma update_all_spec : forall js s s', Idx s -> update_all cf js s = Ok (tt, s') ->
    Idx s' /\ same_but_nodes s s' /\ length (nodes s') = length (nodes s) /\
    (forall k nd', nth_error (nodes s') k = Some nd' -> exists nd, nth_error (nodes s) k = Some nd /\ nfix nd nd' /\
        (In (Z.of_nat k + 1) js -> UQ (inds s) nd') /\ (~ In (Z.of_nat k + 1) js -> nd' = nd)).
  Proof.
    induction js as [|j r IH]; intros s s' HI H; cbn [update_all] in H.
    - apply ret_inv in H as [_ ->]. split; [exact HI|]. split; [unfold same_but_nodes; repeat split; reflexivity|]. split; [reflexivity|].
      intros k nd' Hk. exists nd'. split; [exact Hk|]. split; [apply nfix_refl|]. split; [intros []|reflexivity].
    - minv H u s1 E. destruct u. destruct (update_next_event_date_spec _ _ _ E) as (nd & d & l & ty & Hj & Hn & -> & HU).
      pose proof (Idx_get _ _ _ HI Hj Hn) as Hid. specialize (HU Hid).
      set (ndn := nd <| n_next_date := d |> <| n_next_inds := l |> <| n_next_type := ty |>) in *.
      assert (HI1 : Idx (s <| nodes := updZ (nodes s) (n_id nd - 1) ndn |>)).
      { unfold Idx. cbn [nodes set]. change (n_id nd) with (n_id ndn). apply Idx_updZ. exact HI. }
      destruct (IH _ _ HI1 H) as (HI' & HS & HL & HN). split; [exact HI'|]. split; [exact HS|]. split; [rewrite HL; cbn; apply length_updZ|].
      intros k nd' Hk. destruct (HN k nd' Hk) as (nd1 & Hk1 & Hf & HA & HB). cbn [nodes set inds] in Hk1, HA.
      apply nthZ_nat in Hn as [Hj0 Hn]. rewrite Hid in Hk1. unfold updZ in Hk1. destruct (j - 1 <? 0) eqn:Ej; [apply Z.ltb_lt in Ej; lia|].
      destruct (nth_error_upd_cases _ _ _ _ _ Hk1) as [[-> ->]|[Hne Hk0]].
      + exists nd. split; [exact Hn|]. split; [eapply nfix_trans; [|exact Hf]; unfold nfix, ndn; cbn; repeat split; reflexivity|].
        split; [|intros Hnot; exfalso; apply Hnot; left; lia].
        intros _. destruct (in_dec Z.eq_dec (Z.of_nat (Z.to_nat (j - 1)) + 1) r) as [Hin|Hnin]; [apply HA; exact Hin|].
        rewrite (HB Hnin). exact HU.
      + exists nd1. split; [exact Hk0|]. split; [exact Hf|]. split.
        * intros [Hjk|Hin]; [exfalso; apply Hne; lia|apply HA; exact Hin].
        * intros Hnot. apply HB. intros Hin. apply Hnot. right. exact Hin.
  Qed.

  Lemma choice_uniform_inv {A} (l : list A) a s s' : choice_uniform l s = Ok (a, s') ->
    In a l /\ exists u rest, d_unif (dr s) = u :: rest /\ s' = s <| dr := dr s <| d_unif := rest |> |>.
  Proof.
    unfold choice_uniform. intros H. minv H u s1 E. unfold draw_unif in E. destruct (d_unif (dr s)) as [|u0 rest] eqn:Eu; [discriminate|].
    injection E as <- <-. apply lift_inv in H as [H ->]. split; [eapply nth_error_In; eauto|eauto].
  Qed.

  (* find_next_active_node: the clock moves to the earliest of all next dates, the active node is one that attains it *)
  Lemma find_next_active_node_spec s s' : find_next_active_node s = Ok (tt, s') ->
    nodes s' = nodes s /\ inds s' = inds s /\ arr s' = arr s /\ log s' = log s /\ exit_ids s' = exit_ids s /\ exit_n s' = exit_n s /\
    exit_completed s' = exit_completed s /\ cyc s' = cyc s /\ d_ren (dr s') = d_ren (dr s) /\
    exists d, now s' = (match d with Some t => t | None => now s end) /\
      dle d (a_next_date (arr s)) /\ Forall (fun nd => dle d (n_next_date nd)) (nodes s) /\
      0 <= next_active s' /\
      (next_active s' <> 0 -> exists nd, nthZ (nodes s) (next_active s' - 1) = Some nd /\ n_next_date nd = d).
  Proof.
    intros H. unfold find_next_active_node in H. minv H s0 s1 E. apply gets_inv in E as [-> ->]. cbv zeta in H.
    destruct (scan_active 0 (a_next_date (arr s) :: map n_next_date (nodes s)) None []) as [d cands] eqn:ES.
    destruct (scan_active_spec _ _ _ _ _ _ ES) as (_ & SB & SC).
    minv H k s1 E.
    assert (Hk : In k cands /\ nodes s1 = nodes s /\ inds s1 = inds s /\ arr s1 = arr s /\ log s1 = log s /\ exit_ids s1 = exit_ids s /\ exit_n s1 = exit_n s /\
                 exit_completed s1 = exit_completed s /\ cyc s1 = cyc s /\ now s1 = now s /\ d_ren (dr s1) = d_ren (dr s)).
    { destruct cands as [|a [|b r]].
      - discriminate.
      - apply ret_inv in E as [-> ->]. split; [left; reflexivity|repeat split; reflexivity].
      - apply choice_uniform_inv in E as (Hin & u & rest & _ & ->). split; [exact Hin|repeat split; reflexivity]. }
    destruct Hk as (Hk & K1 & K2 & K3 & K4 & K5 & K6 & K7 & K8 & K9 & K10).
    apply modify_inv in H. subst s'. cbn. rewrite K1, K2, K3, K4, K5, K6, K7, K8, K9, K10. repeat (split; [reflexivity|]).
    exists d. split; [reflexivity|]. inversion SB as [|? ? SB1 SB2]; subst. split; [exact SB1|].
    split; [rewrite Forall_forall in *; intros nd Hnd; apply SB2; apply in_map; exact Hnd|].
    destruct (SC k Hk) as [[[] _]|(n & -> & Hn)]. split; [lia|]. intros Hne.
    destruct n as [|n]; [exfalso; apply Hne; reflexivity|]. cbn in Hn.
    change (nth_error (a_next_date (arr s) :: map n_next_date (nodes s)) (S n)) with (nth_error (map n_next_date (nodes s)) n) in Hn.
    rewrite nth_error_map in Hn. destruct (nth_error (nodes s) n) as [nd|] eqn:En; [|discriminate]. cbn in Hn. injection Hn as Hn.
    exists nd. split; [|exact Hn]. replace (0 + Z.of_nat (S n) - 1) with (Z.of_nat n) by lia. rewrite nthZ_of_nat. exact En.
  Qed.
End Select.

(* ---------- the recursive core, one layer at a time (the recursive calls as parameters) ---------- *)
Section Bodies.
  Variable cf : config.
  Definition release_body (acc : Z -> Z -> M unit) (rbi : Z -> M unit) (j i d : Z) (rr : bool) : M unit :=
    t <- tnow ;;
    x <- get_ind i ;;
    nd <- get_node j ;;
    nc <- ncfg_of cf j ;;
    q <- lift E_Remove (nthZ (n_queues nd) (i_pprio x)) ;;
    q' <- lift E_Remove (remove_first i q) ;;
    let nd1 := nd <| n_queues := updZ (n_queues nd) (i_pprio x) q' |> <| n_pop := n_pop nd - 1 |> <| n_insvc := n_insvc nd - 1 |> in
    put_node nd1 ;;;
    put_ind (x <| i_qd := Some (n_pop nd1) |> <| i_exit := Some t |>) ;;;
    (if rr then ret tt else write_individual_record cf j i) ;;;
    freed <- (if negb (nd_inf nd) && negb (nc_slotted nc)
              then x1 <- get_ind i ;; sid <- lift E_NoServer (i_server x1) ;; detatch_server j sid i ;;; ret (Some sid)
              else ret None) ;;
    (if nc_slotted nc then upd_ind i (fun y => y <| i_server := None |>) else ret tt) ;;;
    reset_individual_attributes i ;;;
    (if rr then ret tt else begin_service_if_possible_release cf j freed) ;;;
    (if d =? -1 then exit_accept i true else acc d i) ;;;
    (if rr then ret tt else rbi j).
  Definition rbi_body (rel : Z -> Z -> Z -> bool -> M unit) (j : Z) : M unit :=
    nd <- get_node j ;; nc <- ncfg_of cf j ;;
    if (0 <? n_lenbq nd) && (match nc_cap nc with None => true | Some cap => n_pop nd <? cap end) then
      match n_bq nd with
      | [] => fail E_Index
      | (from, y) :: rest =>
        fnd <- get_node from ;;
        (if memZ y (all_individuals fnd) then ret tt else fail E_Index) ;;;
        put_node (nd <| n_bq := rest |> <| n_lenbq := n_lenbq nd - 1 |>) ;;;
        yx <- get_ind y ;;
        (if i_interrupted yx then
           os <- lift E_Attr (i_osst yx) ;; ot <- lift E_Attr (i_ost yx) ;;
           put_ind (yx <| i_interrupted := false |> <| i_sst := Some os |> <| i_send := Some (os + ot) |>) ;;;
           fnd2 <- get_node from ;;
           l' <- lift E_IntRemove (remove_first y (n_interrupted fnd2)) ;;
           put_node (fnd2 <| n_interrupted := l' |> <| n_nint := n_nint fnd2 - 1 |>)
         else ret tt) ;;;
        rel from y j false
      end
    else ret tt.
  (* accept after the stamps have been written: class-change clock, then begin_service_if_possible_accept *)
  Definition accept_rest (pre : Z -> Z -> Z -> M unit) (j i : Z) (nc : ncfg) : M unit :=
    decide_class_change cf j i ;;;
    nd1 <- get_node j ;;
    let inf := nd_inf nd1 in
    cand <- (if inf then ret (Some i) else choose_next_customer cf j) ;;
    match cand with
    | None => ret tt
    | Some c =>
      if inf then start_fresh cf j c None true
      else
        cx <- get_ind c ;;
        match find_free_server_for (nc_spf nc) (i_cls cx) (n_servers nd1) with
           | Some sv => start_fresh cf j c (Some (sv_id sv)) true
           | None =>
             if 0 <? numo (n_c nd1) then
               v <- preempt_victim cf j c ;;
               match v with Some vi => pre j vi c | None => ret tt end
             else ret tt
           end
    end.
  Definition accept_body (pre : Z -> Z -> Z -> M unit) (j i : Z) : M unit :=
    x <- get_ind i ;; nd <- get_node j ;;
    put_ind (x <| i_node := Some j |> <| i_exit := None |> <| i_blocked := false |> <| i_ocls := i_cls x |> <| i_pcls := i_cls x |>
               <| i_pprio := i_prio x |> <| i_qa := Some (n_pop nd) |>) ;;;
    qs <- lift E_Index (match nthZ (n_queues nd) (i_prio x) with Some q => Some (updZ (n_queues nd) (i_prio x) (q ++ [i])) | None => None end) ;;
    put_node (nd <| n_queues := qs |> <| n_pop := n_pop nd + 1 |>) ;;;
    t <- tnow ;;
    upd_ind i (fun y => y <| i_arr := Some t |>) ;;;
    nc <- ncfg_of cf j ;;
    (if nc_reneging nc then rd <- get_reneging_date cf j i ;; upd_ind i (fun y => y <| i_ren := rd |>) else ret tt) ;;;
    accept_rest pre j i nc.
  Definition preempt_body (rel : Z -> Z -> Z -> bool -> M unit) (j v i : Z) : M unit :=
    t <- tnow ;;
    vx <- get_ind v ;; nc <- ncfg_of cf j ;;
    put_ind (vx <| i_ost := i_stime vx |>) ;;;
    (if nc_preempt nc =? 4 then
       d <- next_node_for cf 1 j v ;;
       write_interruption_record cf j v (Some d) ;;;
       rel j v d true
     else
       write_interruption_record cf j v None ;;;
       upd_ind v (fun y => y <| i_sst := None |> <| i_tleft := Some (numo (i_send y) - t) |> <| i_smark := nc_preempt nc |>
                            <| i_stime := None |> <| i_send := None |>) ;;;
       sid <- lift E_NoServer (i_server vx) ;;
       detatch_server j sid v ;;;
       decide_class_change cf j v) ;;;
    sid <- lift E_NoServer (i_server vx) ;;
    start_preemptor cf j i sid.

  Lemma release_S f j i d rr : release cf (S f) j i d rr = release_body (accept cf f) (release_blocked_individual cf f) j i d rr.
  Proof. reflexivity. Qed.
  Lemma rbi_S f j : release_blocked_individual cf (S f) j = rbi_body (release cf f) j.
  Proof. reflexivity. Qed.
  Lemma accept_S f j i : accept cf (S f) j i = accept_body (preempt cf f) j i.
  Proof. reflexivity. Qed.
  Lemma preempt_S f j v i : preempt cf (S f) j v i = preempt_body (release cf f) j v i.
  Proof. reflexivity. Qed.
End Bodies.

(* ---------- a walk over the whole engine for a property of the node list that put_node keeps ---------- *)
Create HintDb kpdb.
Section KP.
  Variable P : list node -> Prop.
  Hypothesis HP : forall ns nd, P ns -> P (updZ ns (n_id nd - 1) nd).
  Definition kp {A} (m : M A) : Prop := forall s a s', P (nodes s) -> m s = Ok (a, s') -> P (nodes s').

  Lemma kp_ret {A} (a : A) : kp (ret a). Proof. intros s b s' HPs H. apply ret_inv in H as [_ ->]. exact HPs. Qed.
  Lemma kp_fail {A} e : kp (@fail A e). Proof. intros s a s' _ H. discriminate. Qed.
  Lemma kp_oof {A} : kp (@oof A). Proof. intros s a s' _ H. discriminate. Qed.
  Lemma kp_bind {A B} (m : M A) (f : A -> M B) : kp m -> (forall a, kp (f a)) -> kp (bind m f).
  Proof. intros Hm Hf s b s' HPs H. minv H a s1 E. eapply Hf; [eapply Hm; eauto|exact H]. Qed.
  Lemma kp_gets {A} (f : sim -> A) : kp (gets f). Proof. intros s a s' HPs H. apply gets_inv in H as [_ ->]. exact HPs. Qed.
  Lemma kp_lift {A} e (o : option A) : kp (lift e o). Proof. destruct o; [apply kp_ret|apply kp_fail]. Qed.
  Lemma kp_same (f : sim -> sim) : (forall s, nodes (f s) = nodes s) -> kp (modify f).
  Proof. intros Hf s a s' HPs H. apply modify_inv in H. subst s'. rewrite Hf. exact HPs. Qed.
  Lemma kp_get_node j : kp (get_node j). Proof. intros s a s' HPs H. apply get_node_inv in H as [-> _]. exact HPs. Qed.
  Lemma kp_get_ind i : kp (get_ind i). Proof. intros s a s' HPs H. apply get_ind_inv in H as [-> _]. exact HPs. Qed.
  Lemma kp_put_node nd : kp (put_node nd).
  Proof. intros s a s' HPs H. unfold put_node in H. apply modify_inv in H. subst s'. cbn. apply HP. exact HPs. Qed.
  Lemma kp_put_ind x : kp (put_ind x). Proof. apply kp_same. reflexivity. Qed.
  Lemma kp_del_ind i : kp (del_ind i). Proof. apply kp_same. reflexivity. Qed.
  Lemma kp_log_rec r : kp (log_rec r). Proof. apply kp_same. reflexivity. Qed.
  Lemma kp_draw_arr : kp draw_arr. Proof. intros s a s' HPs H. unfold draw_arr in H. destruct (d_arr (dr s)); inversion H. exact HPs. Qed.
  Lemma kp_draw_batch : kp draw_batch. Proof. intros s a s' HPs H. unfold draw_batch in H. destruct (d_batch (dr s)); inversion H. exact HPs. Qed.
  Lemma kp_draw_svc : kp draw_svc. Proof. intros s a s' HPs H. unfold draw_svc in H. destruct (d_svc (dr s)); inversion H. exact HPs. Qed.
  Lemma kp_draw_unif : kp draw_unif. Proof. intros s a s' HPs H. unfold draw_unif in H. destruct (d_unif (dr s)); inversion H. exact HPs. Qed.
  Lemma kp_draw_ren : kp draw_ren. Proof. intros s a s' HPs H. unfold draw_ren in H. destruct (d_ren (dr s)); inversion H. exact HPs. Qed.
  Lemma kp_draw_cct : kp draw_cct. Proof. intros s a s' HPs H. unfold draw_cct in H. destruct (d_cct (dr s)); inversion H. exact HPs. Qed.
  Lemma kp_mapM {A B} (f : A -> M B) l : (forall a, kp (f a)) -> kp (mapM f l).
  Proof. intros Hf. induction l as [|a r IH]; cbn [mapM]; [apply kp_ret|]. apply kp_bind; [apply Hf|]. intros b. apply kp_bind; [exact IH|]. intros bs. apply kp_ret. Qed.
  Lemma kp_forM {A} (f : A -> M unit) l : (forall a, kp (f a)) -> kp (forM_ l f).
  Proof. intros Hf. induction l as [|a r IH]; cbn [forM_]; [apply kp_ret|]. apply kp_bind; [apply Hf|]. intros _. exact IH. Qed.

  #[local] Hint Resolve kp_ret kp_fail kp_oof kp_gets kp_lift kp_get_node kp_get_ind kp_put_node kp_put_ind kp_del_ind kp_log_rec
    kp_draw_arr kp_draw_batch kp_draw_svc kp_draw_unif kp_draw_ren kp_draw_cct : kpdb.

  Ltac kp1 :=
    first
      [ solve [auto 1 with kpdb nocore]
      | (apply kp_same; intros ?; reflexivity)
      | (apply kp_bind; [|intros])
      | (apply kp_mapM; intros) | (apply kp_forM; intros)
      | match goal with
        | |- kp (if ?b then _ else _) => destruct b
        | |- kp (match ?x with _ => _ end) => destruct x
        | |- kp (let '(_, _) := ?x in _) => destruct x
        end ].
  Ltac kpw := repeat kp1.

  Variable cf : config.
  Lemma kp_ncfg_of j : kp (ncfg_of cf j). Proof. apply kp_lift. Qed.
  Lemma kp_upd_ind i f : kp (upd_ind i f). Proof. unfold upd_ind. kpw. Qed.
  Lemma kp_upd_node j f : kp (upd_node j f). Proof. unfold upd_node. kpw. Qed.
  Lemma kp_tnow : kp tnow. Proof. apply kp_gets. Qed.
  #[local] Hint Resolve kp_ncfg_of kp_upd_ind kp_upd_node kp_tnow : kpdb.
  Lemma kp_choice_uniform {A} (l : list A) : kp (choice_uniform l). Proof. unfold choice_uniform. kpw. Qed.
  Lemma kp_choice_weighted den Pw : kp (choice_weighted den Pw). Proof. unfold choice_weighted. kpw. Qed.
  #[local] Hint Resolve kp_choice_uniform kp_choice_weighted : kpdb.
  Lemma kp_exit_accept i c : kp (exit_accept i c). Proof. unfold exit_accept. kpw. Qed.
  Lemma kp_choose_next_customer j : kp (choose_next_customer cf j). Proof. unfold choose_next_customer. kpw. Qed.
  Lemma kp_upd_server j sid f : kp (upd_server j sid f). Proof. unfold upd_server. kpw. Qed.
  #[local] Hint Resolve kp_exit_accept kp_choose_next_customer kp_upd_server : kpdb.
  Lemma kp_find_next_class_change j : kp (find_next_class_change j). Proof. unfold find_next_class_change. kpw. Qed.
  #[local] Hint Resolve kp_find_next_class_change : kpdb.
  Lemma kp_cct_loop : forall row b best bc, kp (cct_loop row b best bc).
  Proof. induction row as [|h r IH]; intros b best bc; cbn [cct_loop]; [apply kp_ret|]. destruct h; [|apply IH]. apply kp_bind; [apply kp_draw_cct|]. intros t. destruct (date_lt (Some t) best); apply IH. Qed.
  #[local] Hint Resolve kp_cct_loop : kpdb.
  Lemma kp_decide_class_change j i : kp (decide_class_change cf j i). Proof. unfold decide_class_change. kpw. Qed.
  Lemma kp_reset_class_change j i : kp (reset_class_change cf j i). Proof. unfold reset_class_change. kpw. Qed.
  Lemma kp_stime_num x : kp (stime_num x). Proof. unfold stime_num. kpw. Qed.
  Lemma kp_gstap i : kp (give_service_time_after_preemption i). Proof. unfold give_service_time_after_preemption. kpw. Qed.
  #[local] Hint Resolve kp_decide_class_change kp_reset_class_change kp_stime_num kp_gstap : kpdb.
  Lemma kp_giast i : kp (give_individual_a_service_time i). Proof. unfold give_individual_a_service_time. kpw. Qed.
  Lemma kp_attach_server j sid i : kp (attach_server j sid i). Proof. unfold attach_server. kpw. Qed.
  Lemma kp_set_next_end j sid d : kp (set_next_end j sid d). Proof. unfold set_next_end. kpw. Qed.
  Lemma kp_kill_server j sid : kp (kill_server j sid). Proof. unfold kill_server. kpw. Qed.
  #[local] Hint Resolve kp_giast kp_attach_server kp_set_next_end kp_kill_server : kpdb.
  Lemma kp_detatch_server j sid i : kp (detatch_server j sid i). Proof. unfold detatch_server. kpw. Qed.
  Lemma kp_bump_rec i : kp (bump_rec i). Proof. unfold bump_rec. kpw. Qed.
  #[local] Hint Resolve kp_detatch_server kp_bump_rec : kpdb.
  Lemma kp_write_individual_record j i : kp (write_individual_record cf j i). Proof. unfold write_individual_record. kpw. Qed.
  Lemma kp_write_interruption_record j i d : kp (write_interruption_record cf j i d). Proof. unfold write_interruption_record. kpw. Qed.
  Lemma kp_write_reneging_record j i : kp (write_reneging_record j i). Proof. unfold write_reneging_record. kpw. Qed.
  Lemma kp_write_br_record j i ty : kp (write_br_record j i ty). Proof. unfold write_br_record. kpw. Qed.
  Lemma kp_reset_individual_attributes i : kp (reset_individual_attributes i). Proof. unfold reset_individual_attributes. kpw. Qed.
  #[local] Hint Resolve kp_write_individual_record kp_write_interruption_record kp_write_reneging_record kp_write_br_record kp_reset_individual_attributes : kpdb.
  Lemma kp_valid_dest d : kp (valid_dest d). Proof. unfold valid_dest. kpw. Qed.
  Lemma kp_jsq_loop lb : forall ds best acc, kp (jsq_loop lb ds best acc).
  Proof. induction ds as [|d r IH]; intros best acc; cbn [jsq_loop]; [apply kp_ret|]. apply kp_bind; [apply kp_get_node|]. intros nd. cbv zeta. destruct (date_eqb _ _); [apply IH|]. destruct (date_lt _ _); apply IH. Qed.
  #[local] Hint Resolve kp_valid_dest kp_jsq_loop : kpdb.
  Lemma kp_jsq_next lb ds o : kp (jsq_next lb ds o). Proof. unfold jsq_next. kpw. Qed.
  Lemma kp_get_cyc c j : kp (get_cyc c j). Proof. unfold get_cyc. kpw. Qed.
  Lemma kp_bump_cyc c j : kp (bump_cyc c j).
  Proof. unfold bump_cyc. apply kp_same. intros s. destruct (nthZ (cyc s) c) as [row|]; [|reflexivity]. destruct (nthZ row (j - 1)); reflexivity. Qed.
  #[local] Hint Resolve kp_jsq_next kp_get_cyc kp_bump_cyc : kpdb.
  Lemma kp_node_router_next r c j : kp (node_router_next r c j). Proof. unfold node_router_next. kpw. Qed.
  #[local] Hint Resolve kp_node_router_next : kpdb.
  Lemma kp_next_node_for mode j i : kp (next_node_for cf mode j i). Proof. unfold next_node_for. kpw. Qed.
  #[local] Hint Resolve kp_next_node_for : kpdb.
  Lemma kp_start_fresh j i osid c : kp (start_fresh cf j i osid c). Proof. unfold start_fresh. kpw. Qed.
  Lemma kp_start_give j i sid : kp (start_give cf j i sid). Proof. unfold start_give. kpw. Qed.
  Lemma kp_start_preemptor j i sid : kp (start_preemptor cf j i sid). Proof. unfold start_preemptor. kpw. Qed.
  Lemma kp_biis j sid : kp (begin_interrupted_individuals_service j sid). Proof. unfold begin_interrupted_individuals_service. kpw. Qed.
  #[local] Hint Resolve kp_start_fresh kp_start_give kp_start_preemptor kp_biis : kpdb.
  Lemma kp_serve_with j sid : kp (serve_with cf j sid). Proof. unfold serve_with. kpw. Qed.
  #[local] Hint Resolve kp_serve_with : kpdb.
  Lemma kp_bsipr j freed : kp (begin_service_if_possible_release cf j freed). Proof. unfold begin_service_if_possible_release. kpw. Qed.
  Lemma kp_get_reneging_date j i : kp (get_reneging_date cf j i). Proof. unfold get_reneging_date. kpw. Qed.
  Lemma kp_block_individual j i d : kp (block_individual j i d). Proof. unfold block_individual. kpw. Qed.
  Lemma kp_preempt_victim j i : kp (preempt_victim cf j i). Proof. unfold preempt_victim. kpw. Qed.
  #[local] Hint Resolve kp_bsipr kp_get_reneging_date kp_block_individual kp_preempt_victim : kpdb.

  Lemma kp_release_body acc rbi j i d rr : (forall d' i', kp (acc d' i')) -> (forall j', kp (rbi j')) -> kp (release_body cf acc rbi j i d rr).
  Proof. intros Ha Hr. unfold release_body. kpw; first [apply Ha|apply Hr]. Qed.
  Lemma kp_rbi_body rel j : (forall a b c e, kp (rel a b c e)) -> kp (rbi_body cf rel j).
  Proof. intros Hr. unfold rbi_body. kpw; apply Hr. Qed.
  Lemma kp_accept_body pre j i : (forall a b c, kp (pre a b c)) -> kp (accept_body cf pre j i).
  Proof. intros Hp. unfold accept_body, accept_rest. kpw; apply Hp. Qed.
  Lemma kp_preempt_body rel j v i : (forall a b c e, kp (rel a b c e)) -> kp (preempt_body cf rel j v i).
  Proof. intros Hr. unfold preempt_body. kpw; apply Hr. Qed.
  Lemma kp_core : forall f, (forall j i d rr, kp (release cf f j i d rr)) /\ (forall j, kp (release_blocked_individual cf f j)) /\
                            (forall j i, kp (accept cf f j i)) /\ (forall j v i, kp (preempt cf f j v i)).
  Proof.
    induction f as [|f (IH1 & IH2 & IH3 & IH4)]; [repeat split; intros; apply kp_oof|].
    split; [|split; [|split]]; intros.
    - rewrite release_S. apply kp_release_body; assumption.
    - rewrite rbi_S. apply kp_rbi_body; assumption.
    - rewrite accept_S. apply kp_accept_body; assumption.
    - rewrite preempt_S. apply kp_preempt_body; assumption.
  Qed.
  Lemma kp_release f j i d rr : kp (release cf f j i d rr). Proof. apply kp_core. Qed.
  Lemma kp_rbi f j : kp (release_blocked_individual cf f j). Proof. apply kp_core. Qed.
  Lemma kp_accept f j i : kp (accept cf f j i). Proof. apply kp_core. Qed.
  Lemma kp_preempt f j v i : kp (preempt cf f j v i). Proof. apply kp_core. Qed.
  #[local] Hint Resolve kp_release kp_rbi kp_accept kp_preempt : kpdb.

  Lemma kp_decide_between l : kp (decide_between l). Proof. unfold decide_between. kpw. Qed.
  Lemma kp_change_customer_class j i : kp (change_customer_class cf j i). Proof. unfold change_customer_class. kpw. Qed.
  Lemma kp_has_space d : kp (has_space cf d). Proof. unfold has_space. kpw. Qed.
  #[local] Hint Resolve kp_decide_between kp_change_customer_class kp_has_space : kpdb.
  Lemma kp_finish_service j : kp (finish_service cf j). Proof. unfold finish_service. kpw. Qed.
  Lemma kp_renege j : kp (renege cf j). Proof. unfold renege. kpw. Qed.
  Lemma kp_interrupt_service f j i pre : kp (interrupt_service cf f j i pre). Proof. unfold interrupt_service. kpw. Qed.
  Lemma kp_keyed l : kp (keyed l). Proof. unfold keyed. kpw. Qed.
  #[local] Hint Resolve kp_finish_service kp_renege kp_interrupt_service kp_keyed : kpdb.
  Lemma kp_sort_interrupted_individuals j : kp (sort_interrupted_individuals j). Proof. unfold sort_interrupted_individuals. kpw. Qed.
  Lemma kp_off_duty_loop : forall k f j idx pre se, kp (off_duty_loop cf k f j idx pre se).
  Proof. induction k as [|k IH]; intros f j idx pre se; cbn [off_duty_loop]; [apply kp_ret|]. kpw; try apply IH. Qed.
  #[local] Hint Resolve kp_sort_interrupted_individuals kp_off_duty_loop : kpdb.
  Lemma kp_take_servers_off_duty f j pre : kp (take_servers_off_duty cf f j pre). Proof. unfold take_servers_off_duty. kpw. Qed.
  Lemma kp_add_new_servers : forall k j, kp (add_new_servers k j).
  Proof. induction k as [|k IH]; intros j; cbn [add_new_servers]; [apply kp_ret|]. kpw; try apply IH. Qed.
  Lemma kp_bsipcs j : kp (begin_service_if_possible_change_shift cf j). Proof. unfold begin_service_if_possible_change_shift. kpw. Qed.
  #[local] Hint Resolve kp_take_servers_off_duty kp_add_new_servers kp_bsipcs : kpdb.
  Lemma kp_change_shift j : kp (change_shift cf j). Proof. unfold change_shift. kpw. Qed.
  Lemma kp_slot_loop : forall k j, kp (slot_loop cf k j).
  Proof. induction k as [|k IH]; intros j; cbn [slot_loop]; [apply kp_ret|]. kpw; try apply IH. Qed.
  #[local] Hint Resolve kp_change_shift kp_slot_loop : kpdb.
  Lemma kp_slotted_service j : kp (slotted_service cf j). Proof. unfold slotted_service. kpw. Qed.
  Lemma kp_ccww j : kp (change_customer_class_while_waiting cf j). Proof. unfold change_customer_class_while_waiting. kpw. Qed.
  #[local] Hint Resolve kp_slotted_service kp_ccww : kpdb.
  Lemma kp_node_have_event j : kp (node_have_event cf j). Proof. unfold node_have_event. kpw. Qed.
  Lemma kp_find_next_event_date : kp find_next_event_date.
  Proof. unfold find_next_event_date. apply kp_same. intros s. destruct (find_min_dates 1 (a_dates (arr s)) (None, 0, 0)) as [[d j] c]. reflexivity. Qed.
  Lemma kp_sys_population : kp sys_population. Proof. unfold sys_population. kpw. Qed.
  Lemma kp_route_of i c : kp (route_of cf i c). Proof. unfold route_of. kpw. Qed.
  #[local] Hint Resolve kp_node_have_event kp_find_next_event_date kp_sys_population kp_route_of : kpdb.
  Lemma kp_send_individual j i : kp (send_individual cf j i). Proof. unfold send_individual. kpw. Qed.
  #[local] Hint Resolve kp_send_individual : kpdb.
  Lemma kp_release_individual j i : kp (release_individual cf j i). Proof. unfold release_individual. kpw. Qed.
  #[local] Hint Resolve kp_release_individual : kpdb.
  Lemma kp_batch_loop : forall n j c p, kp (batch_loop cf n j c p).
  Proof. induction n as [|n IH]; intros j c p; cbn [batch_loop]; [apply kp_ret|]. kpw; try apply IH. Qed.
  #[local] Hint Resolve kp_batch_loop : kpdb.
  Lemma kp_arrival_have_event : kp (arrival_have_event cf). Proof. unfold arrival_have_event. kpw. Qed.

  (* the part of event_step before the next dates are recomputed *)
  Definition have_event : M unit :=
    modify (fun s => s <| log := [] |>) ;;;
    k <- gets next_active ;;
    (if k =? 0 then arrival_have_event cf else node_have_event cf k).
  Lemma kp_have_event : kp have_event.
  Proof. unfold have_event. pose proof kp_arrival_have_event. kpw. Qed.
End KP.

Lemma event_step_inv cf s s' : event_step cf s = Ok (tt, s') ->
  exists s1 s2, have_event cf s = Ok (tt, s1) /\ update_all cf (map n_id (nodes s1)) s1 = Ok (tt, s2) /\ find_next_active_node s2 = Ok (tt, s').
Proof.
  intros H.
  assert (E : event_step cf s = (have_event cf ;;; ns <- gets nodes ;; update_all cf (map n_id ns) ;;; find_next_active_node) s).
  { unfold event_step, have_event, bind, modify, gets. reflexivity. }
  rewrite E in H. clear E. minv H u s1 E1. destruct u. minv H ns s1' E2. apply gets_inv in E2 as [-> ->]. minv H u s2 E3. destruct u.
  exists s1, s2. auto.
Qed.

Lemma Idx_have_event cf s s1 : Idx s -> have_event cf s = Ok (tt, s1) -> Idx s1.
Proof.
  intros HI H.
  exact (kp_have_event (fun ns => forall k nd, nth_error ns k = Some nd -> n_id nd = Z.of_nat k + 1) (fun ns nd => Idx_updZ ns nd) cf _ _ _ HI H).
Qed.

(* (a), the selection: after ANY event of the model, if the node that will act next is about to execute a renege, then the
   clock stands exactly at the reneging date of each customer it may pick, each of them is in that node's queue and has no
   server, and no waiting customer of that node has an earlier reneging date *)
Theorem next_renege_selected cf s s' : Idx s -> event_step cf s = Ok (tt, s') ->
  forall nd, 1 <= next_active s' -> nthZ (nodes s') (next_active s' - 1) = Some nd -> n_next_type nd = 2 ->
    n_next_date nd = Some (now s') /\ n_next_inds nd <> [] /\
    (forall i, In i (n_next_inds nd) -> In i (all_individuals nd) /\ waiting_at (inds s') i (now s')) /\
    (forall i z, In i (all_individuals nd) -> waiting_at (inds s') i z -> now s' <= z) /\
    (forall i, In i (all_individuals nd) -> exists x, find_ind i (inds s') = Some x /\ i_ren x <> XU).
Proof.
  intros HI H nd Hk Hn Hty. destruct (event_step_inv _ _ _ H) as (s1 & s2 & E1 & E2 & E3).
  pose proof (Idx_have_event _ _ _ HI E1) as HI1.
  destruct (update_all_spec _ _ _ _ HI1 E2) as (HI2 & HS & HL & HN).
  destruct (find_next_active_node_spec _ _ E3) as (N1 & N2 & _ & _ & _ & _ & _ & _ & _ & d & Hnow & _ & _ & _ & Hact).
  rewrite N1 in Hn. destruct Hact as (nd' & Hn' & Hd); [lia|]. rewrite Hn in Hn'. injection Hn' as <-.
  apply nthZ_nat in Hn as [Hk0 Hn]. destruct (HN _ _ Hn) as (nd0 & Hn0 & Hf & HU & _).
  assert (Hin : In (Z.of_nat (Z.to_nat (next_active s' - 1)) + 1) (map n_id (nodes s1))).
  { rewrite <- (HI1 _ _ Hn0). apply in_map. eapply nth_error_In; eauto. }
  destruct (HU Hin) as (nc & _ & _ & HB). destruct (HB Hty) as (_ & _ & Hscan & z & Hz).
  destruct HS as (_ & _ & _ & _ & _ & _ & HS & _). rewrite N2, HS.
  rewrite <- Hd, Hz in Hnow. rewrite Hnow.
  destruct (scan_ren_min _ _ _ _ Hscan) as (G1 & G2 & G3 & G4 & _).
  split; [exact Hz|]. split; [apply G4; rewrite Hz; discriminate|]. split; [|split; [|exact G1]].
  - intros i Hi. destruct (G3 i Hi) as (Hq & z' & Hw & Hz'). rewrite Hz in Hz'. injection Hz' as <-. auto.
  - intros i z' Hi Hw. specialize (G2 i z' Hi Hw). rewrite Hz in G2. exact G2.
Qed.

(* ---------- (a), the stamp: what Node.accept writes on the arriving customer ---------- *)
Section Stamp.
  Variable cf : config.

  Definition accepted_ind (x : ind) (j pop t : Z) (rd : xz) : ind :=
    x <| i_node := Some j |> <| i_exit := None |> <| i_blocked := false |> <| i_ocls := i_cls x |> <| i_pcls := i_cls x |>
      <| i_pprio := i_prio x |> <| i_qa := Some pop |> <| i_arr := Some t |> <| i_ren := rd |>.

  (* the reneging date written at time t, and the patience draws left (None: no draw was taken).  At a node with reneging the
     customer gets arrival date + the next patience draw if its class has a reneging distribution there, and "never" (inf)
     otherwise; at a node without reneging the attribute is not touched (it keeps whatever an earlier node wrote) *)
  Definition stamp_of (nc : ncfg) (x : ind) (t : Z) (dl : list Z) : option (xz * option (list Z)) :=
    if nc_reneging nc then
      match nthZ (nc_ren nc) (i_cls x) with
      | Some true => match dl with p :: rest => Some (XV (t + p), Some rest) | [] => None end
      | Some false => Some (XI, None)
      | None => None
      end
    else Some (i_ren x, None).

  Definition after_stamp (s : sim) (x : ind) (nd : node) (j : Z) (q : list Z) (rd : xz) (rest : option (list Z)) : sim :=
    mkSim (now s) (next_active s) (arr s)
          (updZ (nodes s) (n_id nd - 1) (nd <| n_queues := updZ (n_queues nd) (i_prio x) (q ++ [i_id x]) |> <| n_pop := n_pop nd + 1 |>))
          (exit_ids s) (exit_n s) (exit_completed s)
          (put_ind_l (accepted_ind x j (n_pop nd) (now s) rd) (inds s))
          (match rest with Some r => dr s <| d_ren := r |> | None => dr s end)
          (log s) (cyc s).

  Theorem accept_stamps pre j i s s' : accept_body cf pre j i s = Ok (tt, s') ->
    exists x nd q nc rd rest,
      find_ind i (inds s) = Some x /\ 1 <= j /\ nthZ (nodes s) (j - 1) = Some nd /\ nthZ (n_queues nd) (i_prio x) = Some q /\
      nthZ (cf_nodes cf) (j - 1) = Some nc /\ stamp_of nc x (now s) (d_ren (dr s)) = Some (rd, rest) /\
      accept_rest cf pre j i nc (after_stamp s x nd j q rd rest) = Ok (tt, s').
  Proof.
    intros H. unfold accept_body in H.
    minv H x s0 E. apply get_ind_inv in E as [-> Hx]. pose proof (find_ind_id _ _ _ Hx) as Hid.
    minv H nd s0 E. apply get_node_inv in E as (-> & Hj & Hn).
    minv H u s0 E. unfold put_ind in E. apply modify_inv in E. subst s0.
    minv H qs s0 E. apply lift_inv in E as [E ->]. destruct (nthZ (n_queues nd) (i_prio x)) as [q|] eqn:Eq; [|discriminate]. injection E as <-.
    minv H u0 s0 E. unfold put_node in E. apply modify_inv in E. subst s0.
    minv H t s0 E. apply tnow_inv in E as [-> ->].
    minv H u1 s0 E. apply upd_ind_inv in E as (x2 & Hx2 & ->). cbn [inds set] in Hx2. rewrite find_put_ind in Hx2. cbn in Hx2.
    rewrite Hid, Z.eqb_refl in Hx2. injection Hx2 as <-.
    minv H nc s0 E. apply ncfg_of_inv in E as [-> Hc].
    minv H u2 s0 E.
    exists x, nd, q, nc. unfold stamp_of, after_stamp. cbn [now set] in *.
    destruct (nc_reneging nc).
    - minv E rd s2 E'. unfold get_reneging_date in E'.
      minv E' x3 s3 E3. apply get_ind_inv in E3 as [-> Hx3]. cbn [inds set] in Hx3. rewrite find_put_ind in Hx3. cbn in Hx3.
      rewrite Hid, Z.eqb_refl in Hx3. injection Hx3 as <-.
      minv E' nc' s3 E3. apply ncfg_of_inv in E3 as [-> Hc']. rewrite Hc in Hc'. injection Hc' as <-.
      minv E' t' s3 E3. apply tnow_inv in E3 as [-> ->].
      minv E' has s3 E3. apply lift_inv in E3 as [E3 ->]. cbn in E3. rewrite E3.
      destruct has.
      + minv E' p s3 E4. unfold draw_ren in E4. cbn [dr set] in E4. destruct (d_ren (dr s)) as [|p0 rest] eqn:Ed; [discriminate|].
        injection E4 as <- <-. apply ret_inv in E' as [-> ->].
        apply upd_ind_inv in E as (x4 & Hx4 & ->). cbn [inds set] in Hx4. rewrite find_put_ind in Hx4. cbn in Hx4.
        rewrite Hid, Z.eqb_refl in Hx4. injection Hx4 as <-.
        exists (XV (now s + p0)), (Some rest). repeat (split; [first [assumption|reflexivity]|]).
        cbn in H. rewrite !put_put_ind in H by (cbn; reflexivity). rewrite Hid. exact H.
      + apply ret_inv in E' as [-> ->].
        apply upd_ind_inv in E as (x4 & Hx4 & ->). cbn [inds set] in Hx4. rewrite find_put_ind in Hx4. cbn in Hx4.
        rewrite Hid, Z.eqb_refl in Hx4. injection Hx4 as <-.
        exists XI, None. repeat (split; [first [assumption|reflexivity]|]).
        cbn in H. rewrite !put_put_ind in H by (cbn; reflexivity). rewrite Hid. exact H.
    - apply ret_inv in E as [_ ->]. exists (i_ren x), None. repeat (split; [first [assumption|reflexivity]|]).
      cbn in H. rewrite !put_put_ind in H by (cbn; reflexivity). rewrite Hid. exact H.
  Qed.
End Stamp.

(* ---------- (a), the renege event itself ---------- *)
Section RenegeSpec.
  Variable cf : config.

  (* where a reneging customer of class c goes from node j: the jockeying node of a Direct router that has one, else the exit *)
  Definition jockey_raw (j c : Z) : option Z :=
    match nthZ (cf_routing cf) c with
    | Some (RtNR rs) => match nthZ rs (j - 1) with Some (RJockey _ jk) => Some jk | Some _ => Some (-1) | None => None end
    | Some _ => Some (-1)
    | None => None
    end.
  (* Python's indexing of simulation.nodes: n service nodes, -1 = the exit *)
  Definition vdest (n d : Z) : option Z :=
    if (1 <=? d) && (d <=? n) then Some d
    else if (d =? -1) || (d =? n + 1) then Some (-1)
    else if (- (n + 1) <=? d) && (d <=? -2) then Some (n + 2 + d)
    else None.

  Lemma valid_dest_inv d a s s' : valid_dest d s = Ok (a, s') -> s' = s /\ vdest (Z.of_nat (length (nodes s))) d = Some a.
  Proof.
    unfold valid_dest, vdest. intros H. minv H nn0 s1 E. apply gets_inv in E as [-> ->].
    destruct ((1 <=? d) && (d <=? Z.of_nat (length (nodes s)))); [apply ret_inv in H as [-> ->]; auto|].
    destruct ((d =? -1) || (d =? Z.of_nat (length (nodes s)) + 1)); [apply ret_inv in H as [-> ->]; auto|].
    destruct ((- (Z.of_nat (length (nodes s)) + 1) <=? d) && (d <=? -2)); [apply ret_inv in H as [-> ->]; auto|discriminate].
  Qed.
  Lemma next_node_for_jockey j i d s s' : next_node_for cf 2 j i s = Ok (d, s') ->
    s' = s /\ exists x raw, find_ind i (inds s) = Some x /\ jockey_raw j (i_cls x) = Some raw /\ vdest (Z.of_nat (length (nodes s))) raw = Some d.
  Proof.
    unfold next_node_for. intros H. minv H x s1 E. apply get_ind_inv in E as [-> Hx].
    minv H rt s1 E. apply lift_inv in E as [Ert ->]. minv H raw s1 E.
    assert (Hraw : s1 = s /\ jockey_raw j (i_cls x) = Some raw).
    { unfold jockey_raw. rewrite Ert. destruct rt as [rs|rts|rts al ch].
      - minv E r s2 E2. apply lift_inv in E2 as [E2 ->]. rewrite E2. change (2 =? 2) with true in E. cbv iota in E.
        destruct r; apply ret_inv in E as [-> ->]; auto.
      - change (2 =? 2) with true in E. cbv iota in E. apply ret_inv in E as [-> ->]; auto.
      - change (2 =? 2) with true in E. cbv iota in E. apply ret_inv in E as [-> ->]; auto. }
    destruct Hraw as [-> Hraw]. apply valid_dest_inv in H as [-> Hv]. split; [reflexivity|]. exists x, raw. auto.
  Qed.

  Lemma decide_between_inv l a s s' : decide_between l s = Ok (a, s') ->
    In a l /\ (l = [a] /\ s' = s \/ exists u rest, d_unif (dr s) = u :: rest /\ s' = s <| dr := dr s <| d_unif := rest |> |>).
  Proof.
    unfold decide_between. destruct l as [|b [|c r]]; intros H.
    - discriminate.
    - apply ret_inv in H as [-> ->]. split; [left; reflexivity|left; auto].
    - apply choice_uniform_inv in H as [Hin R]. split; [exact Hin|right; exact R].
  Qed.

  (* reset_class_change touches the class-change clock of customer i and the class-change bookkeeping of node j, nothing else *)
  Lemma find_next_class_change_inv j s s' : find_next_class_change j s = Ok (tt, s') ->
    exists nd a b, 1 <= j /\ nthZ (nodes s) (j - 1) = Some nd /\ s' = s <| nodes := updZ (nodes s) (n_id nd - 1) (nd <| n_nccd := a |> <| n_ncci := b |>) |>.
  Proof.
    unfold find_next_class_change. intros H. minv H nd s1 E. apply get_node_inv in E as (-> & Hj & Hn).
    minv H il s1 E. apply gets_inv in E as [-> ->]. minv H r s1 E. apply lift_inv in E as [_ ->].
    unfold put_node in H. apply modify_inv in H. exists nd, (fst r), (snd r). auto.
  Qed.
  Lemma reset_class_change_inv j i s s' : reset_class_change cf j i s = Ok (tt, s') ->
    s' = s \/
    exists x, find_ind i (inds s) = Some x /\
      (s' = s <| inds := put_ind_l (x <| i_ccd := XI |>) (inds s) |> \/
       exists nd a b, 1 <= j /\ nthZ (nodes s) (j - 1) = Some nd /\
         s' = s <| inds := put_ind_l (x <| i_ccd := XI |>) (inds s) |> <| nodes := updZ (nodes s) (n_id nd - 1) (nd <| n_nccd := a |> <| n_ncci := b |>) |>).
  Proof.
    unfold reset_class_change. destruct (cf_dyn cf); intros H; [|apply ret_inv in H as [_ ->]; left; reflexivity].
    right. minv H u s1 E. apply upd_ind_inv in E as (x & Hx & ->). exists x. split; [exact Hx|].
    minv H nd s1 E. apply get_node_inv in E as (-> & Hj & Hn). cbn [nodes set] in Hn.
    destruct (n_ncci nd) as [k|]; [|apply ret_inv in H as [_ ->]; left; reflexivity].
    destruct (k =? i); [|apply ret_inv in H as [_ ->]; left; reflexivity].
    right. apply find_next_class_change_inv in H as (nd' & a & b & _ & Hn' & ->). cbn [nodes set] in Hn'. rewrite Hn in Hn'. injection Hn' as <-.
    exists nd, a, b. auto.
  Qed.

  Definition renege_rec (x : ind) (j t d pop : Z) : rec :=
    mkRec (i_id x) (i_pcls x) (i_ocls x) j 2 (i_arr x) (Some (t - numo (i_arr x))) None None None None (Some t) (Some d) (i_qa x) (Some pop) None.

  (* what node j looks like once the reneging customer has been taken out of its queue *)
  Definition left_queue (nd nd' : node) (prio : Z) (q' : list Z) : Prop :=
    n_id nd' = n_id nd /\ n_queues nd' = updZ (n_queues nd) prio q' /\ n_pop nd' = n_pop nd - 1 /\ n_insvc nd' = n_insvc nd /\
    n_servers nd' = n_servers nd /\ n_bq nd' = n_bq nd /\ n_c nd' = n_c nd.

  Theorem renege_spec j s s' : Idx s -> renege cf j s = Ok (tt, s') ->
    exists nd i x d q q' s1 s2,
      (* who: one of the customers that update_next_event_date selected (see next_renege_selected), found in the queue of its priority class *)
      1 <= j /\ nthZ (nodes s) (j - 1) = Some nd /\ In i (n_next_inds nd) /\ find_ind i (inds s) = Some x /\
      nthZ (n_queues nd) (i_pprio x) = Some q /\ remove_first i q = Some q' /\
      (* where to: the jockeying destination of its class at this node, or the exit *)
      (exists raw, jockey_raw j (i_cls x) = Some raw /\ vdest (Z.of_nat (length (nodes s))) raw = Some d) /\
      (* s1: it has left the queue, exactly one record (type 2, exit date = now) has been written, its attributes are reset *)
      log s1 = log s ++ [renege_rec x j (now s) d (n_pop nd - 1)] /\ now s1 = now s /\ Idx s1 /\
      (exists x1, find_ind i (inds s1) = Some x1 /\ i_ren x1 = XI /\ i_arr x1 = None /\ i_exit x1 = None /\ i_sst x1 = None /\
                  i_nrec x1 = i_nrec x + 1 /\ i_server x1 = i_server x /\ i_cls x1 = i_cls x) /\
      (exists nd1, nthZ (nodes s1) (j - 1) = Some nd1 /\ left_queue nd nd1 (i_pprio x) q') /\
      (* then: accepted at the destination (or the exit, not counted as completed), and node j releases a blocked customer if it can *)
      (if d =? -1 then exit_accept i false else accept cf (fuel_of s1) d i) s1 = Ok (tt, s2) /\
      release_blocked_individual cf (fuel_of s1) j s2 = Ok (tt, s').
  Proof.
    intros HI H. unfold renege in H.
    minv H t s0 E. apply tnow_inv in E as [-> ->].
    minv H nd s0 E. apply get_node_inv in E as (-> & Hj & Hn).
    minv H i s0 E. apply decide_between_inv in E as [Hin Hs0].
    assert (K0 : inds s0 = inds s /\ nodes s0 = nodes s /\ now s0 = now s /\ log s0 = log s).
    { destruct Hs0 as [[_ ->]|(u & rest & _ & ->)]; repeat split; reflexivity. }
    destruct K0 as (K1 & K2 & K3 & K4). clear Hs0.
    minv H u s1 E. apply upd_ind_inv in E as (x & Hx & ->). rewrite K1 in Hx. pose proof (find_ind_id _ _ _ Hx) as Hid.
    minv H d s1 E. apply next_node_for_jockey in E as (-> & x' & raw & Hx' & Hraw & Hv).
    cbn [inds nodes set] in Hx', Hv. rewrite find_put_ind in Hx'. cbn [i_id set] in Hx'. rewrite Hid, Z.eqb_refl in Hx'. injection Hx' as <-.
    cbn [i_cls set] in Hraw. rewrite K2 in Hv.
    minv H x2 s1 E. apply get_ind_inv in E as (-> & Hx2). cbn [inds set] in Hx2. rewrite find_put_ind in Hx2. cbn [i_id set] in Hx2.
    rewrite Hid, Z.eqb_refl in Hx2. injection Hx2 as <-.
    minv H nd1 s1 E. apply get_node_inv in E as (-> & _ & Hn1). cbn [nodes set] in Hn1. rewrite K2, Hn in Hn1. injection Hn1 as <-.
    minv H q s1 E. apply lift_inv in E as [Eq ->]. cbn [i_pprio set] in Eq.
    minv H q' s1 E. apply lift_inv in E as [Eq' ->].
    cbv zeta in H. cbn [i_pprio set] in H.
    minv H u0 s1 E. unfold put_node in E. apply modify_inv in E. subst s1.
    set (nd2 := nd <| n_queues := updZ (n_queues nd) (i_pprio x) q' |> <| n_pop := n_pop nd - 1 |>) in *.
    set (xa := x <| i_ren := XI |>) in *.
    set (sa := s0 <| inds := put_ind_l xa (inds s0) |> <| nodes := updZ (nodes (s0 <| inds := put_ind_l xa (inds s0) |>)) (n_id nd2 - 1) nd2 |>) in *.
    pose proof (Idx_get _ _ _ HI Hj Hn) as Hidn.
    assert (Hna : nthZ (nodes sa) (j - 1) = Some nd2).
    { unfold sa. cbn [nodes set]. rewrite K2. change (n_id nd2) with (n_id nd). rewrite Hidn.
      apply nthZ_nat in Hn as [Hj0 Hn]. unfold updZ, nthZ. destruct (j - 1 <? 0) eqn:Ej; [apply Z.ltb_lt in Ej; lia|]. eapply nth_error_upd_eq; eauto. }
    assert (HIa : Idx sa).
    { unfold Idx, sa. cbn [nodes set]. rewrite K2. apply Idx_updZ. exact HI. }
    assert (Hxa : find_ind i (inds sa) = Some xa).
    { unfold sa. cbn [inds set]. rewrite find_put_ind. cbn [i_id set xa]. rewrite Hid, Z.eqb_refl. reflexivity. }
    minv H u1 sb E. destruct u1.
    (* the state after reset_class_change: customer i differs from xa at most in its class-change date, node j at most in its class-change bookkeeping *)
    assert (Hb : exists xb ndb, find_ind i (inds sb) = Some xb /\ (xb = xa \/ xb = xa <| i_ccd := XI |>) /\
                   nthZ (nodes sb) (j - 1) = Some ndb /\ left_queue nd ndb (i_pprio x) q' /\ Idx sb /\ log sb = log s /\ now sb = now s).
    { assert (LQ : left_queue nd nd2 (i_pprio x) q') by (unfold left_queue, nd2; cbn; repeat split; reflexivity).
      assert (La : log sa = log s) by (unfold sa; cbn; exact K4). assert (Ta : now sa = now s) by (unfold sa; cbn; exact K3).
      apply reset_class_change_inv in E as [->|(x3 & Hx3 & [->|(nd3 & a & b & _ & Hn3 & ->)])].
      - exists xa, nd2. repeat split; auto.
      - rewrite Hxa in Hx3. injection Hx3 as <-. exists (xa <| i_ccd := XI |>), nd2. cbn [inds nodes set log now]. rewrite find_put_ind. cbn [i_id set xa]. rewrite Hid, Z.eqb_refl.
        repeat split; auto.
      - rewrite Hxa in Hx3. injection Hx3 as <-. rewrite Hna in Hn3. injection Hn3 as <-.
        exists (xa <| i_ccd := XI |>), (nd2 <| n_nccd := a |> <| n_ncci := b |>). cbn [inds nodes set log now]. rewrite find_put_ind. cbn [i_id set xa]. rewrite Hid, Z.eqb_refl.
        split; [reflexivity|]. split; [right; reflexivity|]. split.
        { change (n_id nd2) with (n_id nd). rewrite Hidn. destruct (nthZ_nat _ _ _ Hna) as [Hj0 Hna'].
          unfold updZ, nthZ. destruct (j - 1 <? 0) eqn:Ej; [apply Z.ltb_lt in Ej; lia|]. eapply nth_error_upd_eq; eauto. }
        split; [unfold left_queue, nd2; cbn; repeat split; reflexivity|]. split; [|auto].
        unfold Idx. cbn [nodes set]. change (n_id nd2) with (n_id (nd2 <| n_nccd := a |> <| n_ncci := b |>)). apply Idx_updZ. exact HIa. }
    destruct Hb as (xb & ndb & Hxb & Hxb' & Hnb & LQb & HIb & Lb & Tb). clear E.
    assert (Hidb : i_id xb = i) by (destruct Hxb' as [->| ->]; cbn; exact Hid).
    minv H u2 s3 E. apply upd_ind_inv in E as (x3 & Hx3 & ->). rewrite Hxb in Hx3. injection Hx3 as <-.
    minv H u3 s3 E. unfold write_reneging_record in E. minv E x4 s4 E4. apply get_ind_inv in E4 as [-> Hx4].
    cbn [inds set] in Hx4. rewrite find_put_ind in Hx4. cbn [i_id set] in Hx4. rewrite Hidb, Z.eqb_refl in Hx4. injection Hx4 as <-.
    minv E u4 s4 E4. unfold log_rec in E4. apply modify_inv in E4. subst s4.
    unfold bump_rec in E. apply upd_ind_inv in E as (x5 & Hx5 & ->). cbn [inds set] in Hx5. rewrite find_put_ind in Hx5. cbn [i_id set] in Hx5.
    rewrite Hidb, Z.eqb_refl in Hx5. injection Hx5 as <-.
    minv H u5 s3 E. unfold reset_individual_attributes in E. apply upd_ind_inv in E as (x6 & Hx6 & ->).
    cbn [inds set] in Hx6. rewrite find_put_ind in Hx6. cbn [i_id set] in Hx6. rewrite Hidb, Z.eqb_refl in Hx6. injection Hx6 as <-.
    minv H fl s3 E. apply gets_inv in E as [-> ->].
    minv H u6 s2 E.
    match type of E with _ ?st = _ => set (s1 := st) in * end.
    exists nd, i, x, d, q, q', s1, s2.
    split; [exact Hj|]. split; [exact Hn|]. split; [exact Hin|]. split; [exact Hx|]. split; [exact Eq|]. split; [exact Eq'|].
    split; [exists raw; auto|].
    assert (Hpop : n_pop nd2 = n_pop nd - 1) by reflexivity.
    split.
    { unfold s1. cbn [log set]. rewrite Lb. f_equal. f_equal. unfold renege_rec.
      destruct Hxb' as [->| ->]; cbn; rewrite Hid; reflexivity. }
    split; [unfold s1; cbn; exact Tb|]. split; [unfold s1, Idx; cbn [nodes set]; exact HIb|].
    split.
    { eexists. split; [unfold s1; cbn [inds set]; rewrite find_put_ind; cbn [i_id set]; rewrite Hidb, Z.eqb_refl; reflexivity|].
      destruct Hxb' as [->| ->]; cbn; repeat split; reflexivity. }
    split; [exists ndb; split; [unfold s1; cbn [nodes set]; exact Hnb|exact LQb]|].
    destruct u6. split; [exact E|exact H].
  Qed.
End RenegeSpec.

(* ================================================================================================================ *)
(* Part 3: reneging over runs (scope: no pre-emption of any kind)                                                   *)
(* ================================================================================================================ *)

(* ---------- list facts ---------- *)
Lemma ids_put_ind x l k : In k (map i_id (put_ind_l x l)) -> k = i_id x \/ In k (map i_id l).
Proof.
  induction l as [|y r IH]; cbn; [intros [<-|[]]; left; reflexivity|].
  destruct (i_id y =? i_id x) eqn:E; cbn.
  - intros [<-|H]; [left; reflexivity|right; right; exact H].
  - intros [<-|H]; [right; left; reflexivity|]. destruct (IH H); [left|right; right]; assumption.
Qed.
Lemma NoDup_put_ind x l : NoDup (map i_id l) -> NoDup (map i_id (put_ind_l x l)).
Proof.
  induction l as [|y r IH]; cbn; intros H; [constructor; [intros []|constructor]|].
  inversion H as [|? ? Hn Hd]; subst. destruct (i_id y =? i_id x) eqn:E; cbn.
  - apply Z.eqb_eq in E. rewrite <- E. exact H.
  - apply Z.eqb_neq in E. constructor; [|apply IH; exact Hd]. intros Hin. destruct (ids_put_ind _ _ _ Hin) as [He|Hi]; [exact (E He)|exact (Hn Hi)].
Qed.
Lemma Forall_put_ind (P : ind -> Prop) x l : NoDup (map i_id l) -> (forall y, In y l -> i_id y <> i_id x -> P y) -> P x -> Forall P (put_ind_l x l).
Proof.
  intros Hnd HP Hx. induction l as [|y r IH]; cbn; [constructor; [exact Hx|constructor]|].
  inversion Hnd as [|? ? Hn Hd]; subst. destruct (i_id y =? i_id x) eqn:E.
  - apply Z.eqb_eq in E. constructor; [exact Hx|]. apply Forall_forall. intros w Hw. apply HP; [right; exact Hw|].
    intros Ew. apply Hn. rewrite E, <- Ew. apply in_map. exact Hw.
  - apply Z.eqb_neq in E. constructor; [apply HP; [left; reflexivity|exact E]|]. apply IH; [exact Hd|]. intros w Hw. apply HP. right. exact Hw.
Qed.
Lemma In_del_ind k l y : In y (del_ind_l k l) -> In y l.
Proof. induction l as [|w r IH]; cbn; [tauto|]. destruct (i_id w =? k); [intros H; right; exact H|intros [<-|H]; [left; reflexivity|right; auto]]. Qed.
Lemma NoDup_del_ind k l : NoDup (map i_id l) -> NoDup (map i_id (del_ind_l k l)) /\ forall y, In y (del_ind_l k l) -> i_id y <> k.
Proof.
  induction l as [|w r IH]; cbn; intros H; [split; [constructor|intros y []]|].
  inversion H as [|? ? Hn Hd]; subst. destruct (i_id w =? k) eqn:E.
  - apply Z.eqb_eq in E. split; [exact Hd|]. intros y Hy Ey. apply Hn. rewrite E, <- Ey. apply in_map. exact Hy.
  - apply Z.eqb_neq in E. destruct (IH Hd) as [IH1 IH2]. split.
    + cbn. constructor; [|exact IH1]. intros Hin. apply Hn. apply in_map_iff in Hin as (z & Hz & Hin). apply in_map_iff. exists z. split; [exact Hz|eapply In_del_ind; eauto].
    + intros y [<-|Hy]; [exact E|apply IH2; exact Hy].
Qed.
Lemma find_ind_NoDup l x : NoDup (map i_id l) -> In x l -> find_ind (i_id x) l = Some x.
Proof.
  induction l as [|w r IH]; cbn; intros Hnd Hin; [destruct Hin|]. inversion Hnd as [|? ? Hn Hd]; subst.
  destruct Hin as [->|Hin]; [rewrite Z.eqb_refl; reflexivity|].
  destruct (i_id w =? i_id x) eqn:E; [|apply IH; assumption]. apply Z.eqb_eq in E. exfalso. apply Hn. rewrite E. apply in_map. exact Hin.
Qed.

(* replacing one inner list of a list of lists *)
Lemma concat_upd_split {A} : forall (qs : list (list A)) n q, nth_error qs n = Some q ->
  forall new, exists R, Permutation (concat qs) (q ++ R) /\ Permutation (concat (upd qs n new)) (new ++ R).
Proof.
  induction qs as [|a qs IH]; intros [|n] q H new; cbn in H; try discriminate.
  - injection H as <-. exists (concat qs). cbn. split; reflexivity.
  - destruct (IH _ _ H new) as (R & P1 & P2). exists (a ++ R). cbn. split.
    + rewrite P1. rewrite !app_assoc. apply Permutation_app_tail. apply Permutation_app_comm.
    + rewrite P2. rewrite !app_assoc. apply Permutation_app_tail. apply Permutation_app_comm.
Qed.
Lemma remove_first_perm i : forall q q', remove_first i q = Some q' -> Permutation q (i :: q').
Proof.
  induction q as [|h r IH]; intros q' H; cbn in H; [discriminate|]. destruct (h =? i) eqn:E.
  - apply Z.eqb_eq in E. injection H as <-. rewrite E. reflexivity.
  - destruct (remove_first i r) as [r'|]; [|discriminate]. cbn in H. injection H as <-. rewrite (IH _ eq_refl). apply perm_swap.
Qed.
Lemma concat_remove (qs : list (list Z)) a q q' i : nthZ qs a = Some q -> remove_first i q = Some q' -> Permutation (concat qs) (i :: concat (updZ qs a q')).
Proof.
  intros Hq Hr. destruct (nthZ_nat _ _ _ Hq) as [Ha Hn]. unfold updZ. destruct (a <? 0) eqn:E; [apply Z.ltb_lt in E; lia|].
  destruct (concat_upd_split _ _ _ Hn q') as (R & P1 & P2). rewrite P1, P2. rewrite (remove_first_perm _ _ _ Hr). reflexivity.
Qed.
Lemma concat_append (qs : list (list Z)) a q i : nthZ qs a = Some q -> Permutation (concat (updZ qs a (q ++ [i]))) (i :: concat qs).
Proof.
  intros Hq. destruct (nthZ_nat _ _ _ Hq) as [Ha Hn]. unfold updZ. destruct (a <? 0) eqn:E; [apply Z.ltb_lt in E; lia|].
  destruct (concat_upd_split _ _ _ Hn (q ++ [i])) as (R & P1 & P2). rewrite P1, P2. rewrite <- app_assoc. cbn.
  symmetry. apply Permutation_middle.
Qed.

(* ---------- the invariant during one event ---------- *)
(* a customer in transit: taken out of its queue (TOut), and its record written (TRec); it is then in no queue and the
   clauses about waiting customers do not speak of it until Node.accept has stamped it again (or the exit has taken it) *)
Inductive transit := TNone | TOut (k : Z) | TRec (k : Z).
Definition out (tr : transit) (i : Z) : bool := match tr with TNone => false | TOut k | TRec k => k =? i end.

Definition sp {A} (I J : sim -> Prop) (m : M A) (phi : A -> Prop) : Prop :=
  forall s a s', I s -> m s = Ok (a, s') -> J s' /\ phi a.
Definition top {A} : A -> Prop := fun _ => True.
Lemma sp_bind {A B} (I J K : sim -> Prop) (m : M A) (f : A -> M B) phi psi :
  sp I J m phi -> (forall a, phi a -> sp J K (f a) psi) -> sp I K (bind m f) psi.
Proof. intros Hm Hf s b s' HI H. minv H a s1 E. destruct (Hm _ _ _ HI E) as [HJ Hp]. eapply Hf; eauto. Qed.
Lemma sp_weaken {A} (I J : sim -> Prop) (m : M A) (phi psi : A -> Prop) : sp I J m phi -> (forall a, phi a -> psi a) -> sp I J m psi.
Proof. intros H W s a s' HI E. destruct (H _ _ _ HI E). auto. Qed.
Lemma sp_top {A} (I J : sim -> Prop) (m : M A) phi : sp I J m phi -> sp I J m top.
Proof. intros H. eapply sp_weaken; [exact H|intros; exact Logic.I]. Qed.
Lemma sp_post {A} (I J J' : sim -> Prop) (m : M A) phi : sp I J m phi -> (forall s, J s -> J' s) -> sp I J' m phi.
Proof. intros H W s a s' HI E. destruct (H _ _ _ HI E). auto. Qed.
Lemma sp_pre {A} (I I' J : sim -> Prop) (m : M A) phi : sp I J m phi -> (forall s, I' s -> I s) -> sp I' J m phi.
Proof. intros H W s a s' HI E. apply (H _ _ _ (W _ HI) E). Qed.
Lemma sp_ret {A} (I : sim -> Prop) (a : A) (phi : A -> Prop) : phi a -> sp I I (ret a) phi.
Proof. intros P s b s' HI H. apply ret_inv in H as [-> ->]. auto. Qed.
Lemma sp_fail {A} (I J : sim -> Prop) e (phi : A -> Prop) : sp I J (@fail A e) phi.
Proof. intros s a s' _ H. discriminate. Qed.
Lemma sp_oof {A} (I J : sim -> Prop) (phi : A -> Prop) : sp I J (@oof A) phi.
Proof. intros s a s' _ H. discriminate. Qed.
Lemma sp_lift {A} (I : sim -> Prop) e (o : option A) : sp I I (lift e o) (fun a => o = Some a).
Proof. intros s a s' HI H. apply lift_inv in H as [-> ->]. auto. Qed.
Lemma sp_gets {A} (I : sim -> Prop) (f : sim -> A) : sp I I (gets f) top.
Proof. intros s a s' HI H. apply gets_inv in H as [-> ->]. split; [exact HI|exact Logic.I]. Qed.
Lemma sp_mapM {A B} (I : sim -> Prop) (f : A -> M B) l : (forall a, sp I I (f a) top) -> sp I I (mapM f l) top.
Proof.
  intros Hf. induction l as [|a r IH]; cbn [mapM]; [apply sp_ret; exact Logic.I|].
  eapply sp_bind; [apply Hf|]. intros b _. eapply sp_bind; [exact IH|]. intros bs _. apply sp_ret. exact Logic.I.
Qed.
Lemma sp_forM {A} (I : sim -> Prop) (f : A -> M unit) l : (forall a, sp I I (f a) top) -> sp I I (forM_ l f) top.
Proof. intros Hf. induction l as [|a r IH]; cbn [forM_]; [apply sp_ret; exact Logic.I|]. eapply sp_bind; [apply Hf|]. intros _ _. exact IH. Qed.

Section RenInv.
  Variable cf : config.
  Variable inf_at : Z -> bool.              (* which nodes have infinitely many servers (fixed during a run) *)
  Variable t : Z.                           (* the date of the event in progress *)
  Variable nn : nat.                        (* the number of nodes *)
  Variable fr : option (Z * Z * Z * Z).     (* the frame claim: customer i0 had arrival date a0 and reneging date z0 when its record count was n0 *)

  (* the scope: no priority pre-emption, no pre-emptive schedule, no pre-emptive capacitated slot *)
  Definition nopre_nc (nc : ncfg) : bool :=
    (nc_preempt nc =? 0) &&
    match nc_srv nc with SFixed => true | SSched sc => sc_pre sc =? 0 | SSlot sl => negb (sl_cap sl && negb (sl_pre sl =? 0)) end.
  Definition nopre (c : config) : bool := forallb nopre_nc (cf_nodes c).
  Hypothesis Hpre : nopre cf = true.
  (* a node with a server schedule has finitely many servers *)
  Hypothesis Hsch : forall j nc sc, nthZ (cf_nodes cf) (j - 1) = Some nc -> nc_srv nc = SSched sc -> inf_at j = false.

  Definition ren_at (j : Z) : bool := match nthZ (cf_nodes cf) (j - 1) with Some nc => nc_reneging nc | None => false end.

  (* a customer at a node with reneging: its reneging date has been set, is not before its arrival, and if it has no server it
     has not passed *)
  Definition wait_ok (x : ind) : Prop :=
    i_ren x <> XU /\ forall z, i_ren x = XV z -> (exists a, i_arr x = Some a /\ a <= z) /\ (i_server x = None -> t <= z).
  Definition IP (x : ind) : Prop := forall j, i_node x = Some j -> ren_at j = true -> inf_at j = false -> wait_ok x.

  Definition Held (a0 z0 n0 : Z) (x : ind) : Prop := n0 <= i_nrec x /\ (i_nrec x = n0 -> i_arr x = Some a0 /\ i_ren x = XV z0).
  Definition FR (tr : transit) (x : ind) : Prop :=
    match fr with
    | None => True
    | Some (i0, a0, z0, n0) =>
      i_id x = i0 ->
      match tr with
      | TNone => Held a0 z0 n0 x
      | TOut k => if k =? i0 then n0 <= i_nrec x else Held a0 z0 n0 x
      | TRec k => if k =? i0 then n0 < i_nrec x else Held a0 z0 n0 x
      end
    end.

  Definition IndOK (loc : Z -> option Z) (tr : transit) (cr : Z) (x : ind) : Prop :=
    i_id x <= cr /\
    (out tr (i_id x) = false -> (exists j, i_node x = Some j /\ loc (i_id x) = Some j) /\ IP x) /\
    FR tr x.
  Definition NodeOK (loc : Z -> option Z) (tr : transit) (cr : Z) (nd : node) : Prop :=
    nd_inf nd = inf_at (n_id nd) /\ NoDup (all_individuals nd) /\
    (forall id, In id (all_individuals nd) -> id <= cr /\ out tr id = false /\ loc id = Some (n_id nd)) /\
    (forall id, out tr id = false -> loc id = Some (n_id nd) -> In id (all_individuals nd)).

  Definition Inv (loc : Z -> option Z) (tr : transit) (cr : Z) (s : sim) : Prop :=
    now s = t /\ a_created (arr s) = cr /\ length (nodes s) = nn /\ Idx s /\ NoDup (map i_id (inds s)) /\
    Forall (IndOK loc tr cr) (inds s) /\
    (forall k nd, nth_error (nodes s) k = Some nd -> NodeOK loc tr cr nd) /\
    (forall id j, loc id = Some j -> 1 <= j <= Z.of_nat nn) /\
    Forall (fun p => 0 <= p) (d_ren (dr s)) /\
    (match fr with Some (i0, _, _, _) => i0 <= cr | None => True end).

  (* ---------- harmless updates ---------- *)
  Definition irel (x x' : ind) : Prop :=
    i_id x' = i_id x /\ i_node x' = i_node x /\ i_ren x' = i_ren x /\ i_arr x' = i_arr x /\ i_nrec x <= i_nrec x' /\
    (i_server x' = None -> i_server x = None).
  Lemma Held_mono a0 z0 n0 x x' : Held a0 z0 n0 x -> i_ren x' = i_ren x -> i_arr x' = i_arr x -> i_nrec x <= i_nrec x' -> Held a0 z0 n0 x'.
  Proof. intros [H1 H2] Er Ea Hn. split; [lia|]. intros E. rewrite Er, Ea. apply H2. lia. Qed.
  Lemma IndOK_irel loc tr cr x x' : IndOK loc tr cr x -> irel x x' -> IndOK loc tr cr x'.
  Proof.
    intros (A & B & C) (E1 & E2 & E3 & E4 & E5 & E6). unfold IndOK. rewrite E1. split; [exact A|]. split.
    - intros Ho. destruct (B Ho) as [(j & Hj & Hl) HP]. split; [exists j; rewrite E2; auto|].
      intros j' Hj' Hr Hi. rewrite E2 in Hj'. destruct (HP j' Hj' Hr Hi) as [W1 W2]. split; [rewrite E3; exact W1|].
      intros z Hz. rewrite E3 in Hz. destruct (W2 z Hz) as [W3 W4]. rewrite E4. split; [exact W3|]. intros Hs. apply W4. apply E6. exact Hs.
    - unfold FR in *. destruct fr as [[[[i0 a0] z0] n0]|]; [|exact Logic.I]. rewrite E1. intros Hi. specialize (C Hi).
      destruct tr as [|k|k]; [eapply Held_mono; eauto| |]; (destruct (k =? i0); [lia|eapply Held_mono; eauto]).
  Qed.
  (* any update of the customer in transit that does not lower its record count *)
  Lemma IndOK_orel loc tr cr x x' : IndOK loc tr cr x -> out tr (i_id x) = true -> i_id x' = i_id x -> i_nrec x <= i_nrec x' -> IndOK loc tr cr x'.
  Proof.
    intros (A & B & C) Ho E1 E5. unfold IndOK. rewrite E1. split; [exact A|]. split; [rewrite Ho; discriminate|].
    unfold FR in *. destruct fr as [[[[i0 a0] z0] n0]|]; [|exact Logic.I]. rewrite E1. intros Hi. specialize (C Hi).
    destruct tr as [|k|k]; cbn in Ho; [discriminate| |]; apply Z.eqb_eq in Ho; rewrite Ho, Hi, Z.eqb_refl in *; lia.
  Qed.
  Lemma NodeOK_nrel loc tr cr nd nd' : NodeOK loc tr cr nd -> n_id nd' = n_id nd -> n_queues nd' = n_queues nd -> nd_inf nd' = nd_inf nd -> NodeOK loc tr cr nd'.
  Proof. unfold NodeOK, all_individuals. intros H -> -> ->. exact H. Qed.
  Lemma NodeOK_perm loc tr cr nd nd' : NodeOK loc tr cr nd -> n_id nd' = n_id nd -> Permutation (all_individuals nd) (all_individuals nd') -> nd_inf nd' = nd_inf nd -> NodeOK loc tr cr nd'.
  Proof.
    unfold NodeOK. intros (A & B & C & D) E1 P E3. rewrite E1, E3. split; [exact A|]. split; [eapply Permutation_NoDup; eauto|]. split.
    - intros id Hin. apply C. eapply Permutation_in; [symmetry; exact P|exact Hin].
    - intros id Ho Hl. eapply Permutation_in; [exact P|]. apply D; assumption.
  Qed.

    (* ---------- tactics for the walk ---------- *)
  Ltac nodeok :=
    match goal with
    | H : NodeOK ?l ?r ?c ?nd |- NodeOK ?l ?r ?c _ => solve [ apply (NodeOK_nrel l r c nd _ H); reflexivity ]
    end.
  Ltac irel_tac := unfold irel; cbn; repeat split; first [ reflexivity | lia | (intro; assumption) | (intro; discriminate) ].
  Ltac indok :=
    match goal with
    | H : IndOK ?l ?r ?c ?x |- IndOK ?l ?r ?c _ => solve [ apply (IndOK_irel l r c x _ H); irel_tac ]
    | H : IndOK ?l ?r ?c ?x, Ho : out ?r ?i = true, Hi : i_id ?x = ?i |- IndOK ?l ?r ?c _ =>
      solve [ apply (IndOK_orel l r c x _ H); [rewrite Hi; exact Ho|reflexivity|cbn; lia] ]
    end.
  Ltac sp_intro :=
    let a := fresh "v" in let H := fresh "F" in
    intros a H; cbv beta in H;
    try match type of H with _ /\ _ => let H1 := fresh "F" in let H2 := fresh "F" in destruct H as [H1 H2] end;
    try match type of H with a = _ => subst a end.


  Section Small.
    Variables (loc : Z -> option Z) (tr : transit) (cr : Z).
    Notation I := (Inv loc tr cr).
    Notation spI := (sp I I).

    Lemma Inv_same s s' : I s -> now s' = now s -> a_created (arr s') = a_created (arr s) -> nodes s' = nodes s -> inds s' = inds s ->
      Forall (fun p => 0 <= p) (d_ren (dr s')) -> I s'.
    Proof. unfold Inv, Idx. intros (A & B & C & D & E & F & G & H & K & L) E1 E2 E3 E4 HD. rewrite E1, E2, E3, E4. repeat (split; [assumption|]). assumption. Qed.
    Lemma spI_same (f : sim -> sim) :
      (forall s, now (f s) = now s /\ a_created (arr (f s)) = a_created (arr s) /\ nodes (f s) = nodes s /\ inds (f s) = inds s /\ d_ren (dr (f s)) = d_ren (dr s)) ->
      spI (modify f) top.
    Proof.
      intros Hf s a s' HI H. apply modify_inv in H. subst s'. destruct (Hf s) as (E1 & E2 & E3 & E4 & E5). split; [|exact Logic.I].
      eapply Inv_same; eauto. rewrite E5. apply HI.
    Qed.
    Lemma spI_tnow : spI tnow (fun a => a = t).
    Proof. intros s a s' HI H. apply tnow_inv in H as [-> ->]. split; [exact HI|apply HI]. Qed.
    Lemma spI_get_node j : spI (get_node j) (fun nd => NodeOK loc tr cr nd /\ n_id nd = j).
    Proof.
      intros s nd s' HI H. apply get_node_inv in H as (-> & Hj & Hn). split; [exact HI|]. destruct HI as (_ & _ & _ & HX & _ & _ & HN & _).
      split; [|eapply Idx_get; eauto]. apply nthZ_nat in Hn as [_ Hn]. eapply HN; eauto.
    Qed.
    Lemma spI_get_ind i : spI (get_ind i) (fun x => IndOK loc tr cr x /\ i_id x = i).
    Proof.
      intros s x s' HI H. apply get_ind_inv in H as (-> & Hx). split; [exact HI|]. destruct HI as (_ & _ & _ & _ & _ & HF & _).
      split; [|eapply find_ind_id; eauto]. rewrite Forall_forall in HF. apply HF. eapply find_ind_In; eauto.
    Qed.
    Lemma Inv_put_node s nd : I s -> NodeOK loc tr cr nd -> I (s <| nodes := updZ (nodes s) (n_id nd - 1) nd |>).
    Proof.
      intros (A & B & C & D & E & F & G & H & K & L) Hnd. unfold Inv. cbn [now arr nodes inds dr set].
      split; [exact A|]. split; [exact B|]. split; [rewrite length_updZ; exact C|]. split; [unfold Idx; cbn [nodes set]; apply Idx_updZ; exact D|].
      split; [exact E|]. split; [exact F|]. split; [|auto].
      intros k x Hk. unfold updZ in Hk. destruct (n_id nd - 1 <? 0); [eapply G; eauto|].
      destruct (nth_error_upd_cases _ _ _ _ _ Hk) as [[_ ->]|[_ Hk']]; [exact Hnd|eapply G; eauto].
    Qed.
    Lemma spI_put_node nd : NodeOK loc tr cr nd -> spI (put_node nd) top.
    Proof. intros Hnd s a s' HI H. unfold put_node in H. apply modify_inv in H. subst s'. split; [apply Inv_put_node; assumption|exact Logic.I]. Qed.
    Lemma Inv_put_ind s x : I s -> IndOK loc tr cr x -> I (s <| inds := put_ind_l x (inds s) |>).
    Proof.
      intros (A & B & C & D & E & F & G & H & K & L) Hx. unfold Inv. cbn [now arr nodes inds dr set].
      repeat (split; [assumption|]). split; [apply NoDup_put_ind; exact E|]. split; [|auto].
      apply Forall_put_ind; [exact E| |exact Hx]. intros y Hy _. rewrite Forall_forall in F. apply F. exact Hy.
    Qed.
    Lemma spI_put_ind x : IndOK loc tr cr x -> spI (put_ind x) top.
    Proof. intros Hx s a s' HI H. unfold put_ind in H. apply modify_inv in H. subst s'. split; [apply Inv_put_ind; assumption|exact Logic.I]. Qed.
    Lemma spI_log_rec r : spI (log_rec r) top.
    Proof. apply spI_same. intros s. repeat split; reflexivity. Qed.
    Lemma spI_draw_arr : spI draw_arr top.
    Proof. intros s a s' HI H. unfold draw_arr in H. destruct (d_arr (dr s)); inversion H. subst. split; [|exact Logic.I]. eapply Inv_same; eauto. apply HI. Qed.
    Lemma spI_draw_batch : spI draw_batch top.
    Proof. intros s a s' HI H. unfold draw_batch in H. destruct (d_batch (dr s)); inversion H. subst. split; [|exact Logic.I]. eapply Inv_same; eauto. apply HI. Qed.
    Lemma spI_draw_svc : spI draw_svc top.
    Proof. intros s a s' HI H. unfold draw_svc in H. destruct (d_svc (dr s)); inversion H. subst. split; [|exact Logic.I]. eapply Inv_same; eauto. apply HI. Qed.
    Lemma spI_draw_unif : spI draw_unif top.
    Proof. intros s a s' HI H. unfold draw_unif in H. destruct (d_unif (dr s)); inversion H. subst. split; [|exact Logic.I]. eapply Inv_same; eauto. apply HI. Qed.
    Lemma spI_draw_cct : spI draw_cct top.
    Proof. intros s a s' HI H. unfold draw_cct in H. destruct (d_cct (dr s)); inversion H. subst. split; [|exact Logic.I]. eapply Inv_same; eauto. apply HI. Qed.
    Lemma spI_ncfg_of j : spI (ncfg_of cf j) (fun nc => nthZ (cf_nodes cf) (j - 1) = Some nc).
    Proof. apply sp_lift. Qed.

    Lemma spI_upd_ind i f : (forall x, i_id x = i -> IndOK loc tr cr x -> IndOK loc tr cr (f x)) -> spI (upd_ind i f) top.
    Proof. intros Hf. unfold upd_ind. eapply sp_bind; [apply spI_get_ind|]. intros x [Hx Hi]. apply spI_put_ind. apply Hf; assumption. Qed.
    Lemma spI_upd_node j f : (forall nd, n_id nd = j -> NodeOK loc tr cr nd -> NodeOK loc tr cr (f nd)) -> spI (upd_node j f) top.
    Proof. intros Hf. unfold upd_node. eapply sp_bind; [apply spI_get_node|]. intros nd [Hn Hj]. apply spI_put_node. apply Hf; assumption. Qed.

    Ltac sp_prim m :=
      lazymatch m with
      | tnow => apply spI_tnow
      | get_node _ => apply spI_get_node
      | get_ind _ => apply spI_get_ind
      | ncfg_of _ _ => apply spI_ncfg_of
      | lift _ _ => apply sp_lift
      | gets _ => apply sp_gets
      | draw_arr => apply spI_draw_arr
      | draw_batch => apply spI_draw_batch
      | draw_svc => apply spI_draw_svc
      | draw_unif => apply spI_draw_unif
      | draw_cct => apply spI_draw_cct
      | log_rec _ => apply spI_log_rec
      | put_node _ => apply spI_put_node; nodeok
      | put_ind _ => apply spI_put_ind; indok
      | upd_ind _ _ => apply spI_upd_ind; intros; indok
      | upd_node _ _ => apply spI_upd_node; intros; nodeok
      | modify _ => apply spI_same; intros ?; repeat split; reflexivity
      | forM_ _ _ => apply sp_forM; intros ?
      | mapM _ _ => apply sp_mapM; intros ?
      end.
    (* sp_fun: the lemmas about engine functions proved so far (extended as we go) *)
    Ltac sp_fun0 m := fail.
    Ltac sp_step_with sp_fun :=
      lazymatch goal with
      | |- sp _ _ (ret _) _ => apply sp_ret; exact Logic.I
      | |- sp _ _ (fail _) _ => apply sp_fail
      | |- sp _ _ oof _ => apply sp_oof
      | |- sp _ _ (bind (match _ with _ => _ end) _) _ => eapply sp_bind with (phi := top); [|intros ? _]
      | |- sp _ _ (bind (if _ then _ else _) _) _ => eapply sp_bind with (phi := top); [|intros ? _]
      | |- sp _ _ (bind ?m _) _ => eapply sp_bind; [first [sp_prim m | sp_fun m]|sp_intro]
      | |- sp _ _ (if ?b then _ else _) _ => destruct b
      | |- sp _ _ (match ?x with _ => _ end) _ => first [progress cbv iota beta | destruct x]
      | |- sp _ _ ?m _ => first [sp_prim m | sp_fun m | (eapply sp_top; first [sp_prim m | sp_fun m])]
      end.

    Lemma spI_choice_uniform {A} (l : list A) : spI (choice_uniform l) top.
    Proof. unfold choice_uniform. repeat sp_step_with sp_fun0. Qed.
    Lemma spI_choice_weighted den Pw : spI (choice_weighted den Pw) top.
    Proof. unfold choice_weighted. repeat sp_step_with sp_fun0. Qed.
    Ltac sp_fun1 m :=
      lazymatch m with
      | @choice_uniform _ _ => apply spI_choice_uniform
      | choice_weighted _ _ => apply spI_choice_weighted
      | _ => sp_fun0 m
      end.
    Lemma spI_choose_next_customer j : spI (choose_next_customer cf j) top.
    Proof. unfold choose_next_customer. repeat sp_step_with sp_fun1. Qed.
    Lemma spI_upd_server j sid f : spI (upd_server j sid f) top.
    Proof. unfold upd_server. repeat sp_step_with sp_fun1. Qed.
    Lemma spI_find_next_class_change j : spI (find_next_class_change j) top.
    Proof. unfold find_next_class_change. repeat sp_step_with sp_fun1. Qed.
    Lemma spI_cct_loop : forall row b best bc, spI (cct_loop row b best bc) top.
    Proof.
      induction row as [|h r IH]; intros b best bc; cbn [cct_loop]; [apply sp_ret; exact Logic.I|]. destruct h; [|apply IH].
      eapply sp_bind; [apply spI_draw_cct|]. intros d _. destruct (date_lt (Some d) best); apply IH.
    Qed.
    Ltac sp_fun2 m :=
      lazymatch m with
      | choose_next_customer _ _ => apply spI_choose_next_customer
      | upd_server _ _ _ => apply spI_upd_server
      | find_next_class_change _ => apply spI_find_next_class_change
      | cct_loop _ _ _ _ => apply spI_cct_loop
      | _ => sp_fun1 m
      end.
    Lemma spI_decide_class_change j i : spI (decide_class_change cf j i) top.
    Proof. unfold decide_class_change. repeat sp_step_with sp_fun2. Qed.
    Lemma spI_reset_class_change j i : spI (reset_class_change cf j i) top.
    Proof. unfold reset_class_change. repeat sp_step_with sp_fun2. Qed.
    Lemma spI_stime_num x : spI (stime_num x) top.
    Proof. unfold stime_num. repeat sp_step_with sp_fun2. Qed.
    Lemma spI_gstap i : spI (give_service_time_after_preemption i) top.
    Proof. unfold give_service_time_after_preemption. repeat sp_step_with sp_fun2. Qed.
    Ltac sp_fun3 m :=
      lazymatch m with
      | decide_class_change _ _ _ => apply spI_decide_class_change
      | reset_class_change _ _ _ => apply spI_reset_class_change
      | stime_num _ => apply spI_stime_num
      | give_service_time_after_preemption _ => apply spI_gstap
      | _ => sp_fun2 m
      end.
    Lemma spI_giast i : spI (give_individual_a_service_time i) top.
    Proof. unfold give_individual_a_service_time. repeat sp_step_with sp_fun3. Qed.
    Lemma spI_attach_server j sid i : spI (attach_server j sid i) top.
    Proof. unfold attach_server. repeat sp_step_with sp_fun3. Qed.
    Lemma spI_set_next_end j sid d : spI (set_next_end j sid d) top.
    Proof. unfold set_next_end. repeat sp_step_with sp_fun3. Qed.
    Lemma spI_kill_server j sid : spI (kill_server j sid) top.
    Proof. unfold kill_server. repeat sp_step_with sp_fun3. Qed.
    Ltac sp_fun4 m :=
      lazymatch m with
      | give_individual_a_service_time _ => apply spI_giast
      | attach_server _ _ _ => apply spI_attach_server
      | set_next_end _ _ _ => apply spI_set_next_end
      | kill_server _ _ => apply spI_kill_server
      | _ => sp_fun3 m
      end.
    Lemma spI_detatch_server j sid i : out tr i = true -> spI (detatch_server j sid i) top.
    Proof. intros Ho. unfold detatch_server. repeat sp_step_with sp_fun4. Qed.
    Lemma spI_bump_rec i : spI (bump_rec i) top.
    Proof. unfold bump_rec. repeat sp_step_with sp_fun4. Qed.
    Ltac sp_fun5 m :=
      lazymatch m with
      | bump_rec _ => apply spI_bump_rec
      | _ => sp_fun4 m
      end.
    Lemma spI_write_br_record j i ty : spI (write_br_record j i ty) top.
    Proof. unfold write_br_record. repeat sp_step_with sp_fun5. Qed.
    Lemma spI_reset_individual_attributes i : out tr i = true -> spI (reset_individual_attributes i) top.
    Proof. intros Ho. unfold reset_individual_attributes. repeat sp_step_with sp_fun5. Qed.
    Lemma spI_valid_dest d : spI (valid_dest d) top.
    Proof. unfold valid_dest. repeat sp_step_with sp_fun5. Qed.
    Lemma spI_jsq_loop lb : forall ds best acc, spI (jsq_loop lb ds best acc) top.
    Proof.
      induction ds as [|d r IH]; intros best acc; cbn [jsq_loop]; [apply sp_ret; exact Logic.I|].
      eapply sp_bind; [apply spI_get_node|]. intros nd _. cbv zeta. destruct (date_eqb _ _); [apply IH|]. destruct (date_lt _ _); apply IH.
    Qed.
    Ltac sp_fun6 m :=
      lazymatch m with
      | write_br_record _ _ _ => apply spI_write_br_record
      | valid_dest _ => apply spI_valid_dest
      | jsq_loop _ _ _ _ => apply spI_jsq_loop
      | _ => sp_fun5 m
      end.
    Lemma spI_jsq_next lb ds o : spI (jsq_next lb ds o) top.
    Proof. unfold jsq_next. repeat sp_step_with sp_fun6. Qed.
    Lemma spI_get_cyc c j : spI (get_cyc c j) top.
    Proof. unfold get_cyc. repeat sp_step_with sp_fun6. Qed.
    Lemma spI_bump_cyc c j : spI (bump_cyc c j) top.
    Proof. unfold bump_cyc. apply spI_same. intros s. destruct (nthZ (cyc s) c) as [row|]; [|repeat split; reflexivity]. destruct (nthZ row (j - 1)); repeat split; reflexivity. Qed.
    Ltac sp_fun7 m :=
      lazymatch m with
      | jsq_next _ _ _ => apply spI_jsq_next
      | get_cyc _ _ => apply spI_get_cyc
      | bump_cyc _ _ => apply spI_bump_cyc
      | _ => sp_fun6 m
      end.
    Lemma spI_node_router_next r c j : spI (node_router_next r c j) top.
    Proof. unfold node_router_next. repeat sp_step_with sp_fun7. Qed.
    Ltac sp_fun8 m :=
      lazymatch m with
      | node_router_next _ _ _ => apply spI_node_router_next
      | _ => sp_fun7 m
      end.
    Lemma spI_next_node_for mode j i : spI (next_node_for cf mode j i) top.
    Proof. unfold next_node_for. repeat sp_step_with sp_fun8. Qed.
    Lemma spI_start_fresh j i osid c : spI (start_fresh cf j i osid c) top.
    Proof. unfold start_fresh. repeat sp_step_with sp_fun8. Qed.
    Lemma spI_start_give j i sid : spI (start_give cf j i sid) top.
    Proof. unfold start_give. repeat sp_step_with sp_fun8. Qed.
    Lemma spI_biis j sid : spI (begin_interrupted_individuals_service j sid) top.
    Proof. unfold begin_interrupted_individuals_service. repeat sp_step_with sp_fun8. Qed.
    Ltac sp_fun9 m :=
      lazymatch m with
      | next_node_for _ _ _ _ => apply spI_next_node_for
      | start_fresh _ _ _ _ _ => apply spI_start_fresh
      | start_give _ _ _ _ => apply spI_start_give
      | begin_interrupted_individuals_service _ _ => apply spI_biis
      | _ => sp_fun8 m
      end.
    Lemma spI_serve_with j sid : spI (serve_with cf j sid) top.
    Proof. unfold serve_with. repeat sp_step_with sp_fun9. Qed.
    Ltac sp_fun10 m :=
      lazymatch m with
      | serve_with _ _ _ => apply spI_serve_with
      | _ => sp_fun9 m
      end.
    Lemma spI_bsipr j freed : spI (begin_service_if_possible_release cf j freed) top.
    Proof. unfold begin_service_if_possible_release. repeat sp_step_with sp_fun10. Qed.
    Lemma spI_block_individual j i d : spI (block_individual j i d) top.
    Proof. unfold block_individual. repeat sp_step_with sp_fun10. Qed.
    Ltac sp_fun11 m :=
      lazymatch m with
      | begin_service_if_possible_release _ _ _ => apply spI_bsipr
      | block_individual _ _ _ => apply spI_block_individual
      | _ => sp_fun10 m
      end.

    Lemma nopre_at j nc : nthZ (cf_nodes cf) (j - 1) = Some nc -> nopre_nc nc = true.
    Proof. intros H. apply nthZ_In in H. unfold nopre in Hpre. rewrite forallb_forall in Hpre. apply Hpre. exact H. Qed.
    (* no priority pre-emption in scope: decide_preempt finds no victim *)
    Lemma spI_preempt_victim j i : spI (preempt_victim cf j i) (fun v => v = None).
    Proof.
      unfold preempt_victim. eapply sp_bind; [apply spI_ncfg_of|]. intros nc Hc. apply nopre_at in Hc. unfold nopre_nc in Hc.
      apply andb_true_iff in Hc as [Hc _]. rewrite Hc. apply sp_ret. reflexivity.
    Qed.
    Lemma spI_decide_between l : spI (decide_between l) top.
    Proof. unfold decide_between. repeat sp_step_with sp_fun11. Qed.
    Lemma spI_change_customer_class j i : spI (change_customer_class cf j i) top.
    Proof. unfold change_customer_class. repeat sp_step_with sp_fun11. Qed.
    Lemma spI_has_space d : spI (has_space cf d) top.
    Proof. unfold has_space. repeat sp_step_with sp_fun11. Qed.
    Lemma spI_tsod fl j pre : pre = 0 -> spI (take_servers_off_duty cf fl j pre) top.
    Proof. intros ->. unfold take_servers_off_duty. change (0 =? 0) with true. cbv iota. repeat sp_step_with sp_fun11. Qed.
    Lemma spI_add_new_servers : forall k j, spI (add_new_servers k j) top.
    Proof. induction k as [|k IH]; intros j; cbn [add_new_servers]; [apply sp_ret; exact Logic.I|]. repeat sp_step_with sp_fun11. apply IH. Qed.
    Lemma spI_bsipcs j : spI (begin_service_if_possible_change_shift cf j) top.
    Proof. unfold begin_service_if_possible_change_shift. repeat sp_step_with sp_fun11. Qed.
    Lemma spI_change_shift j : spI (change_shift cf j) top.
    Proof.
      unfold change_shift. eapply sp_bind; [apply spI_ncfg_of|]. intros nc Hc. destruct (nc_srv nc) as [|sc|sl] eqn:Esrv; [apply sp_fail| |apply sp_fail].
      pose proof (nopre_at _ _ Hc) as Hn. unfold nopre_nc in Hn. rewrite Esrv in Hn. apply andb_true_iff in Hn as [_ Hn]. apply Z.eqb_eq in Hn.
      eapply sp_bind; [apply spI_get_node|]. intros nd [Hnd Hj].
      eapply sp_bind with (phi := top); [destruct (sc_b sc); [apply sp_fail|apply sp_ret; exact Logic.I]|]. intros _ _. cbv zeta.
      eapply sp_bind; [apply spI_put_node|].
      { apply (NodeOK_nrel _ _ _ nd _ Hnd); [reflexivity|reflexivity|]. destruct Hnd as [Hinf _]. rewrite Hinf, Hj, (Hsch _ _ _ Hc Esrv). reflexivity. }
      intros _ _. eapply sp_bind; [apply sp_gets|]. intros fl _. eapply sp_bind; [apply spI_tsod; exact Hn|]. intros _ _.
      eapply sp_bind; [apply spI_add_new_servers|]. intros _ _. apply spI_bsipcs.
    Qed.
    Lemma spI_slot_loop : forall k j, spI (slot_loop cf k j) top.
    Proof. induction k as [|k IH]; intros j; cbn [slot_loop]; [apply sp_ret; exact Logic.I|]. repeat sp_step_with sp_fun11; apply IH. Qed.
    Lemma spI_slotted_service j : spI (slotted_service cf j) top.
    Proof.
      unfold slotted_service. eapply sp_bind; [apply spI_ncfg_of|]. intros nc Hc. destruct (nc_srv nc) as [|sc|sl] eqn:Esrv; [apply sp_fail|apply sp_fail|].
      pose proof (nopre_at _ _ Hc) as Hn. unfold nopre_nc in Hn. rewrite Esrv in Hn. apply andb_true_iff in Hn as [_ Hn]. apply negb_true_iff in Hn.
      eapply sp_bind; [apply spI_get_node|]. intros nd [Hnd Hj].
      eapply sp_bind with (phi := top); [destruct (sl_b sl); [apply sp_fail|apply sp_ret; exact Logic.I]|]. intros _ _. cbv zeta. rewrite Hn.
      eapply sp_bind with (phi := top); [apply sp_ret; exact Logic.I|]. intros _ _.
      eapply sp_bind; [apply spI_slot_loop|]. intros _ _. apply spI_upd_node. intros; nodeok.
    Qed.
    Lemma spI_ccww j : spI (change_customer_class_while_waiting cf j) top.
    Proof.
      unfold change_customer_class_while_waiting.
      eapply sp_bind; [apply spI_get_node|]. intros nd [Hnd Hj].
      eapply sp_bind; [apply sp_lift|]. intros i Hi.
      eapply sp_bind; [apply spI_get_ind|]. intros x [Hx Hxi].
      eapply sp_bind; [apply sp_lift|]. intros nc' Hnc.
      eapply sp_bind; [apply sp_lift|]. intros p' Hp.
      eapply sp_bind; [apply spI_put_ind; indok|]. intros _ _.
      eapply sp_bind with (phi := top).
      { destruct (negb (p' =? i_pprio x)); [|apply sp_ret; exact Logic.I].
        eapply sp_bind; [apply sp_lift|]. intros q Hq. eapply sp_bind; [apply sp_lift|]. intros q' Hq'. cbv zeta.
        eapply sp_bind; [apply sp_lift|]. intros qn Hqn. cbv beta in Hq, Hq', Hqn.
        eapply sp_bind; [apply spI_put_node|].
        { apply (NodeOK_perm _ _ _ nd _ Hnd); [reflexivity| |reflexivity]. unfold all_individuals. cbn [n_queues set].
          eapply Permutation_trans; [apply (concat_remove _ _ _ _ _ Hq Hq')|]. symmetry. apply concat_append. exact Hqn. }
        intros _ _. destruct (negb (nd_inf nd) && (0 <? numo (n_c nd))); [|apply sp_ret; exact Logic.I].
        eapply sp_bind; [apply spI_preempt_victim|]. intros v ->. apply sp_ret. exact Logic.I. }
      intros _ _. eapply sp_bind; [apply spI_upd_ind; intros; indok|]. intros _ _. apply spI_decide_class_change.
    Qed.
    Lemma spI_accept_rest pre j i nc : spI (accept_rest cf pre j i nc) top.
    Proof.
      unfold accept_rest. eapply sp_bind; [apply spI_decide_class_change|]. intros _ _. eapply sp_bind; [apply spI_get_node|]. intros nd1 [Hnd Hj]. cbv zeta.
      eapply sp_bind with (phi := top); [destruct (nd_inf nd1); [apply sp_ret; exact Logic.I|apply spI_choose_next_customer]|]. intros cand _.
      destruct cand as [c|]; [|apply sp_ret; exact Logic.I]. destruct (nd_inf nd1); [apply spI_start_fresh|].
      eapply sp_bind; [apply spI_get_ind|]. intros cx _. destruct (find_free_server_for _ _ _); [apply spI_start_fresh|].
      destruct (0 <? numo (n_c nd1)); [|apply sp_ret; exact Logic.I]. eapply sp_bind; [apply spI_preempt_victim|]. intros v ->. apply sp_ret. exact Logic.I.
    Qed.
    Lemma spI_find_next_event_date : spI find_next_event_date top.
    Proof. unfold find_next_event_date. apply spI_same. intros s. destruct (find_min_dates 1 (a_dates (arr s)) (None, 0, 0)) as [[d j] c]. repeat split; reflexivity. Qed.
    Lemma spI_sys_population : spI sys_population top.
    Proof. unfold sys_population. repeat sp_step_with sp_fun11. Qed.
    Lemma spI_route_of i c : spI (route_of cf i c) top.
    Proof. unfold route_of. repeat sp_step_with sp_fun11. Qed.
    Lemma spI_draw_ren : spI draw_ren (fun p => 0 <= p).
    Proof.
      intros s a s' HI H. unfold draw_ren in H. destruct (d_ren (dr s)) as [|p r] eqn:Ed; [discriminate|]. injection H as <- <-.
      assert (K : Forall (fun p => 0 <= p) (p :: r)) by (rewrite <- Ed; apply HI). inversion K as [|? ? K1 K2].
      split; [|exact K1]. eapply Inv_same; [exact HI|reflexivity|reflexivity|reflexivity|reflexivity|exact K2].
    Qed.
  End Small.

  (* the walk tactics again, now with every lemma of the section above *)
  Ltac sp_prim m :=
    lazymatch m with
    | tnow => apply spI_tnow
    | get_node _ => apply spI_get_node
    | get_ind _ => apply spI_get_ind
    | ncfg_of _ _ => apply spI_ncfg_of
    | lift _ _ => apply sp_lift
    | gets _ => apply sp_gets
    | draw_arr => apply spI_draw_arr
    | draw_batch => apply spI_draw_batch
    | draw_svc => apply spI_draw_svc
    | draw_unif => apply spI_draw_unif
    | draw_cct => apply spI_draw_cct
    | log_rec _ => apply spI_log_rec
    | put_node _ => apply spI_put_node; nodeok
    | put_ind _ => apply spI_put_ind; indok
    | upd_ind _ _ => apply spI_upd_ind; intros; indok
    | upd_node _ _ => apply spI_upd_node; intros; nodeok
    | modify _ => apply spI_same; intros ?; repeat split; reflexivity
    | forM_ _ _ => apply sp_forM; intros ?
    | mapM _ _ => apply sp_mapM; intros ?
    | @choice_uniform _ _ => apply spI_choice_uniform
    | choice_weighted _ _ => apply spI_choice_weighted
    | choose_next_customer _ _ => apply spI_choose_next_customer
    | decide_class_change _ _ _ => apply spI_decide_class_change
    | reset_class_change _ _ _ => apply spI_reset_class_change
    | set_next_end _ _ _ => apply spI_set_next_end
    | write_br_record _ _ _ => apply spI_write_br_record
    | next_node_for _ _ _ _ => apply spI_next_node_for
    | begin_service_if_possible_release _ _ _ => apply spI_bsipr
    | block_individual _ _ _ => apply spI_block_individual
    | decide_between _ => apply spI_decide_between
    | change_customer_class _ _ _ => apply spI_change_customer_class
    | has_space _ _ => apply spI_has_space
    | change_shift _ _ => apply spI_change_shift
    | slotted_service _ _ => apply spI_slotted_service
    | change_customer_class_while_waiting _ _ => apply spI_ccww
    | find_next_event_date => apply spI_find_next_event_date
    | sys_population => apply spI_sys_population
    | route_of _ _ _ => apply spI_route_of
    end.
  Ltac sp_step :=
    lazymatch goal with
    | |- sp _ _ (ret _) _ => apply sp_ret; exact Logic.I
    | |- sp _ _ (fail _) _ => apply sp_fail
    | |- sp _ _ oof _ => apply sp_oof
    | |- sp _ _ (bind (match _ with _ => _ end) _) _ => eapply sp_bind with (phi := top); [|intros ? _]
    | |- sp _ _ (bind (if _ then _ else _) _) _ => eapply sp_bind with (phi := top); [|intros ? _]
    | |- sp _ _ (bind ?m _) _ => eapply sp_bind; [sp_prim m|sp_intro]
    | |- sp _ _ (if ?b then _ else _) _ => destruct b
    | |- sp _ _ (match ?x with _ => _ end) _ => first [progress cbv iota beta | destruct x]
    | |- sp _ _ ?m _ => first [sp_prim m | (eapply sp_top; sp_prim m)]
    end.

  (* ---------- changes of the transit state ---------- *)
  Lemma NodeOK_out loc tr tr' cr nd : (forall id, out tr' id = out tr id) -> NodeOK loc tr cr nd -> NodeOK loc tr' cr nd.
  Proof.
    intros Ho (A & B & C & D). split; [exact A|]. split; [exact B|]. split.
    - intros id Hin. rewrite Ho. apply C. exact Hin.
    - intros id Hid. apply D. rewrite <- Ho. exact Hid.
  Qed.
  Lemma sp_put_ind_tr loc tr tr' cr x' : (forall id, out tr' id = out tr id) -> IndOK loc tr' cr x' ->
    (forall y, i_id y <> i_id x' -> IndOK loc tr cr y -> IndOK loc tr' cr y) ->
    sp (Inv loc tr cr) (Inv loc tr' cr) (put_ind x') top.
  Proof.
    intros Ho Hx Hy s a s' (A & B & C & D & E & F & G & H & K & L) HH. unfold put_ind in HH. apply modify_inv in HH. subst s'.
    split; [|exact Logic.I]. unfold Inv. cbn [now arr nodes inds dr set]. repeat (split; [assumption|]).
    split; [apply NoDup_put_ind; exact E|]. split; [|split; [|auto]].
    - apply Forall_put_ind; [exact E| |exact Hx]. intros y Hin Hne. apply Hy; [exact Hne|]. rewrite Forall_forall in F. apply F. exact Hin.
    - intros k nd Hk. eapply NodeOK_out; [exact Ho|]. eapply G; eauto.
  Qed.
  (* the record of the departing customer is written: from here on its record count is above the frame's *)
  Lemma sp_bump_rec_tr loc cr i : sp (Inv loc (TOut i) cr) (Inv loc (TRec i) cr) (bump_rec i) top.
  Proof.
    unfold bump_rec, upd_ind. eapply sp_bind; [apply spI_get_ind|]. intros x [(A & B & C) Hi]. apply sp_put_ind_tr.
    - intros id. reflexivity.
    - split; [exact A|]. cbn [i_id set]. split; [rewrite Hi; cbn; rewrite Z.eqb_refl; discriminate|].
      unfold FR in *. destruct fr as [[[[i0 a0] z0] n0]|]; [|exact Logic.I]. cbn [i_id i_nrec set]. intros Hi0. specialize (C Hi0).
      rewrite Hi in Hi0. rewrite Hi0, Z.eqb_refl in *. lia.
    - cbn [i_id set]. intros y Hne (A' & B' & C'). split; [exact A'|]. split; [exact B'|].
      unfold FR in *. destruct fr as [[[[i0 a0] z0] n0]|]; [|exact Logic.I]. intros Hi0. specialize (C' Hi0).
      destruct (i =? i0) eqn:E; [apply Z.eqb_eq in E; exfalso; apply Hne; congruence|exact C'].
  Qed.
  Lemma sp_write_individual_record loc cr j i : sp (Inv loc (TOut i) cr) (Inv loc (TRec i) cr) (write_individual_record cf j i) top.
  Proof.
    unfold write_individual_record. eapply sp_bind; [apply spI_get_ind|]. intros x _. eapply sp_bind; [apply spI_get_node|]. intros nd _.
    eapply sp_bind; [apply spI_ncfg_of|]. intros nc _.
    eapply sp_bind with (phi := top).
    { destruct (nd_inf nd || nc_slotted nc); [apply sp_ret; exact Logic.I|]. eapply sp_bind; [apply sp_lift|]. intros sid _. apply sp_ret. exact Logic.I. }
    intros sid _. eapply sp_bind; [apply spI_log_rec|]. intros _ _. apply sp_bump_rec_tr.
  Qed.
  Lemma sp_write_reneging_record loc cr j i : sp (Inv loc (TOut i) cr) (Inv loc (TRec i) cr) (write_reneging_record j i) top.
  Proof.
    unfold write_reneging_record. eapply sp_bind; [apply spI_get_ind|]. intros x _.
    eapply sp_bind; [apply spI_log_rec|]. intros _ _. apply sp_bump_rec_tr.
  Qed.

  Lemma IndOK_TNone_TOut loc cr i y : IndOK loc TNone cr y -> IndOK loc (TOut i) cr y.
  Proof.
    intros (A & B & C). split; [exact A|]. split; [intros _; apply B; reflexivity|].
    unfold FR in *. destruct fr as [[[[i0 a0] z0] n0]|]; [|exact Logic.I]. intros Hi0. specialize (C Hi0).
    destruct (i =? i0); [apply C|exact C].
  Qed.
  Lemma out_TRec_false k id : out (TRec k) id = false -> (id =? k) = false.
  Proof. cbn. rewrite Z.eqb_sym. auto. Qed.

  (* T1: a customer is taken out of its queue *)
  Lemma Inv_remove loc cr s j nd nd1 prio q q' i : Inv loc TNone cr s -> 1 <= j -> nthZ (nodes s) (j - 1) = Some nd ->
    nthZ (n_queues nd) prio = Some q -> remove_first i q = Some q' ->
    n_id nd1 = n_id nd -> n_queues nd1 = updZ (n_queues nd) prio q' -> nd_inf nd1 = nd_inf nd ->
    Inv loc (TOut i) cr (s <| nodes := updZ (nodes s) (n_id nd1 - 1) nd1 |>).
  Proof.
    intros (A & B & C & D & E & F & G & H & K & L) Hj Hn Hq Hq' E1 E2 E3.
    pose proof (Idx_get _ _ _ D Hj Hn) as Hidn. destruct (nthZ_nat _ _ _ Hn) as [Hj0 Hn'].
    pose proof (G _ _ Hn') as (N1 & N2 & N3 & N4).
    assert (P : Permutation (all_individuals nd) (i :: all_individuals nd1)) by (unfold all_individuals; rewrite E2; apply (concat_remove _ _ _ _ _ Hq Hq')).
    assert (Hi_in : In i (all_individuals nd)) by (eapply Permutation_in; [symmetry; exact P|left; reflexivity]).
    assert (ND : NoDup (i :: all_individuals nd1)) by (eapply Permutation_NoDup; eauto). inversion ND as [|? ? ND1 ND2].
    unfold Inv. cbn [now arr nodes inds dr set].
    split; [exact A|]. split; [exact B|]. split; [rewrite length_updZ; exact C|]. split; [unfold Idx; cbn [nodes set]; apply Idx_updZ; exact D|].
    split; [exact E|]. split; [eapply Forall_impl; [|exact F]; intros y Hy; apply IndOK_TNone_TOut; exact Hy|]. split; [|auto].
    intros kk y Hk. rewrite E1, Hidn in Hk. unfold updZ in Hk. destruct (j - 1 <? 0) eqn:Ej; [apply Z.ltb_lt in Ej; lia|].
    destruct (nth_error_upd_cases _ _ _ _ _ Hk) as [[-> ->]|[Hne Hk']].
    - split; [rewrite E3, E1; exact N1|]. split; [exact ND2|]. split.
      + intros id Hi. assert (Hi' : In id (all_individuals nd)) by (eapply Permutation_in; [symmetry; exact P|right; exact Hi]).
        destruct (N3 _ Hi') as (I1 & _ & I3). split; [exact I1|]. split; [|rewrite E1; exact I3].
        cbn. apply Z.eqb_neq. intros <-. exact (ND1 Hi).
      + intros id Ho Hl. rewrite E1 in Hl. assert (Hi' : In id (all_individuals nd)) by (apply N4; [reflexivity|exact Hl]).
        apply (Permutation_in _ P) in Hi'. destruct Hi' as [<-|Hi']; [cbn in Ho; rewrite Z.eqb_refl in Ho; discriminate|exact Hi'].
    - pose proof (G _ _ Hk') as (M1 & M2 & M3 & M4). pose proof (D _ _ Hk') as Hidy. split; [exact M1|]. split; [exact M2|]. split.
      + intros id Hi. destruct (M3 _ Hi) as (I1 & _ & I3). split; [exact I1|]. split; [|exact I3].
        cbn. apply Z.eqb_neq. intros <-. destruct (N3 _ Hi_in) as (_ & _ & I3'). rewrite I3 in I3'. injection I3' as I3'. apply Hne. lia.
      + intros id _ Hl. apply M4; [reflexivity|exact Hl].
  Qed.

  (* T3: the customer in transit has been put into the queue of node j and stamped: nobody is in transit any more *)
  Lemma Inv_after_stamp loc cr k s x nd j q nc rd rest : Inv loc (TRec k) cr s -> find_ind k (inds s) = Some x -> 1 <= j ->
    nthZ (nodes s) (j - 1) = Some nd -> nthZ (n_queues nd) (i_prio x) = Some q -> nthZ (cf_nodes cf) (j - 1) = Some nc ->
    stamp_of nc x (now s) (d_ren (dr s)) = Some (rd, rest) ->
    Inv (fun id => if id =? k then Some j else loc id) TNone cr (after_stamp s x nd j q rd rest).
  Proof.
    intros (A & B & C & D & E & F & G & H & K & L) Hx Hj Hn Hq Hc Hst.
    pose proof (find_ind_id _ _ _ Hx) as Hid. pose proof (find_ind_In _ _ _ Hx) as Hin.
    rewrite Forall_forall in F. pose proof (F _ Hin) as (XA & XB & XC).
    pose proof (Idx_get _ _ _ D Hj Hn) as Hidn. destruct (nthZ_nat _ _ _ Hn) as [Hj0 Hn'].
    pose proof (G _ _ Hn') as (N1 & N2 & N3 & N4).
    set (loc' := fun id => if id =? k then Some j else loc id).
    assert (Hk_notin : ~ In k (all_individuals nd)). { intros Hi. destruct (N3 _ Hi) as (_ & Ho & _). cbn in Ho. rewrite Z.eqb_refl in Ho. discriminate. }
    unfold Inv, after_stamp. cbn [now arr nodes inds dr].
    split; [exact A|]. split; [exact B|]. split; [rewrite length_updZ; exact C|].
    split; [unfold Idx; cbn [nodes]; change (n_id nd) with (n_id (nd <| n_queues := updZ (n_queues nd) (i_prio x) (q ++ [i_id x]) |> <| n_pop := n_pop nd + 1 |>)); apply Idx_updZ; exact D|].
    split; [apply NoDup_put_ind; exact E|].
    split.
    { apply Forall_put_ind; [exact E| |].
      - intros y Hy Hne. change (i_id (accepted_ind x j (n_pop nd) (now s) rd)) with (i_id x) in Hne. destruct (F y Hy) as (YA & YB & YC). split; [exact YA|]. split.
        + intros _. assert (Ho : out (TRec k) (i_id y) = false) by (cbn; apply Z.eqb_neq; congruence).
          destruct (YB Ho) as [(jj & Hjj & Hl) HP]. split; [|exact HP]. exists jj. split; [exact Hjj|]. unfold loc'. rewrite (out_TRec_false _ _ Ho). exact Hl.
        + unfold FR in *. destruct fr as [[[[i0 a0] z0] n0]|]; [|exact Logic.I]. intros Hi0. specialize (YC Hi0).
          destruct (k =? i0) eqn:Ek; [apply Z.eqb_eq in Ek; exfalso; apply Hne; congruence|exact YC].
      - split; [exact XA|]. split.
        + intros _. split; [exists j; split; [reflexivity|]; unfold loc'; change (i_id (accepted_ind x j (n_pop nd) (now s) rd)) with (i_id x); rewrite Hid, Z.eqb_refl; reflexivity|].
          intros j' Hj' Hr Hi. cbn in Hj'. injection Hj' as <-. unfold ren_at in Hr. rewrite Hc in Hr. unfold stamp_of in Hst. rewrite Hr in Hst.
          destruct (nthZ (nc_ren nc) (i_cls x)) as [[|]|]; [destruct (d_ren (dr s)) as [|p r] eqn:Ed; [discriminate|]; injection Hst as <- <-|injection Hst as <- <-|discriminate].
          * split; [cbn; discriminate|]. cbn. intros z Hz. injection Hz as <-. inversion K as [|? ? K1 K2]. split; [exists (now s); split; [reflexivity|lia]|intros _; lia].
          * split; [cbn; discriminate|]. cbn. intros z Hz. discriminate.
        + unfold FR in *. destruct fr as [[[[i0 a0] z0] n0]|]; [|exact Logic.I]. change (i_id (accepted_ind x j (n_pop nd) (now s) rd)) with (i_id x). intros Hi0. specialize (XC Hi0).
          rewrite Hid in Hi0. rewrite Hi0, Z.eqb_refl in XC. unfold Held, accepted_ind. cbn. split; [lia|intros; lia]. }
    split.
    { intros kk y Hk. change (n_id nd) with (n_id nd) in Hk. rewrite Hidn in Hk. unfold updZ in Hk. destruct (j - 1 <? 0) eqn:Ej; [apply Z.ltb_lt in Ej; lia|].
      destruct (nth_error_upd_cases _ _ _ _ _ Hk) as [[-> ->]|[Hne Hk']].
      - assert (P : Permutation (all_individuals (nd <| n_queues := updZ (n_queues nd) (i_prio x) (q ++ [i_id x]) |> <| n_pop := n_pop nd + 1 |>)) (k :: all_individuals nd)).
        { unfold all_individuals. cbn [n_queues set]. rewrite Hid. apply concat_append. exact Hq. }
        split; [exact N1|]. split; [eapply Permutation_NoDup; [symmetry; exact P|constructor; assumption]|]. split.
        + intros id Hi. apply (Permutation_in _ P) in Hi. destruct Hi as [<-|Hi].
          * split; [rewrite <- Hid; exact XA|]. split; [reflexivity|]. unfold loc'. rewrite Z.eqb_refl. cbn [n_id set]. rewrite Hidn. reflexivity.
          * destruct (N3 _ Hi) as (I1 & I2 & I3). split; [exact I1|]. split; [reflexivity|]. unfold loc'. rewrite (out_TRec_false _ _ I2). exact I3.
        + intros id _ Hl. eapply Permutation_in; [symmetry; exact P|]. unfold loc' in Hl. destruct (id =? k) eqn:Ek; [left; symmetry; apply Z.eqb_eq; exact Ek|].
          right. apply N4; [cbn; rewrite Z.eqb_sym; exact Ek|exact Hl].
      - pose proof (G _ _ Hk') as (M1 & M2 & M3 & M4). pose proof (D _ _ Hk') as Hidy. split; [exact M1|]. split; [exact M2|]. split.
        + intros id Hi. destruct (M3 _ Hi) as (I1 & I2 & I3). split; [exact I1|]. split; [reflexivity|]. unfold loc'. rewrite (out_TRec_false _ _ I2). exact I3.
        + intros id _ Hl. unfold loc' in Hl. destruct (id =? k) eqn:Ek; [injection Hl as Hl; exfalso; apply Hne; lia|].
          apply M4; [cbn; rewrite Z.eqb_sym; exact Ek|exact Hl]. }
    split.
    { intros id jj Hl. unfold loc' in Hl. destruct (id =? k); [|eapply H; eauto]. injection Hl as <-. split; [exact Hj|].
      assert (Hlt : (Z.to_nat (j - 1) < length (nodes s))%nat) by (apply nth_error_Some; rewrite Hn'; discriminate). lia. }
    split; [|exact L].
    unfold stamp_of in Hst. destruct (nc_reneging nc); [|injection Hst as _ <-; exact K].
    destruct (nthZ (nc_ren nc) (i_cls x)) as [[|]|]; [|injection Hst as _ <-; exact K|discriminate].
    destruct (d_ren (dr s)) as [|p r] eqn:Ed; [discriminate|]. injection Hst as _ <-. cbn. inversion K; assumption.
  Qed.

  (* T4: the customer in transit leaves by the exit *)
  Lemma sp_exit_accept loc cr k c :
    sp (Inv loc (TRec k) cr) (Inv (fun id => if id =? k then None else loc id) TNone cr) (exit_accept k c) top.
  Proof.
    intros s a s' (A & B & C & D & E & F & G & H & K & L) HH. unfold exit_accept, del_ind, bind, modify in HH. injection HH as _ <-.
    split; [|exact Logic.I]. set (loc' := fun id => if id =? k then None else loc id).
    destruct (NoDup_del_ind k _ E) as [E' Hne]. rewrite Forall_forall in F.
    unfold Inv. cbn [now arr nodes inds dr set]. repeat (split; [assumption|]).
    split.
    { apply Forall_forall. intros y Hy. pose proof (Hne _ Hy) as Hyk. destruct (F y (In_del_ind _ _ _ Hy)) as (YA & YB & YC). split; [exact YA|]. split.
      - intros _. assert (Ho : out (TRec k) (i_id y) = false) by (cbn; apply Z.eqb_neq; congruence).
        destruct (YB Ho) as [(jj & Hjj & Hl) HP]. split; [|exact HP]. exists jj. split; [exact Hjj|]. unfold loc'. rewrite (out_TRec_false _ _ Ho). exact Hl.
      - unfold FR in *. destruct fr as [[[[i0 a0] z0] n0]|]; [|exact Logic.I]. intros Hi0. specialize (YC Hi0).
        destruct (k =? i0) eqn:Ek; [apply Z.eqb_eq in Ek; exfalso; apply Hyk; congruence|exact YC]. }
    split; [|split; [|auto]].
    - intros kk y Hk. pose proof (G _ _ Hk) as (M1 & M2 & M3 & M4). split; [exact M1|]. split; [exact M2|]. split.
      + intros id Hi. destruct (M3 _ Hi) as (I1 & I2 & I3). split; [exact I1|]. split; [reflexivity|]. unfold loc'. rewrite (out_TRec_false _ _ I2). exact I3.
      + intros id _ Hl. unfold loc' in Hl. destruct (id =? k) eqn:Ek; [discriminate|]. apply M4; [cbn; rewrite Z.eqb_sym; exact Ek|exact Hl].
    - intros id jj Hl. unfold loc' in Hl. destruct (id =? k); [discriminate|eapply H; eauto].
  Qed.

  (* ---------- the functions that move customers between nodes ---------- *)
  Definition InvX (tr : transit) (s : sim) : Prop := exists loc cr, Inv loc tr cr s.
  Lemma InvX_of loc tr cr s : Inv loc tr cr s -> InvX tr s. Proof. intros H. exists loc, cr. exact H. Qed.
  Lemma sp_X {A} tr (m : M A) phi : (forall loc cr, sp (Inv loc tr cr) (Inv loc tr cr) m phi) -> sp (InvX tr) (InvX tr) m phi.
  Proof. intros Hm s a s' (loc & cr & HI) H. destruct (Hm loc cr _ _ _ HI H) as [HJ Hp]. split; [exists loc, cr; exact HJ|exact Hp]. Qed.
  Lemma sp_toX {A} loc tr cr tr' (m : M A) phi : sp (Inv loc tr cr) (Inv loc tr' cr) m phi -> sp (Inv loc tr cr) (InvX tr') m phi.
  Proof. intros Hm. eapply sp_post; [exact Hm|]. intros s0 H0. exists loc, cr. exact H0. Qed.
  Lemma sp_fromX {A} loc tr cr (J : sim -> Prop) (m : M A) phi : sp (InvX tr) J m phi -> sp (Inv loc tr cr) J m phi.
  Proof. intros Hm. eapply sp_pre; [exact Hm|]. intros s0 H0. exists loc, cr. exact H0. Qed.
  Lemma sp_retX {A} loc tr cr (a : A) : sp (Inv loc tr cr) (InvX tr) (ret a) top.
  Proof. apply sp_toX. apply sp_ret. exact Logic.I. Qed.

  Ltac spb L := eapply sp_bind; [L|].

  Lemma sp_accept_body pre j k : sp (InvX (TRec k)) (InvX TNone) (accept_body cf pre j k) top.
  Proof.
    intros s a s' (loc & cr & HI) H. destruct a.
    apply accept_stamps in H as (x & nd & q & nc & rd & rest & Hx & Hj & Hn & Hq & Hc & Hst & H).
    pose proof (Inv_after_stamp _ _ _ _ _ _ _ _ _ _ _ HI Hx Hj Hn Hq Hc Hst) as HI1.
    destruct (spI_accept_rest _ _ _ pre j k nc _ _ _ HI1 H) as [HI2 _]. split; [eapply InvX_of; exact HI2|exact Logic.I].
  Qed.

  Lemma sp_release_body acc rbi j i d :
    (forall d' k, sp (InvX (TRec k)) (InvX TNone) (acc d' k) top) -> (forall j', sp (InvX TNone) (InvX TNone) (rbi j') top) ->
    sp (InvX TNone) (InvX TNone) (release_body cf acc rbi j i d false) top.
  Proof.
    intros Hacc Hrbi s a s' (loc & cr & HI) H. unfold release_body in H.
    minv H t0 s0 E. apply tnow_inv in E as [-> ->].
    minv H x s0 E. apply get_ind_inv in E as [-> Hx].
    minv H nd s0 E. apply get_node_inv in E as (-> & Hj & Hn).
    minv H nc s0 E. apply ncfg_of_inv in E as [-> Hc].
    minv H q s0 E. apply lift_inv in E as [Hq ->]. minv H q' s0 E. apply lift_inv in E as [Hq' ->].
    cbv zeta in H. minv H u s1 E. match type of E with put_node ?n _ = _ => set (nd1 := n) in * end.
    unfold put_node in E. apply modify_inv in E. subst s1.
    assert (HI1 := Inv_remove loc cr s j nd nd1 (i_pprio x) q q' i HI Hj Hn Hq Hq' eq_refl eq_refl eq_refl).
    assert (Hix : IndOK loc (TOut i) cr x).
    { apply IndOK_TNone_TOut. destruct HI as (_ & _ & _ & _ & _ & F & _). rewrite Forall_forall in F. apply F. eapply find_ind_In; eauto. }
    pose proof (find_ind_id _ _ _ Hx) as Hid.
    assert (Ho : out (TOut i) i = true) by (cbn; apply Z.eqb_refl). assert (Ho' : out (TRec i) i = true) by (cbn; apply Z.eqb_refl).
    match type of H with ?m _ = _ => assert (R : sp (Inv loc (TOut i) cr) (InvX TNone) m top) end.
    { spb ltac:(apply spI_put_ind; apply (IndOK_orel _ _ _ x _ Hix); [rewrite Hid; exact Ho|reflexivity|cbn; lia]). intros _ _.
      spb ltac:(apply sp_write_individual_record). intros _ _.
      eapply sp_bind with (phi := top) (J := Inv loc (TRec i) cr).
      { destruct (negb (nd_inf nd) && negb (nc_slotted nc)); [|apply sp_ret; exact Logic.I].
        spb ltac:(apply spI_get_ind). intros x1 _. spb ltac:(apply sp_lift). intros sid _.
        spb ltac:(apply spI_detatch_server; exact Ho'). intros _ _. apply sp_ret. exact Logic.I. }
      intros freed _. eapply sp_bind with (phi := top) (J := Inv loc (TRec i) cr).
      { destruct (nc_slotted nc); [|apply sp_ret; exact Logic.I]. apply spI_upd_ind. intros y Hy Hyi.
        apply (IndOK_orel _ _ _ y _ Hyi); [rewrite Hy; exact Ho'|reflexivity|cbn; lia]. }
      intros _ _. spb ltac:(apply spI_reset_individual_attributes; exact Ho'). intros _ _.
      spb ltac:(apply spI_bsipr). intros _ _.
      eapply sp_bind with (phi := top) (J := InvX TNone).
      { destruct (d =? -1); [eapply sp_post; [apply sp_exit_accept|]; intros s2 H2; eapply InvX_of; exact H2|apply sp_fromX; apply Hacc]. }
      intros _ _. apply Hrbi. }
    destruct a. exact (R _ _ _ HI1 H).
  Qed.

  Lemma sp_rbi_body rel j : (forall a b c, sp (InvX TNone) (InvX TNone) (rel a b c false) top) ->
    sp (InvX TNone) (InvX TNone) (rbi_body cf rel j) top.
  Proof.
    intros Hrel s a s' (loc & cr & HI) H.
    assert (R : sp (Inv loc TNone cr) (InvX TNone) (rbi_body cf rel j) top).
    { unfold rbi_body. spb ltac:(apply spI_get_node). intros nd [Hnd Hj]. spb ltac:(apply spI_ncfg_of). intros nc _.
      destruct (_ && _); [|apply sp_retX]. destruct (n_bq nd) as [|[from y] rest]; [apply sp_fail|].
      spb ltac:(apply spI_get_node). intros fnd _.
      eapply sp_bind with (phi := top) (J := Inv loc TNone cr); [destruct (memZ _ _); [apply sp_ret; exact Logic.I|apply sp_fail]|]. intros _ _.
      spb ltac:(apply spI_put_node; nodeok). intros _ _.
      spb ltac:(apply spI_get_ind). intros yx [Hyx Hy].
      eapply sp_bind with (phi := top) (J := Inv loc TNone cr); [repeat sp_step|].
      intros _ _. apply sp_fromX. apply Hrel. }
    exact (R _ _ _ HI H).
  Qed.

  Lemma sp_core : forall f,
    (forall j i d, sp (InvX TNone) (InvX TNone) (release cf f j i d false) top) /\
    (forall j, sp (InvX TNone) (InvX TNone) (release_blocked_individual cf f j) top) /\
    (forall j k, sp (InvX (TRec k)) (InvX TNone) (accept cf f j k) top).
  Proof.
    induction f as [|f (IH1 & IH2 & IH3)]; [split; [|split]; intros; intros s a s' _ H; cbn in H; discriminate H|].
    split; [|split]; intros.
    - rewrite release_S. apply sp_release_body; assumption.
    - rewrite rbi_S. apply sp_rbi_body; assumption.
    - rewrite accept_S. apply sp_accept_body.
  Qed.
  Lemma sp_release f j i d : sp (InvX TNone) (InvX TNone) (release cf f j i d false) top. Proof. apply sp_core. Qed.
  Lemma sp_rbi f j : sp (InvX TNone) (InvX TNone) (release_blocked_individual cf f j) top. Proof. apply sp_core. Qed.
  Lemma sp_accept f j k : sp (InvX (TRec k)) (InvX TNone) (accept cf f j k) top. Proof. apply sp_core. Qed.

  Lemma sp_finish_service j : sp (InvX TNone) (InvX TNone) (finish_service cf j) top.
  Proof.
    intros s a s' (loc & cr & HI) H.
    assert (R : sp (Inv loc TNone cr) (InvX TNone) (finish_service cf j) top).
    { unfold finish_service. do 6 sp_step.
      eapply sp_bind with (phi := top) (J := Inv loc TNone cr); [repeat sp_step|]. intros _ _.
      spb ltac:(apply spI_has_space). intros space _. destruct space; [|apply sp_toX; apply spI_block_individual].
      spb ltac:(apply sp_gets). intros fl _. apply sp_fromX. apply sp_release. }
    exact (R _ _ _ HI H).
  Qed.

  Lemma Inv_unif loc tr cr s rest : Inv loc tr cr s -> Inv loc tr cr (s <| dr := dr s <| d_unif := rest |> |>).
  Proof. intros HI. eapply Inv_same; [exact HI|reflexivity|reflexivity|reflexivity|reflexivity|apply HI]. Qed.

  Lemma sp_renege j : sp (InvX TNone) (InvX TNone) (renege cf j) top.
  Proof.
    intros s a s' (loc & cr & HI) H. unfold renege in H.
    minv H t0 s0 E. apply tnow_inv in E as [-> ->].
    minv H nd s0 E. apply get_node_inv in E as (-> & Hj & Hn).
    minv H i s0 E. apply decide_between_inv in E as [Hin Hs0].
    assert (HI0 : Inv loc TNone cr s0 /\ nodes s0 = nodes s /\ inds s0 = inds s /\ now s0 = now s).
    { destruct Hs0 as [[_ ->]|(u & rest & _ & ->)]; [auto|]. split; [apply Inv_unif; exact HI|auto]. }
    destruct HI0 as (HI0 & K2 & K1 & K3). clear Hs0 HI.
    minv H u s1 E. apply upd_ind_inv in E as (x & Hx & ->). pose proof (find_ind_id _ _ _ Hx) as Hid.
    minv H d s1 E. apply next_node_for_jockey in E as (-> & _).
    minv H x2 s1 E. apply get_ind_inv in E as (-> & Hx2). cbn [inds set] in Hx2. rewrite find_put_ind in Hx2. cbn [i_id set] in Hx2.
    rewrite Hid, Z.eqb_refl in Hx2. injection Hx2 as <-.
    minv H nd1 s1 E. apply get_node_inv in E as (-> & _ & Hn1). cbn [nodes set] in Hn1. rewrite K2, Hn in Hn1. injection Hn1 as <-.
    minv H q s1 E. apply lift_inv in E as [Eq ->]. cbn [i_pprio set] in Eq.
    minv H q' s1 E. apply lift_inv in E as [Eq' ->].
    cbv zeta in H. cbn [i_pprio set] in H.
    minv H u0 s1 E. match type of E with put_node ?n _ = _ => set (nd2 := n) in * end. unfold put_node in E. apply modify_inv in E. subst s1.
    rewrite <- K2 in Hn.
    assert (HI1 := Inv_remove loc cr s0 j nd nd2 (i_pprio x) q q' i HI0 Hj Hn Eq Eq' eq_refl eq_refl eq_refl).
    assert (Ho : out (TOut i) i = true) by (cbn; apply Z.eqb_refl). assert (Ho' : out (TRec i) i = true) by (cbn; apply Z.eqb_refl).
    assert (Hix : IndOK loc (TOut i) cr x).
    { apply IndOK_TNone_TOut. destruct HI0 as (_ & _ & _ & _ & _ & F & _). rewrite Forall_forall in F. apply F. eapply find_ind_In; eauto. }
    assert (HI2 := Inv_put_ind loc (TOut i) cr _ (x <| i_ren := XI |>) HI1).
    match type of H with ?m _ = _ => assert (R : sp (Inv loc (TOut i) cr) (InvX TNone) m top) end.
    { spb ltac:(apply spI_reset_class_change). intros _ _.
      spb ltac:(apply spI_upd_ind; intros y Hy Hyi; apply (IndOK_orel _ _ _ y _ Hyi); [rewrite Hy; exact Ho|reflexivity|cbn; lia]). intros _ _.
      spb ltac:(apply sp_write_reneging_record). intros _ _.
      spb ltac:(apply spI_reset_individual_attributes; exact Ho'). intros _ _.
      spb ltac:(apply sp_gets). intros fl _.
      eapply sp_bind with (phi := top) (J := InvX TNone).
      { destruct (d =? -1); [eapply sp_post; [apply sp_exit_accept|]; intros s2 H2; eapply InvX_of; exact H2|apply sp_fromX; apply sp_accept]. }
      intros _ _. apply sp_rbi. }
    destruct a. refine (R _ _ _ _ H). apply HI2.
    apply (IndOK_orel _ _ _ x _ Hix); [rewrite Hid; exact Ho|reflexivity|cbn; lia].
  Qed.

  Lemma sp_node_have_event j : sp (InvX TNone) (InvX TNone) (node_have_event cf j) top.
  Proof.
    intros s a s' (loc & cr & HI) H.
    assert (R : sp (Inv loc TNone cr) (InvX TNone) (node_have_event cf j) top).
    { unfold node_have_event. spb ltac:(apply spI_get_node). intros nd _. cbv zeta.
      destruct (_ =? 0); [apply sp_fromX; apply sp_finish_service|].
      destruct (_ =? 1); [apply sp_toX; apply spI_change_shift|].
      destruct (_ =? 2); [apply sp_fromX; apply sp_renege|].
      destruct (_ =? 3); [apply sp_toX; apply spI_ccww|].
      destruct (_ =? 4); [apply sp_toX; apply spI_slotted_service|apply sp_retX]. }
    exact (R _ _ _ HI H).
  Qed.

  Lemma sp_send_individual j k : sp (InvX (TRec k)) (InvX TNone) (send_individual cf j k) top.
  Proof.
    intros s a s' (loc & cr & HI) H.
    assert (R : sp (Inv loc (TRec k) cr) (InvX TNone) (send_individual cf j k) top).
    { unfold send_individual. spb ltac:(apply spI_same; intros ?; repeat split; reflexivity). intros _ _.
      spb ltac:(apply sp_gets). intros fl _. apply sp_fromX. apply sp_accept. }
    exact (R _ _ _ HI H).
  Qed.
  Lemma sp_turn_away loc cr j k ty : sp (Inv loc (TRec k) cr) (InvX TNone) (write_br_record j k ty ;;; exit_accept k false) top.
  Proof. spb ltac:(apply spI_write_br_record). intros _ _. eapply sp_post; [apply sp_exit_accept|]. intros s2 H2. eapply InvX_of; exact H2. Qed.
  Lemma sp_release_individual j k : sp (InvX (TRec k)) (InvX TNone) (release_individual cf j k) top.
  Proof.
    intros s a s' (loc & cr & HI) H.
    assert (R : sp (Inv loc (TRec k) cr) (InvX TNone) (release_individual cf j k) top).
    { unfold release_individual. spb ltac:(apply spI_get_ind). intros x _. spb ltac:(apply spI_get_node). intros nd _.
      spb ltac:(apply spI_ncfg_of). intros nc _. spb ltac:(apply spI_sys_population). intros sp0 _. cbv zeta.
      destruct (_ || _); [apply sp_turn_away|].
      spb ltac:(apply sp_lift). intros tabs _. spb ltac:(apply sp_lift). intros tab _.
      destruct tab as [tb|]; [|apply sp_fromX; apply sp_send_individual].
      spb ltac:(apply spI_draw_unif). intros u _. cbv zeta.
      destruct (_ <? _); [apply sp_turn_away|apply sp_fromX; apply sp_send_individual]. }
    exact (R _ _ _ HI H).
  Qed.

  Lemma route_of_inv i c r s s' : route_of cf i c s = Ok (r, s') -> s' = s.
  Proof.
    unfold route_of. intros H. minv H rt s1 E. apply lift_inv in E as [_ ->].
    destruct rt as [rs|routes|routes al ch]; [apply ret_inv in H as [_ ->]; reflexivity| |];
      (destruct routes; [discriminate|]; minv H r0 s1 E; apply lift_inv in E as [_ ->]; apply ret_inv in H as [_ ->]; reflexivity).
  Qed.

  (* T5: a new customer is created (it is in transit until it is accepted or turned away) *)
  Lemma Inv_create loc cr s c p r : Inv loc TNone cr s ->
    Inv loc (TRec (cr + 1)) (cr + 1)
      (s <| arr := arr s <| a_created := a_created (arr s) + 1 |> |> <| inds := put_ind_l (new_ind (cr + 1) c p r) (inds s) |>).
  Proof.
    intros (A & B & C & D & E & F & G & H & K & L). unfold Inv. cbn [now arr nodes inds dr set a_created].
    split; [exact A|]. split; [rewrite B; reflexivity|]. split; [exact C|]. split; [exact D|]. split; [apply NoDup_put_ind; exact E|].
    rewrite Forall_forall in F.
    split.
    { apply Forall_put_ind; [exact E| |].
      - intros y Hy _. destruct (F y Hy) as (YA & YB & YC). split; [lia|]. split; [intros _; apply YB; reflexivity|].
        unfold FR in *. destruct fr as [[[[i0 a0] z0] n0]|]; [|exact Logic.I]. intros Hi0. specialize (YC Hi0).
        destruct (cr + 1 =? i0) eqn:Ek; [apply Z.eqb_eq in Ek; lia|exact YC].
      - split; [cbn; lia|]. split; [cbn; rewrite Z.eqb_refl; discriminate|].
        unfold FR. destruct fr as [[[[i0 a0] z0] n0]|]; [|exact Logic.I]. cbn. intros Hi0. lia. }
    split.
    { intros kk y Hk. destruct (G _ _ Hk) as (M1 & M2 & M3 & M4). split; [exact M1|]. split; [exact M2|]. split.
      - intros id Hi. destruct (M3 _ Hi) as (I1 & _ & I3). split; [lia|]. split; [cbn; apply Z.eqb_neq; lia|exact I3].
      - intros id _ Hl. apply M4; [reflexivity|exact Hl]. }
    split; [exact H|]. split; [exact K|]. destruct fr as [[[[i0 a0] z0] n0]|]; [lia|exact Logic.I].
  Qed.

  Lemma sp_batch_loop : forall n j c p, sp (InvX TNone) (InvX TNone) (batch_loop cf n j c p) top.
  Proof.
    induction n as [|n IH]; intros j c p; cbn [batch_loop]; [apply sp_X; intros; apply sp_ret; exact Logic.I|].
    intros s a s' (loc & cr & HI) H.
    minv H u s1 E. apply modify_inv in E. subst s1.
    minv H i s1 E. apply gets_inv in E as [-> ->]. cbn [arr set a_created] in H.
    minv H u0 s1 E. assert (s1 = s <| arr := arr s <| a_created := a_created (arr s) + 1 |> |>) as -> by (destruct (1 <=? j); [apply ret_inv in E as [_ ->]; reflexivity|discriminate]). clear E.
    minv H nd0 s1 E. apply get_node_inv in E as (-> & _).
    minv H r s1 E. apply route_of_inv in E as ->.
    minv H u1 s1 E. unfold put_ind in E. apply modify_inv in E. subst s1.
    assert (Hcr : a_created (arr s) = cr) by apply HI. rewrite Hcr in H.
    pose proof (Inv_create loc cr s c p r HI) as HI1. rewrite Hcr in HI1.
    match type of H with ?m _ = _ => assert (R : sp (InvX (TRec (cr + 1))) (InvX TNone) m top) end.
    { spb ltac:(apply sp_release_individual). intros _ _. apply IH. }
    destruct a. refine (R _ _ _ _ H). eapply InvX_of. exact HI1.
  Qed.

  Lemma sp_arrival_have_event : sp (InvX TNone) (InvX TNone) (arrival_have_event cf) top.
  Proof.
    unfold arrival_have_event.
    spb ltac:(apply sp_gets). intros a0 _. cbv zeta.
    spb ltac:(apply sp_X; intros; apply spI_draw_batch). intros b _.
    eapply sp_bind with (phi := top) (J := InvX TNone); [destruct (b <? 0); [apply sp_fail|apply sp_ret; exact Logic.I]|]. intros _ _.
    spb ltac:(apply sp_lift). intros p _.
    spb ltac:(apply sp_batch_loop). intros _ _.
    apply sp_X. intros loc cr. repeat sp_step.
  Qed.

  Lemma sp_have_event : sp (InvX TNone) (InvX TNone) (have_event cf) top.
  Proof.
    unfold have_event. spb ltac:(apply sp_X; intros; apply spI_same; intros ?; repeat split; reflexivity). intros _ _.
    spb ltac:(apply sp_gets). intros k _. destruct (k =? 0); [apply sp_arrival_have_event|apply sp_node_have_event].
  Qed.
End RenInv.

(* ---------- from one event to the next ---------- *)
Lemma Inv_ext cf inf_at inf_at' t nn fr loc loc' tr cr s :
  (forall id, loc' id = loc id) -> (forall j, 1 <= j <= Z.of_nat nn -> inf_at' j = inf_at j) ->
  Inv cf inf_at t nn fr loc tr cr s -> Inv cf inf_at' t nn fr loc' tr cr s.
Proof.
  intros HL HF (A & B & C & D & E & F & G & H & K & L). unfold Inv. repeat (split; [assumption|]). split; [|split; [|split; [|auto]]].
  - eapply Forall_impl; [|exact F]. intros y (YA & YB & YC). split; [exact YA|]. split; [|exact YC].
    intros Ho. destruct (YB Ho) as [(j & Hj & Hl) HP]. split; [exists j; rewrite HL; auto|].
    intros j' Hj' Hr Hi. apply (HP j' Hj' Hr). rewrite <- HF; [exact Hi|]. rewrite Hj in Hj'. injection Hj' as <-. eapply H; eauto.
  - intros k nd Hk. destruct (G _ _ Hk) as (M1 & M2 & M3 & M4). pose proof (D _ _ Hk) as Hid.
    assert (Hlt : (k < length (nodes s))%nat) by (apply nth_error_Some; rewrite Hk; discriminate).
    split; [rewrite HF; [exact M1|lia]|]. split; [exact M2|]. split.
    + intros id Hi. rewrite HL. apply M3. exact Hi.
    + intros id Ho Hl. rewrite HL in Hl. apply M4; assumption.
  - intros id j Hl. rewrite HL in Hl. eapply H; eauto.
Qed.
Lemma Inv_dr cf inf_at t nn fr loc tr cr s d : Inv cf inf_at t nn fr loc tr cr s -> Forall (fun p => 0 <= p) (d_ren d) ->
  Inv cf inf_at t nn fr loc tr cr (s <| dr := d |>).
Proof. intros HI Hd. eapply Inv_same; [exact HI|reflexivity|reflexivity|reflexivity|reflexivity|exact Hd]. Qed.

Lemma Inv_nodes_nfix cf inf_at t nn fr loc tr cr s s2 : Inv cf inf_at t nn fr loc tr cr s -> Idx s2 -> same_but_nodes s s2 ->
  length (nodes s2) = length (nodes s) ->
  (forall k nd', nth_error (nodes s2) k = Some nd' -> exists nd, nth_error (nodes s) k = Some nd /\ nfix nd nd') ->
  Inv cf inf_at t nn fr loc tr cr s2.
Proof.
  intros (A & B & C & D & E & F & G & H & K & L) HI2 (S1 & S2 & S3 & S4 & S5 & S6 & S7 & S8 & S9 & S10) HL HN.
  unfold Inv. rewrite S1, S3, S7, S8, HL. repeat (split; [assumption|]). split; [|auto].
  intros k nd' Hk. destruct (HN _ _ Hk) as (nd & Hk0 & (F1 & F2 & F3 & _)).
  apply (NodeOK_nrel inf_at loc tr cr nd nd'); [eapply G; eauto|exact F1|exact F2|unfold nd_inf; rewrite F3; reflexivity].
Qed.

Lemma Inv_now cf inf_at t nn fr loc cr s2 s' : Inv cf inf_at t nn fr loc TNone cr s2 ->
  (forall k nd, nth_error (nodes s2) k = Some nd -> UQ cf (inds s2) nd) ->
  find_next_active_node s2 = Ok (tt, s') ->
  Inv cf inf_at (now s') nn fr loc TNone cr s' /\
  (forall nd, In nd (nodes s') -> n_next_type nd = 2 -> exists z, n_next_date nd = Some z /\ t <= z).
Proof.
  intros (A & B & C & D & E & F & G & H & K & L) HU HF.
  destruct (find_next_active_node_spec _ _ HF) as (N1 & N2 & N3 & _ & _ & _ & _ & _ & N9 & d & Hnow & _ & Hall & _).
  rewrite Forall_forall in F.
  (* every waiting customer of a finite node with reneging bounds that node's next date, hence the new clock *)
  assert (Bound : forall y j z, In y (inds s2) -> i_node y = Some j -> loc (i_id y) = Some j -> ren_at cf j = true -> inf_at j = false ->
                    i_ren y = XV z -> i_server y = None -> now s' <= z).
  { intros y j z Hy Hj Hl Hr Hi Hz Hs.
    destruct (H _ _ Hl) as [Hj1 Hj2].
    destruct (nth_error (nodes s2) (Z.to_nat (j - 1))) as [nd|] eqn:Hk; [|apply nth_error_None in Hk; lia].
    pose proof (D _ _ Hk) as Hid. destruct (G _ _ Hk) as (M1 & M2 & M3 & M4).
    assert (Hidj : n_id nd = j) by lia.
    assert (Hin : In (i_id y) (all_individuals nd)) by (apply M4; [reflexivity|rewrite Hidj; exact Hl]).
    destruct (HU _ _ Hk) as (nc & Hc & HA & _). rewrite Hidj in Hc.
    unfold ren_at in Hr. rewrite Hc in Hr.
    destruct HA as (rd & rl & Hscan & Hle); [rewrite M1, Hidj; exact Hi|exact Hr|].
    destruct (scan_ren_min _ _ _ _ Hscan) as (_ & G2 & _).
    assert (Hw : waiting_at (inds s2) (i_id y) z) by (exists y; split; [apply find_ind_NoDup; assumption|auto]).
    pose proof (G2 _ _ Hin Hw) as Hrd.
    rewrite Forall_forall in Hall. pose proof (Hall nd (nth_error_In _ _ Hk)) as Hd.
    pose proof (dle_trans _ _ _ Hd (dle_trans _ _ _ Hle Hrd)) as Hdz. rewrite Hnow. destruct d as [t'|]; [exact Hdz|destruct Hdz]. }
  split.
  - unfold Inv. split; [reflexivity|]. split; [rewrite N3; exact B|]. split; [rewrite N1; exact C|]. split; [unfold Idx; rewrite N1; exact D|].
    split; [rewrite N2; exact E|]. split; [|split; [rewrite N1; exact G|split; [exact H|split; [rewrite N9; exact K|exact L]]]].
    rewrite N2. apply Forall_forall. intros y Hy. destruct (F y Hy) as (YA & YB & YC). split; [exact YA|]. split; [|exact YC].
    intros Ho. destruct (YB Ho) as [(j & Hj & Hl) HP]. split; [exists j; auto|].
    intros j' Hj' Hr Hi. destruct (HP j' Hj' Hr Hi) as [W1 W2]. split; [exact W1|]. intros z Hz. destruct (W2 z Hz) as [W3 _]. split; [exact W3|].
    intros Hs. rewrite Hj in Hj'. injection Hj' as <-. eapply Bound; eauto.
  - rewrite N1. intros nd Hnd Hty. apply In_nth_error in Hnd as [k Hk]. destruct (HU _ _ Hk) as (nc & Hc & _ & HB).
    destruct (HB Hty) as (Hinf & Hren & Hscan & z & Hz). exists z. split; [exact Hz|].
    destruct (scan_ren_min _ _ _ _ Hscan) as (_ & _ & G3 & G4 & _).
    destruct (n_next_inds nd) as [|i l] eqn:El; [exfalso; apply G4; [rewrite Hz; discriminate|reflexivity]|].
    destruct (G3 i (or_introl eq_refl)) as (Hq & z' & (y & Hy & Hyr & Hys) & Hz'). rewrite Hz in Hz'. injection Hz' as <-.
    destruct (G _ _ Hk) as (M1 & M2 & M3 & M4). destruct (M3 _ Hq) as (_ & _ & Hl).
    pose proof (find_ind_In _ _ _ Hy) as Hyin. pose proof (find_ind_id _ _ _ Hy) as Hyid.
    destruct (F y Hyin) as (_ & YB & _). destruct (YB eq_refl) as [(j & Hj & Hl') HP]. rewrite Hyid, Hl in Hl'. injection Hl' as <-.
    assert (Hr : ren_at cf (n_id nd) = true) by (unfold ren_at; rewrite Hc; exact Hren).
    destruct (HP _ Hj Hr) as [_ W2]; [rewrite <- M1; exact Hinf|]. destruct (W2 _ Hyr) as [_ W4]. apply W4. exact Hys.
Qed.

(* ---------- the invariant, closed form ---------- *)
Definition nodraws : draws := mkDraws [] [] [] [] [] [].
Fixpoint find_q (l : list node) (id : Z) : option Z :=
  match l with [] => None | nd :: r => if memZ id (all_individuals nd) then Some (n_id nd) else find_q r id end.
(* the node in whose queue a customer is *)
Definition loc_q (s : sim) (id : Z) : option Z := find_q (nodes s) id.
Definition inf_of (s : sim) (j : Z) : bool := match nthZ (nodes s) (j - 1) with Some nd => nd_inf nd | None => false end.
Definition sched_fin (cf : config) (s : sim) : Prop :=
  forall j nc sc, nthZ (cf_nodes cf) (j - 1) = Some nc -> nc_srv nc = SSched sc -> inf_of s j = false.
Definition RenInvF (cf : config) (fr : option (Z * Z * Z * Z)) (s : sim) : Prop :=
  Inv cf (inf_of s) (now s) (length (nodes s)) fr (loc_q s) TNone (a_created (arr s)) (s <| dr := nodraws |>) /\ sched_fin cf s.
Definition RenInv (cf : config) (s : sim) : Prop := RenInvF cf None s.

Lemma find_q_Some l id j : find_q l id = Some j -> exists nd, In nd l /\ n_id nd = j /\ In id (all_individuals nd).
Proof.
  induction l as [|nd r IH]; cbn; [discriminate|]. destruct (memZ id (all_individuals nd)) eqn:E.
  - intros H. injection H as <-. exists nd. split; [left; reflexivity|]. split; [reflexivity|apply memZ_In; exact E].
  - intros H. destruct (IH H) as (nd' & Hin & R). exists nd'. split; [right; exact Hin|exact R].
Qed.
Lemma find_q_None l id : find_q l id = None -> forall nd, In nd l -> ~ In id (all_individuals nd).
Proof.
  induction l as [|nd r IH]; cbn; [intros _ nd []|]. destruct (memZ id (all_individuals nd)) eqn:E; [discriminate|].
  intros H nd' [<-|Hin]; [intros Hi; apply memZ_In in Hi; congruence|apply IH; assumption].
Qed.

Lemma Inv_canon cf inf_at t nn fr loc cr s : Inv cf inf_at t nn fr loc TNone cr s ->
  (forall j nc sc, nthZ (cf_nodes cf) (j - 1) = Some nc -> nc_srv nc = SSched sc -> inf_at j = false) ->
  Inv cf (inf_of s) t (length (nodes s)) fr (loc_q s) TNone (a_created (arr s)) s /\ sched_fin cf s.
Proof.
  intros HI Hsch. pose proof HI as (A & B & C & D & E & F & G & H & K & L).
  assert (Hinf : forall j, 1 <= j <= Z.of_nat nn -> inf_of s j = inf_at j).
  { intros j Hj. unfold inf_of, nthZ. destruct (j - 1 <? 0) eqn:Ej; [apply Z.ltb_lt in Ej; lia|].
    destruct (nth_error (nodes s) (Z.to_nat (j - 1))) as [nd|] eqn:Hk; [|apply nth_error_None in Hk; lia].
    destruct (G _ _ Hk) as (M1 & _). rewrite M1. f_equal. rewrite (D _ _ Hk). lia. }
  split.
  - rewrite B, C. apply (Inv_ext cf inf_at (inf_of s) t nn fr loc (loc_q s)); [|exact Hinf|exact HI].
    intros id. unfold loc_q. destruct (find_q (nodes s) id) as [j|] eqn:Eq.
    + destruct (find_q_Some _ _ _ Eq) as (nd & Hin & Hid & Hi). apply In_nth_error in Hin as [k Hk]. destruct (G _ _ Hk) as (_ & _ & M3 & _).
      destruct (M3 _ Hi) as (_ & _ & Hl). rewrite Hl, Hid. reflexivity.
    + destruct (loc id) as [j|] eqn:El; [|reflexivity]. exfalso. destruct (H _ _ El) as [Hj1 Hj2].
      destruct (nth_error (nodes s) (Z.to_nat (j - 1))) as [nd|] eqn:Hk; [|apply nth_error_None in Hk; lia].
      destruct (G _ _ Hk) as (_ & _ & _ & M4). apply (find_q_None _ _ Eq nd (nth_error_In _ _ Hk)). apply M4; [reflexivity|]. rewrite El, (D _ _ Hk). f_equal. lia.
  - intros j nc sc Hc Hs. destruct (Z_le_dec 1 j) as [Hj1|Hj1]; [destruct (Z_le_dec j (Z.of_nat nn)) as [Hj2|Hj2]|].
    + rewrite Hinf by lia. eapply Hsch; eauto.
    + unfold inf_of, nthZ. destruct (j - 1 <? 0); [reflexivity|]. destruct (nth_error (nodes s) (Z.to_nat (j - 1))) eqn:Hk; [|reflexivity].
      assert (Hlt : (Z.to_nat (j - 1) < length (nodes s))%nat) by (apply nth_error_Some; rewrite Hk; discriminate). lia.
    + unfold inf_of, nthZ. destruct (j - 1 <? 0) eqn:Ej; [reflexivity|apply Z.ltb_ge in Ej; lia].
Qed.

(* (b): the invariant is kept by every event of the model, and no renege is ever scheduled in the past *)
Theorem event_step_RenInvF cf fr s d s' : nopre cf = true -> RenInvF cf fr s -> Forall (fun p => 0 <= p) (d_ren d) ->
  event_step cf (s <| dr := d |>) = Ok (tt, s') ->
  RenInvF cf fr s' /\
  (forall nd, In nd (nodes s') -> n_next_type nd = 2 -> exists z, n_next_date nd = Some z /\ now s <= z).
Proof.
  intros Hpre [HI HS] Hd H.
  pose proof (Inv_dr _ _ _ _ _ _ _ _ _ d HI Hd) as HI0. change (s <| dr := nodraws |> <| dr := d |>) with (s <| dr := d |>) in HI0.
  destruct (event_step_inv _ _ _ H) as (s1 & s2 & E1 & E2 & E3).
  destruct (sp_have_event cf (inf_of s) (now s) (length (nodes s)) fr Hpre HS _ _ _ (InvX_of _ _ _ _ _ _ _ _ _ HI0) E1) as [(loc1 & cr1 & HI1) _].
  assert (HX1 : Idx s1) by apply HI1.
  destruct (update_all_spec _ _ _ _ HX1 E2) as (HX2 & HSame & HL & HN).
  assert (HI2 : Inv cf (inf_of s) (now s) (length (nodes s)) fr loc1 TNone cr1 s2).
  { eapply Inv_nodes_nfix; [exact HI1|exact HX2|exact HSame|exact HL|]. intros k nd' Hk. destruct (HN _ _ Hk) as (nd & Hk0 & Hf & _). eauto. }
  assert (HU : forall k nd, nth_error (nodes s2) k = Some nd -> UQ cf (inds s2) nd).
  { intros k nd Hk. destruct (HN _ _ Hk) as (nd0 & Hk0 & _ & HA & _). destruct HSame as (_ & _ & _ & _ & _ & _ & HS7 & _). rewrite HS7. apply HA.
    rewrite <- (HX1 _ _ Hk0). apply in_map. eapply nth_error_In; eauto. }
  destruct (Inv_now _ _ _ _ _ _ _ _ _ HI2 HU E3) as [HI3 Hpast].
  split; [|exact Hpast].
  destruct (Inv_canon _ _ _ _ _ _ _ _ HI3 HS) as [HI4 HS4]. split; [|exact HS4].
  apply Inv_dr; [exact HI4|constructor].
Qed.

Theorem run_many_RenInvF cf fr : nopre cf = true -> forall ds s s', RenInvF cf fr s ->
  Forall (fun d => Forall (fun p => 0 <= p) (d_ren d)) ds -> run_many cf s ds = Ok s' -> RenInvF cf fr s'.
Proof.
  intros Hpre. induction ds as [|d r IH]; intros s s' HI Hd H; cbn [run_many] in H; [injection H as <-; exact HI|].
  destruct (event_step cf (s <| dr := d |>)) as [[[] s1]| |] eqn:E; try discriminate.
  inversion Hd as [|? ? Hd1 Hd2]; subst. eapply IH; [|exact Hd2|exact H]. eapply event_step_RenInvF; eauto.
Qed.

(* ---------- what the invariant says, in the words of the property ---------- *)
Theorem RenInv_means cf s : RenInv cf s ->
  (* every customer is in the queue of the node it believes to be at *)
  (forall x, In x (inds s) -> exists j nd, i_node x = Some j /\ 1 <= j /\ nthZ (nodes s) (j - 1) = Some nd /\ In (i_id x) (all_individuals nd)) /\
  (* at a node with reneging and finitely many servers, everybody in the queue has a reneging date (a number or "never") that is not
     before its arrival date, and nobody without a server has outwaited it *)
  (forall j nd nc, 1 <= j -> nthZ (nodes s) (j - 1) = Some nd -> nthZ (cf_nodes cf) (j - 1) = Some nc -> nc_reneging nc = true -> n_c nd <> None ->
     forall id x, In id (all_individuals nd) -> find_ind id (inds s) = Some x ->
       i_node x = Some j /\ i_ren x <> XU /\
       forall z, i_ren x = XV z -> (exists a, i_arr x = Some a /\ a <= z) /\ (i_server x = None -> now s <= z)).
Proof.
  intros [(A & B & C & D & E & F & G & H & K & L) _]. cbn [now arr nodes inds dr set] in *. rewrite Forall_forall in F. split.
  - intros x Hx. destruct (F x Hx) as (_ & YB & _). destruct (YB eq_refl) as [(j & Hj & Hl) _]. destruct (H _ _ Hl) as [Hj1 Hj2].
    destruct (nth_error (nodes s) (Z.to_nat (j - 1))) as [nd|] eqn:Hk; [|apply nth_error_None in Hk; lia].
    exists j, nd. split; [exact Hj|]. split; [exact Hj1|]. split; [unfold nthZ; destruct (j - 1 <? 0) eqn:Ej; [apply Z.ltb_lt in Ej; lia|exact Hk]|].
    destruct (G _ _ Hk) as (_ & _ & _ & M4). apply M4; [reflexivity|]. rewrite Hl, (D _ _ Hk). f_equal. lia.
  - intros j nd nc Hj Hn Hc Hr Hfin id x Hin Hx. destruct (nthZ_nat _ _ _ Hn) as [Hj0 Hk]. destruct (G _ _ Hk) as (_ & _ & M3 & _).
    destruct (M3 _ Hin) as (_ & _ & Hl). pose proof (D _ _ Hk) as Hid. assert (Hidj : n_id nd = j) by lia. rewrite Hidj in Hl.
    pose proof (find_ind_id _ _ _ Hx) as Hxi. destruct (F x (find_ind_In _ _ _ Hx)) as (_ & YB & _). destruct (YB eq_refl) as [(j' & Hj' & Hl') HP].
    rewrite Hxi, Hl in Hl'. injection Hl' as <-. split; [exact Hj'|].
    assert (R1 : ren_at cf j = true) by (unfold ren_at; rewrite Hc; exact Hr).
    assert (R2 : inf_of s j = false) by (unfold inf_of; rewrite Hn; unfold nd_inf; destruct (n_c nd); [reflexivity|congruence]).
    destruct (HP _ Hj' R1 R2) as [W1 W2]. split; [exact W1|exact W2].
Qed.

(* ---------- the frame: the stamp written at arrival is the one that is there as long as no record is written ---------- *)
Lemma Inv_fr_intro cf inf_at t nn loc cr s i0 a0 z0 n0 : Inv cf inf_at t nn None loc TNone cr s -> i0 <= cr ->
  (forall y, In y (inds s) -> i_id y = i0 -> Held a0 z0 n0 y) -> Inv cf inf_at t nn (Some (i0, a0, z0, n0)) loc TNone cr s.
Proof.
  intros (A & B & C & D & E & F & G & H & K & L) Hi HH. unfold Inv. repeat (split; [assumption|]). split; [|split; [exact G|split; [exact H|split; [exact K|exact Hi]]]].
  apply Forall_forall. intros y Hy. rewrite Forall_forall in F. destruct (F y Hy) as (YA & YB & _). split; [exact YA|]. split; [exact YB|].
  unfold FR. intros Hyi. apply HH; assumption.
Qed.
Theorem stamp_is_kept cf : nopre cf = true -> forall ds s s' i x x' a z, RenInv cf s ->
  Forall (fun d => Forall (fun p => 0 <= p) (d_ren d)) ds -> run_many cf s ds = Ok s' ->
  find_ind i (inds s) = Some x -> i_arr x = Some a -> i_ren x = XV z ->
  find_ind i (inds s') = Some x' -> i_nrec x' = i_nrec x ->
  i_arr x' = Some a /\ i_ren x' = XV z.
Proof.
  intros Hpre ds s s' i x x' a z [HI HS] Hd H Hx Ha Hz Hx' Hn.
  assert (HF : RenInvF cf (Some (i, a, z, i_nrec x)) s).
  { split; [|exact HS]. apply Inv_fr_intro; [exact HI| |].
    - destruct HI as (_ & _ & _ & _ & _ & F & _). cbn [inds set] in F. rewrite Forall_forall in F.
      destruct (F x (find_ind_In _ _ _ Hx)) as (YA & _). rewrite (find_ind_id _ _ _ Hx) in YA. exact YA.
    - cbn [inds set]. intros y Hy Hyi. destruct HI as (_ & _ & _ & _ & E & _). cbn [inds set] in E.
      pose proof (find_ind_NoDup _ _ E Hy) as Hfy. rewrite Hyi, Hx in Hfy. injection Hfy as <-. split; [lia|auto]. }
  destruct (run_many_RenInvF cf _ Hpre ds s s' HF Hd H) as [(_ & _ & _ & _ & _ & F & _) _]. cbn [inds set] in F. rewrite Forall_forall in F.
  destruct (F x' (find_ind_In _ _ _ Hx')) as (_ & _ & YC). unfold FR in YC. destruct (YC (find_ind_id _ _ _ Hx')) as [_ Y2]. apply Y2. exact Hn.
Qed.

(* ---------- an executable check of the invariant ---------- *)
Definition wait_ok_b (t : Z) (x : ind) : bool :=
  match i_ren x with
  | XU => false
  | XI => true
  | XV z => (match i_arr x with Some a => a <=? z | None => false end) && (match i_server x with None => t <=? z | Some _ => true end)
  end.
Definition fr_ok_b (fr : option (Z * Z * Z * Z)) (x : ind) : bool :=
  match fr with
  | None => true
  | Some (i0, a0, z0, n0) =>
    if i_id x =? i0 then
      (n0 <=? i_nrec x) &&
      (if i_nrec x =? n0 then (match i_arr x with Some a => a =? a0 | None => false end) && (match i_ren x with XV z => z =? z0 | _ => false end) else true)
    else true
  end.
Definition ind_ok_b (cf : config) (s : sim) (fr : option (Z * Z * Z * Z)) (x : ind) : bool :=
  (i_id x <=? a_created (arr s)) &&
  (match i_node x with
   | Some j => (match loc_q s (i_id x) with Some j' => j' =? j | None => false end) &&
               (if ren_at cf j && negb (inf_of s j) then wait_ok_b (now s) x else true)
   | None => false
   end) &&
  fr_ok_b fr x.
Fixpoint idx_b (l : list node) (k : Z) : bool := match l with [] => true | nd :: r => (n_id nd =? k) && idx_b r (k + 1) end.
Fixpoint nodup_b (l : list Z) : bool := match l with [] => true | a :: r => negb (memZ a r) && nodup_b r end.
Definition node_ok_b (s : sim) (nd : node) : bool :=
  nodup_b (all_individuals nd) &&
  forallb (fun id => (id <=? a_created (arr s)) && (match loc_q s id with Some j => j =? n_id nd | None => false end)) (all_individuals nd).
Fixpoint sched_fin_b (ncs : list ncfg) (s : sim) (j : Z) : bool :=
  match ncs with
  | [] => true
  | nc :: r => (match nc_srv nc with SSched _ => negb (inf_of s j) | _ => true end) && sched_fin_b r s (j + 1)
  end.
Definition RenInvF_b (cf : config) (fr : option (Z * Z * Z * Z)) (s : sim) : bool :=
  idx_b (nodes s) 1 && nodup_b (map i_id (inds s)) && forallb (ind_ok_b cf s fr) (inds s) && forallb (node_ok_b s) (nodes s) &&
  (match fr with Some (i0, _, _, _) => i0 <=? a_created (arr s) | None => true end) && sched_fin_b (cf_nodes cf) s 1.
Definition RenInv_b (cf : config) (s : sim) : bool := RenInvF_b cf None s.

Lemma idx_b_sound : forall l k, idx_b l k = true -> forall n nd, nth_error l n = Some nd -> n_id nd = Z.of_nat n + k.
Proof.
  induction l as [|a l IH]; intros k H n nd Hn; [destruct n; discriminate|]. cbn in H. apply andb_true_iff in H as [H1 H2]. apply Z.eqb_eq in H1.
  destruct n as [|n]; [change (nth_error (a :: l) 0) with (Some a) in Hn; injection Hn as <-; lia|]. change (nth_error (a :: l) (S n)) with (nth_error l n) in Hn. rewrite (IH _ H2 _ _ Hn). lia.
Qed.
Lemma nodup_b_sound : forall l, nodup_b l = true -> NoDup l.
Proof.
  induction l as [|a l IH]; cbn; intros H; [constructor|]. apply andb_true_iff in H as [H1 H2]. apply negb_true_iff in H1.
  constructor; [intros Hin; apply memZ_In in Hin; congruence|apply IH; exact H2].
Qed.
Lemma sched_fin_b_sound : forall ncs s j0, sched_fin_b ncs s j0 = true ->
  forall n nc sc, nth_error ncs n = Some nc -> nc_srv nc = SSched sc -> inf_of s (j0 + Z.of_nat n) = false.
Proof.
  induction ncs as [|a l IH]; intros s j0 H n nc sc Hn Hs; [destruct n; discriminate|]. cbn in H. apply andb_true_iff in H as [H1 H2].
  destruct n as [|n].
  - change (nth_error (a :: l) 0) with (Some a) in Hn. injection Hn as <-. rewrite Hs in H1. apply negb_true_iff in H1. replace (j0 + Z.of_nat 0) with j0 by lia. exact H1.
  - change (nth_error (a :: l) (S n)) with (nth_error l n) in Hn. replace (j0 + Z.of_nat (S n)) with (j0 + 1 + Z.of_nat n) by lia. eapply IH; eauto.
Qed.

Theorem RenInvF_b_sound cf fr s : RenInvF_b cf fr s = true -> RenInvF cf fr s.
Proof.
  unfold RenInvF_b. intros H. repeat (apply andb_true_iff in H as [H ?]).
  match goal with Hx : sched_fin_b _ _ _ = true |- _ => rename Hx into HS end.
  match goal with Hx : match fr with _ => _ end = true |- _ => rename Hx into HL end.
  match goal with Hx : forallb (node_ok_b s) _ = true |- _ => rename Hx into HN end.
  match goal with Hx : forallb (ind_ok_b cf s fr) _ = true |- _ => rename Hx into HF end.
  match goal with Hx : nodup_b _ = true |- _ => rename Hx into HE end.
  assert (HI : Idx s) by (intros k nd Hk; rewrite (idx_b_sound _ _ H _ _ Hk); lia).
  assert (Hlocq : forall id k nd, nth_error (nodes s) k = Some nd -> loc_q s id = Some (n_id nd) -> In id (all_individuals nd)).
  { intros id k nd Hk Hl. destruct (find_q_Some _ _ _ Hl) as (nd' & Hin & Hid & Hi). apply In_nth_error in Hin as [k' Hk'].
    assert (k' = k) by (pose proof (HI _ _ Hk); pose proof (HI _ _ Hk'); lia). subst k'. rewrite Hk in Hk'. injection Hk' as <-. exact Hi. }
  split.
  - unfold Inv. cbn [now arr nodes inds dr set]. split; [reflexivity|]. split; [reflexivity|]. split; [reflexivity|]. split; [exact HI|].
    split; [apply nodup_b_sound; exact HE|]. split; [|split; [|split; [|split; [constructor|]]]].
    + apply Forall_forall. intros x Hx. rewrite forallb_forall in HF. specialize (HF x Hx). unfold ind_ok_b in HF.
      apply andb_true_iff in HF as [HF F3]. apply andb_true_iff in HF as [F1 F2]. apply Z.leb_le in F1. split; [exact F1|]. split.
      * intros _. destruct (i_node x) as [j|] eqn:Ej; [|discriminate]. apply andb_true_iff in F2 as [F2 F4].
        destruct (loc_q s (i_id x)) as [j'|] eqn:El; [|discriminate]. apply Z.eqb_eq in F2. subst j'. split; [exists j; auto|].
        intros j0 Hj0 Hr Hi. rewrite Ej in Hj0. injection Hj0 as <-. change (inf_of (s <| dr := nodraws |>) j) with (inf_of s j) in Hi. rewrite Hr, Hi in F4. cbn in F4.
        unfold wait_ok_b in F4. unfold wait_ok. destruct (i_ren x) as [| |z]; [discriminate|split; [discriminate|intros z Hz; discriminate]|].
        split; [discriminate|]. intros z' Hz'. injection Hz' as <-. apply andb_true_iff in F4 as [F5 F6].
        destruct (i_arr x) as [a|]; [|discriminate]. apply Z.leb_le in F5. split; [exists a; auto|]. intros Hs. rewrite Hs in F6. apply Z.leb_le in F6. exact F6.
      * unfold FR. unfold fr_ok_b in F3. destruct fr as [[[[i0 a0] z0] n0]|]; [|exact Logic.I]. intros Hi0. rewrite Hi0, Z.eqb_refl in F3.
        apply andb_true_iff in F3 as [F5 F6]. apply Z.leb_le in F5. split; [exact F5|]. intros Hn. rewrite Hn, Z.eqb_refl in F6.
        apply andb_true_iff in F6 as [F7 F8]. destruct (i_arr x) as [a|]; [|discriminate]. apply Z.eqb_eq in F7. destruct (i_ren x) as [| |z]; try discriminate. apply Z.eqb_eq in F8. subst. auto.
    + intros k nd Hk. rewrite forallb_forall in HN. pose proof (HN nd (nth_error_In _ _ Hk)) as Hnd. unfold node_ok_b in Hnd.
      apply andb_true_iff in Hnd as [N1 N2]. rewrite forallb_forall in N2.
      split; [|split; [apply nodup_b_sound; exact N1|split]].
      * change (inf_of (s <| dr := nodraws |>)) with (inf_of s). unfold inf_of. rewrite (HI _ _ Hk). replace (Z.of_nat k + 1 - 1) with (Z.of_nat k) by lia. rewrite nthZ_of_nat, Hk. reflexivity.
      * intros id Hi. specialize (N2 id Hi). apply andb_true_iff in N2 as [N3 N4]. apply Z.leb_le in N3. split; [exact N3|]. split; [reflexivity|].
        change (loc_q (s <| dr := nodraws |>)) with (loc_q s). destruct (loc_q s id) as [j|]; [|discriminate]. apply Z.eqb_eq in N4. rewrite N4. reflexivity.
      * intros id _ Hl. eapply Hlocq; eauto.
    + intros id j Hl. change (loc_q (s <| dr := nodraws |>)) with (loc_q s) in Hl. destruct (find_q_Some _ _ _ Hl) as (nd' & Hin & Hid & _). apply In_nth_error in Hin as [k' Hk'].
      pose proof (HI _ _ Hk'). assert (Hlt : (k' < length (nodes s))%nat) by (apply nth_error_Some; rewrite Hk'; discriminate). lia.
    + destruct fr as [[[[i0 a0] z0] n0]|]; [apply Z.leb_le; exact HL|exact Logic.I].
  - intros j nc sc Hc Hs. destruct (nthZ_nat _ _ _ Hc) as [Hj0 Hk]. pose proof (sched_fin_b_sound _ _ _ HS _ _ _ Hk Hs) as R.
    replace (1 + Z.of_nat (Z.to_nat (j - 1))) with j in R by lia. exact R.
Qed.
Corollary RenInv_b_sound cf s : RenInv_b cf s = true -> RenInv cf s.
Proof. apply RenInvF_b_sound. Qed.

(* after any event, every node carries what update_next_event_date computed from the customers of that moment: in particular
   the next date of a finite node with reneging is at most the minimum reneging date of its waiting customers, and when its
   next event is a renege, date and candidates are exactly that minimum and those who attain it (scan_ren_min) *)
Theorem event_step_candidates cf s s' : Idx s -> event_step cf s = Ok (tt, s') -> forall nd, In nd (nodes s') -> UQ cf (inds s') nd.
Proof.
  intros HI H nd Hnd. destruct (event_step_inv _ _ _ H) as (s1 & s2 & E1 & E2 & E3).
  pose proof (Idx_have_event _ _ _ HI E1) as HI1. destruct (update_all_spec _ _ _ _ HI1 E2) as (_ & HS & _ & HN).
  destruct (find_next_active_node_spec _ _ E3) as (N1 & N2 & _). rewrite N1 in Hnd. rewrite N2.
  apply In_nth_error in Hnd as [k Hk]. destruct (HN _ _ Hk) as (nd0 & Hk0 & _ & HA & _).
  destruct HS as (_ & _ & _ & _ & _ & _ & HS7 & _). rewrite HS7. apply HA. rewrite <- (HI1 _ _ Hk0). apply in_map. eapply nth_error_In; eauto.
Qed.

(* ---------- a concrete run: one node, one server, reneging ---------- *)
Definition ex_nc : ncfg := mkNcfg None None 0 SFixed 0 true [true] 0.
Definition ex_cf : config := mkCfg 1 [ex_nc] [0] 1 None [RtNR [RLeave]] [[None]] false [[false]].
Definition ex_node : node :=
  mkNode 1 0 0 [[]] [mkServer 1 None false None 0 None 0 false 0 None] [] 0 None [] (Some 1) 1 [] 0 [] [] [] 5 None 0 None None.
Definition ex_s0 : sim := mkSim 0 0 (mkArr 0 0 [[Some 0]] 1 0 (Some 0)) [ex_node] [] 0 0 [] nodraws [] [[0]].
(* draws of one event: inter-arrival, batch, service, uniform, patience, class-change *)
Definition ex_ds : list draws :=
  [ mkDraws [1] [1] [5] [] [3] [];      (* t = 0: customer 1 arrives (patience 3), is served at once until 5; next arrival at 1 *)
    mkDraws [10] [1] [] [] [3] [] ].    (* t = 1: customer 2 arrives (patience 3: reneging date 4) and waits; next arrival at 11 *)
Definition ex_s2 : sim := Eval vm_compute in match run_many ex_cf ex_s0 ex_ds with Ok s => s | _ => ex_s0 end.
Example ex_scope : nopre ex_cf = true. Proof. vm_compute. reflexivity. Qed.
Example ex_inv0 : RenInv_b ex_cf ex_s0 = true. Proof. vm_compute. reflexivity. Qed.
Example ex_run2 : run_many ex_cf ex_s0 ex_ds = Ok ex_s2. Proof. vm_compute. reflexivity. Qed.
Example ex_inv2 : RenInv_b ex_cf ex_s2 = true. Proof. vm_compute. reflexivity. Qed.
Example ex_inv2' : RenInv ex_cf ex_s2. Proof. apply RenInv_b_sound. exact ex_inv2. Qed.
(* customer 2 waits with reneging date 4 = arrival date 1 + patience 3; the clock stands at 4 and node 1 is about to execute a renege *)
Example ex_waiting : exists x, find_ind 2 (inds ex_s2) = Some x /\ i_arr x = Some 1 /\ i_ren x = XV 4 /\ i_server x = None /\
  now ex_s2 = 4 /\ next_active ex_s2 = 1 /\ map n_next_type (nodes ex_s2) = [2] /\ map n_next_inds (nodes ex_s2) = [[2]].
Proof. eexists. vm_compute. repeat split; reflexivity. Qed.
(* the next event is that renege: one record of type 2 with arrival date 1 and exit date 4, customer 2 is at the exit *)
Example ex_renege : exists s3, run_many ex_cf ex_s2 [nodraws] = Ok s3 /\ map r_type (log s3) = [2] /\ map r_id (log s3) = [2] /\
  map r_arr (log s3) = [Some 1] /\ map r_exit (log s3) = [Some 4] /\ exit_ids s3 = [2] /\ exit_completed s3 = 0 /\ RenInv_b ex_cf s3 = true.
Proof. eexists. vm_compute. repeat split; reflexivity. Qed.
Example ex_baulk_table : baulk_p4 [0; 2; 4] 0 = 0 /\ baulk_p4 [0; 2; 4] 1 = 2 /\ baulk_p4 [0; 2; 4] 7 = 4. Proof. vm_compute. auto. Qed.

(* ---------- outside the scope: finding F-02c ---------- *)
(* one node, one server, priority pre-emption (resume); class 1 (low priority) has a reneging distribution *)
Definition rf_nc : ncfg := mkNcfg None None 0 SFixed 1 true [false; true] 0.
Definition rf_cf : config := mkCfg 2 [rf_nc] [0; 1] 2 None [RtNR [RLeave]; RtNR [RLeave]] [[None]; [None]] false [[false; false]; [false; false]].
Definition rf_node : node :=
  mkNode 1 0 0 [[]; []] [mkServer 1 None false None 0 None 0 false 0 None] [] 0 None [] (Some 1) 1 [] 0 [] [] [] 5 None 0 None None.
Definition rf_s0 : sim := mkSim 0 0 (mkArr 0 0 [[Some 5; Some 0]] 1 1 (Some 0)) [rf_node] [] 0 0 [] nodraws [] [[0]; [0]].
Definition rf_d1 : draws := mkDraws [100] [1] [10] [] [2] [].   (* t = 0: a class-1 customer arrives (patience 2) and is served at once until 10 *)
Definition rf_d2 : draws := mkDraws [100] [1] [3] [] [] [].     (* t = 5: a class-0 customer arrives and pre-empts it *)
Definition rf_s1 : sim := Eval vm_compute in match run_many rf_cf rf_s0 [rf_d1] with Ok s => s | _ => rf_s0 end.
Definition rf_s2 : sim := Eval vm_compute in match event_step rf_cf (rf_s1 <| dr := rf_d2 |>) with Ok (_, s) => s | _ => rf_s0 end.
(* with pre-emption the second claim of event_step_RenInvF is false: the pre-empted customer goes back to waiting with the reneging
   date 2 it was given at arrival, which passed while it was in service; its renege is scheduled at 2 although the clock stands
   at 5, and the clock moves back to 2 *)
Theorem no_past_renege_refuted : exists cf s d s',
  nopre cf = false /\ RenInv_b cf s = true /\ Forall (fun p => 0 <= p) (d_ren d) /\ event_step cf (s <| dr := d |>) = Ok (tt, s') /\
  exists nd z, In nd (nodes s') /\ n_next_type nd = 2 /\ n_next_date nd = Some z /\ z < now s /\ now s' < now s.
Proof.
  exists rf_cf, rf_s1, rf_d2, rf_s2. split; [vm_compute; reflexivity|]. split; [vm_compute; reflexivity|]. split; [constructor|].
  split; [vm_compute; reflexivity|]. eexists. exists 2. split; [left; reflexivity|]. vm_compute. repeat split; reflexivity.
Qed.

Print Assumptions release_individual_spec.
Print Assumptions never_baulks_at_0.
Print Assumptions always_baulks_at_1.
Print Assumptions turned_away_never_enters.
Print Assumptions next_renege_selected.
Print Assumptions accept_stamps.
Print Assumptions renege_spec.
Print Assumptions event_step_candidates.
Print Assumptions event_step_RenInvF.
Print Assumptions run_many_RenInvF.
Print Assumptions RenInv_means.
Print Assumptions stamp_is_kept.
Print Assumptions RenInvF_b_sound.
Print Assumptions ex_renege.
Print Assumptions no_past_renege_refuted.

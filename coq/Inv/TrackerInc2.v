(* TrackerInc2.v -- T2 for C17 (state trackers equal the true configuration) on the STAGE-2 engine model (Engine2.v): routers,
   reneging and jockeying, priority pre-emption (resume / restart / resample / reroute), server schedules, slotted services,
   class change while waiting.  Partial correctness: nothing is said about runs in which the model returns Err / OutOfFuel.

   Method.  The engine model does not contain the trackers.  Section 1 is an INSTRUMENTED copy (monad W = state, error and a
   writer of tracker calls) of exactly those engine functions on whose path Python calls
   self.simulation.statetracker.change_state_*: every call-free statement is the engine's own statement lifted with `up`,
   every Python call site is an `emit`:  accept -> Acc (last statement, after a nested pre-emption);  block_individual -> Blk
   (after is_blocked = True);  release -> Rel with the customer's is_blocked (after reset_individual_attributes, before the freed
   server restarts; also release(reroute=True) reached from preempt / interrupt_service);  renege -> change_state_renege =
   Rel with blocked = False;  change_customer_class_while_waiting -> Chg (after a possible pre-emption, before previous_class is
   overwritten).  No call: ExitNode.accept, the arrival node, preempt without reroute, interrupt_service without reroute,
   begin_interrupted_individuals_service, shift changes, slots.  Section 2 proves, function by function, that erasing the calls
   gives back the engine function (er_event_step : er (event_stepW cf s) = event_step cf s), so
       calls_event_step cf s := the calls event_stepW emits      (calls_many for runs)
   is a ghost function of the REAL engine run (same call type as TrackerInc.v; destination 0 = the exit node).

   Results (every oracle of draws, any number of events):
   1. EVERY configuration, only invariant Idx (node identities are positions; contained in Conserve2.WFx2; test idx2_b):
        event_step_trackers2, run_many_trackers2 : SystemPopulation and NodePopulation, folded over the calls, go from the true
        state to the true state and never raise (Tracked1); never_negative2; run_many_subset_grouped2 (NodePopulationSubset,
        GroupedNodePopulation, observed nodes / groups without repetition); run_many_rowsums2: the row sums of NaiveBlocking
        and of NodeClassMatrix are the node populations whenever these trackers do not raise -- also in the regions of the
        known defects.
   2. NaiveBlocking.  REFUTED outside a scope, by closed witnesses (new as tracker findings, in the regions of F-02b / F-02a):
        naive_blocking_refuted_F02b : begin_interrupted_individuals_service clears is_blocked without a tracker call; the tracker
                                      keeps a stale blocked count and then holds a NEGATIVE count (-1, 3);
        naive_blocking_refuted_F02a : a blocked customer that is pre-empted (resume) is served and blocked again:
                                      change_state_block twice for the same blockage, the tracker holds (-1, 2), truth (0, 1).
      PROVED in the scope scope_int (schedules / capacitated slots non-pre-emptive or `reroute`; excludes F-02b) with the
      invariants WFx2 [] and NoInt (both preserved) under the hypothesis NextUnbl (candidates of an end of service / a reneging
      are not blocked, the former are customers of the node; excludes F-02a / F-02c):
        event_step_naive_blocking2_partial, run_many_naive_blocking2_partial, naive_blocking_never_negative2.
      _partial: NextUnbl is assumed before every event (NextUnbl_run; executable nextunbl_run_b), NOT shown to be invariant
      (it is the stage-2 analogue of the NextOk clause of stage 1's Blocking.Who; it needs the server / blocked-flag link).
      Priority pre-emption of any kind, reneging, jockeying, class changes, reroute are allowed.
   3. NodeClassMatrix.  REFUTED in the region of F-02a: class_matrix_refuted_F02a (a blocked customer that is pre-empted and
      served again has previous_class overwritten a second time; change_state_release subtracts at the wrong class: the tracker
      holds (0, 1, -1) for an empty node).  No in-scope theorem for the per-class counts here (only the row sums, result 1).
   MatrixBlocking is not covered.
   Sections: 3 Hoare logic over W for node populations (hoD), 4 the walk, 5 trackers and theorems, 5b-5c frame logic for the
   blocked flags (calmN) and Hoare logic for the counts of blocked / unblocked customers (hoB), 6 examples and refutations. *)
From Coq Require Import ZArith List Bool Lia Permutation.
From RecordUpdate Require Import RecordUpdate.
From CiwV Require Import Sx Prelude Routing Sched.
From CiwV.Engine Require Import State2 Engine2 Codec2.
From CiwV.Inv Require Import Conserve2.
Import ListNotations.
Open Scope Z_scope.

Local Arguments Z.mul : simpl never.
Local Arguments Z.add : simpl never.
Local Arguments Z.sub : simpl never.
Local Arguments Z.opp : simpl never.

(* the calls of the engine on the state tracker, with the attributes of the customer the trackers read
   (verbatim the type of TrackerInc.v) *)
Inductive call : Type :=
| Acc (j c : Z)                   (* change_state_accept(node j, ind), ind.customer_class = c *)
| Blk (j d i pc : Z)              (* change_state_block(node j, destination d, ind i), ind.previous_class = pc *)
| Rel (j d i pc : Z) (b : bool)   (* change_state_release(node j, destination d (0: the exit node), ind i, blocked b), ind.previous_class = pc *)
| Chg (j pc c : Z).               (* change_state_classchange(node j, ind), ind.previous_class = pc, ind.customer_class = c *)

(* ====================================================================================================================
   1. The instrumented engine
   ==================================================================================================================== *)
Definition W (X : Type) := sim -> res (X * sim * list call).
Definition wret {X} (a : X) : W X := fun s => Ok (a, s, []).
Definition wbind {X Y} (m : W X) (f : X -> W Y) : W Y :=
  fun s => match m s with
           | Ok (a, s1, c1) => match f a s1 with Ok (b, s2, c2) => Ok (b, s2, c1 ++ c2) | Err e => Err e | OutOfFuel => OutOfFuel end
           | Err e => Err e | OutOfFuel => OutOfFuel end.
Definition up {X} (m : M X) : W X := fun s => match m s with Ok (a, s1) => Ok (a, s1, []) | Err e => Err e | OutOfFuel => OutOfFuel end.
Definition emit (c : call) : W unit := fun s => Ok (tt, s, [c]).
Definition er {X} (r : res (X * sim * list call)) : res (X * sim) :=
  match r with Ok (a, s, _) => Ok (a, s) | Err e => Err e | OutOfFuel => OutOfFuel end.
Notation "x <~ m ;; f" := (wbind m (fun x => f)) (at level 61, m at next level, right associativity).
Notation "m ;;~ f" := (wbind m (fun _ => f)) (at level 61, right associativity).
Fixpoint forMW {X} (l : list X) (f : X -> W unit) : W unit :=
  match l with [] => wret tt | a :: r => f a ;;~ forMW r f end.

(* the destination as the tracker observer of the harness writes it: 0 = the exit node *)
Definition xd (d : Z) : Z := if d =? -1 then 0 else d.

Section Instr.
  Variable cf : config.

  Fixpoint releaseW (fuel : nat) (j i d : Z) (rr : bool) {struct fuel} : W unit :=
    match fuel with
    | O => up oof
    | S f =>
      t <~ up tnow ;;
      x <~ up (get_ind i) ;;
      nd <~ up (get_node j) ;;
      nc <~ up (ncfg_of cf j) ;;
      q <~ up (lift E_Remove (nthZ (n_queues nd) (i_pprio x))) ;;
      q' <~ up (lift E_Remove (remove_first i q)) ;;
      let nd1 := nd <| n_queues := updZ (n_queues nd) (i_pprio x) q' |> <| n_pop := n_pop nd - 1 |> <| n_insvc := n_insvc nd - 1 |> in
      up (put_node nd1) ;;~
      up (put_ind (x <| i_qd := Some (n_pop nd1) |> <| i_exit := Some t |>)) ;;~
      up (if rr then ret tt else write_individual_record cf j i) ;;~
      freed <~ up (if negb (nd_inf nd) && negb (nc_slotted nc)
                   then x1 <- get_ind i ;; sid <- lift E_NoServer (i_server x1) ;; detatch_server j sid i ;;; ret (Some sid)
                   else ret None) ;;
      up (if nc_slotted nc then upd_ind i (fun y => y <| i_server := None |>) else ret tt) ;;~
      up (reset_individual_attributes i) ;;~
      (* self.simulation.statetracker.change_state_release(self, next_node, next_individual, next_individual.is_blocked) *)
      emit (Rel j (xd d) i (i_pcls x) (i_blocked x)) ;;~
      up (if rr then ret tt else begin_service_if_possible_release cf j freed) ;;~
      (if d =? -1 then up (exit_accept i true) else acceptW f d i) ;;~
      (if rr then wret tt else release_blocked_individualW f j)
    end
  with release_blocked_individualW (fuel : nat) (j : Z) {struct fuel} : W unit :=
    match fuel with
    | O => up oof
    | S f =>
      nd <~ up (get_node j) ;; nc <~ up (ncfg_of cf j) ;;
      if (0 <? n_lenbq nd) && (match nc_cap nc with None => true | Some cap => n_pop nd <? cap end) then
        match n_bq nd with
        | [] => up (fail E_Index)
        | (from, y) :: rest =>
          fnd <~ up (get_node from) ;;
          up (if memZ y (all_individuals fnd) then ret tt else fail E_Index) ;;~
          up (put_node (nd <| n_bq := rest |> <| n_lenbq := n_lenbq nd - 1 |>)) ;;~
          yx <~ up (get_ind y) ;;
          up (if i_interrupted yx then
                os <- lift E_Attr (i_osst yx) ;; ot <- lift E_Attr (i_ost yx) ;;
                put_ind (yx <| i_interrupted := false |> <| i_sst := Some os |> <| i_send := Some (os + ot) |>) ;;;
                fnd2 <- get_node from ;;
                l' <- lift E_IntRemove (remove_first y (n_interrupted fnd2)) ;;
                put_node (fnd2 <| n_interrupted := l' |> <| n_nint := n_nint fnd2 - 1 |>)
              else ret tt) ;;~
          releaseW f from y j false
        end
      else wret tt
    end
  with acceptW (fuel : nat) (j i : Z) {struct fuel} : W unit :=
    match fuel with
    | O => up oof
    | S f =>
      x <~ up (get_ind i) ;; nd <~ up (get_node j) ;;
      (up (put_ind (x <| i_node := Some j |> <| i_exit := None |> <| i_blocked := false |> <| i_ocls := i_cls x |> <| i_pcls := i_cls x |>
                      <| i_pprio := i_prio x |> <| i_qa := Some (n_pop nd) |>)) ;;~
       qs <~ up (lift E_Index (match nthZ (n_queues nd) (i_prio x) with Some q => Some (updZ (n_queues nd) (i_prio x) (q ++ [i])) | None => None end)) ;;
       up (put_node (nd <| n_queues := qs |> <| n_pop := n_pop nd + 1 |>)) ;;~
       t <~ up tnow ;;
       up (upd_ind i (fun y => y <| i_arr := Some t |>)) ;;~
       nc <~ up (ncfg_of cf j) ;;
       up (if nc_reneging nc then rd <- get_reneging_date cf j i ;; upd_ind i (fun y => y <| i_ren := rd |>) else ret tt) ;;~
       up (decide_class_change cf j i) ;;~
       nd1 <~ up (get_node j) ;;
       let inf := nd_inf nd1 in
       cand <~ up (if inf then ret (Some i) else choose_next_customer cf j) ;;
       match cand with
       | None => wret tt
       | Some c =>
         if inf then up (start_fresh cf j c None true)
         else
           cx <~ up (get_ind c) ;;
           match find_free_server_for (nc_spf nc) (i_cls cx) (n_servers nd1) with
           | Some sv => up (start_fresh cf j c (Some (sv_id sv)) true)
           | None =>
             if 0 <? numo (n_c nd1) then
               v <~ up (preempt_victim cf j c) ;;
               match v with Some vi => preemptW f j vi c | None => wret tt end
             else wret tt
           end
       end) ;;~
      (* self.simulation.statetracker.change_state_accept(self, next_individual): the last statement of accept *)
      emit (Acc j (i_cls x))
    end
  with preemptW (fuel : nat) (j v i : Z) {struct fuel} : W unit :=
    match fuel with
    | O => up oof
    | S f =>
      t <~ up tnow ;;
      vx <~ up (get_ind v) ;; nc <~ up (ncfg_of cf j) ;;
      up (put_ind (vx <| i_ost := i_stime vx |>)) ;;~
      (if nc_preempt nc =? 4 then
         d <~ up (next_node_for cf 1 j v) ;;
         up (write_interruption_record cf j v (Some d)) ;;~
         releaseW f j v d true
       else
         up (write_interruption_record cf j v None ;;;
             upd_ind v (fun y => y <| i_sst := None |> <| i_tleft := Some (numo (i_send y) - t) |> <| i_smark := nc_preempt nc |>
                                  <| i_stime := None |> <| i_send := None |>) ;;;
             sid <- lift E_NoServer (i_server vx) ;;
             detatch_server j sid v ;;;
             decide_class_change cf j v)) ;;~
      up (sid <- lift E_NoServer (i_server vx) ;; start_preemptor cf j i sid)
    end.

  Definition fs_tailW (j : Z) (nd : node) (i : Z) : W unit :=
    up (change_customer_class cf j i) ;;~
    d <~ up (next_node_for cf 0 j i) ;;
    up (upd_ind i (fun x => x <| i_dest := Some d |>)) ;;~
    nc <~ up (ncfg_of cf j) ;;
    up (if negb (nd_inf nd) && negb (nc_slotted nc)
        then x <- get_ind i ;; sid <- lift E_NoServer (i_server x) ;; set_next_end j sid None
        else ret tt) ;;~
    space <~ up (has_space cf d) ;;
    if space then (fl <~ up (gets fuel_of) ;; releaseW fl j i d false)
    else
      (* block_individual: is_blocked = True, change_state_block(self, next_node, individual), then the blocked queue *)
      x <~ up (get_ind i) ;;
      up (put_ind (x <| i_blocked := true |>)) ;;~
      emit (Blk j d i (i_pcls x)) ;;~
      up (upd_node d (fun dn => dn <| n_bq := n_bq dn ++ [(j, i)] |> <| n_lenbq := n_lenbq dn + 1 |>)).

  Definition finish_serviceW (j : Z) : W unit :=
    nd <~ up (get_node j) ;;
    i <~ up (decide_between (n_next_inds nd)) ;;
    fs_tailW j nd i.

  Definition ren_tailW (j t i : Z) : W unit :=
    up (upd_ind i (fun x => x <| i_ren := XI |>)) ;;~
    d <~ up (next_node_for cf 2 j i) ;;
    x <~ up (get_ind i) ;;
    nd1 <~ up (get_node j) ;;
    q <~ up (lift E_Remove (nthZ (n_queues nd1) (i_pprio x))) ;;
    q' <~ up (lift E_Remove (remove_first i q)) ;;
    let nd2 := nd1 <| n_queues := updZ (n_queues nd1) (i_pprio x) q' |> <| n_pop := n_pop nd1 - 1 |> in
    up (put_node nd2) ;;~
    up (reset_class_change cf j i) ;;~
    up (upd_ind i (fun y => y <| i_qd := Some (n_pop nd2) |> <| i_exit := Some t |> <| i_dest := Some d |>)) ;;~
    up (write_reneging_record j i) ;;~
    up (reset_individual_attributes i) ;;~
    (* change_state_renege(self, next_node, reneging_individual, False) = change_state_release(..., False) *)
    emit (Rel j (xd d) i (i_pcls x) false) ;;~
    fl <~ up (gets fuel_of) ;;
    (if d =? -1 then up (exit_accept i false) else acceptW fl d i) ;;~
    release_blocked_individualW fl j.

  Definition renegeW (j : Z) : W unit :=
    t <~ up tnow ;;
    nd <~ up (get_node j) ;;
    i <~ up (decide_between (n_next_inds nd)) ;;
    ren_tailW j t i.

  Definition interrupt_serviceW (fuel : nat) (j i pre : Z) : W unit :=
    t <~ up tnow ;;
    up (upd_ind i (fun x => x <| i_ost := i_stime x |>)) ;;~
    if pre =? 4 then
      d <~ up (next_node_for cf 1 j i) ;;
      up (write_interruption_record cf j i (Some d)) ;;~
      releaseW fuel j i d true
    else
      up (upd_node j (fun nd => nd <| n_interrupted := n_interrupted nd ++ [i] |> <| n_nint := n_nint nd + 1 |>) ;;;
          upd_ind i (fun x => x <| i_interrupted := true |>) ;;;
          write_interruption_record cf j i None ;;;
          upd_ind i (fun x => x <| i_osst := i_sst x |> <| i_sst := None |> <| i_tleft := Some (numo (i_send x) - t) |> <| i_smark := pre |>
                               <| i_stime := None |> <| i_send := None |>) ;;;
          upd_node j (fun nd => nd <| n_insvc := n_insvc nd - 1 |>)).

  Fixpoint off_duty_loopW (k : nat) (fuel : nat) (j : Z) (idx : nat) (pre : Z) (se : option Z) : W unit :=
    match k with
    | O => wret tt
    | S k' =>
      nd <~ up (get_node j) ;;
      match nth_error (n_servers nd) idx with
      | None => wret tt
      | Some sv =>
        up (put_node (nd <| n_servers := put_server_l (sv <| sv_shift_end := se |>) (n_servers nd) |>)) ;;~
        (match sv_cust sv with Some c => interrupt_serviceW fuel j c pre | None => wret tt end) ;;~
        off_duty_loopW k' fuel j (S idx) pre se
      end
    end.

  Definition take_servers_off_dutyW (fuel : nat) (j pre : Z) : W unit :=
    nd <~ up (get_node j) ;;
    se <~ up (match n_next_date nd with Some d => ret (Some d) | None => fail E_Inf end) ;;
    if pre =? 0 then
      up (put_node (nd <| n_servers := map (fun sv => sv <| sv_shift_end := se |> <| sv_offduty := if sv_busy sv then true else sv_offduty sv |>) (n_servers nd) |>) ;;;
          forM_ (map sv_id (filter (fun sv => negb (sv_busy sv)) (n_servers nd))) (kill_server j))
    else
      off_duty_loopW (S (length (n_servers nd))) fuel j 0 pre se ;;~
      up (sort_interrupted_individuals j ;;;
          forM_ (map sv_id (n_servers nd)) (kill_server j)).

  Definition change_shiftW (j : Z) : W unit :=
    nc <~ up (ncfg_of cf j) ;;
    match nc_srv nc with
    | SSched sc =>
      nd <~ up (get_node j) ;;
      up (match sc_b sc with [] => fail E_Config | _ => ret tt end) ;;~
      let pos := Z.to_nat (n_spos nd) in
      let n := length (sc_b sc) in
      let newc := nth (pos mod n) (sc_v sc) 0 in
      up (put_node (nd <| n_spos := n_spos nd + 1 |> <| n_next_shift := Some (gen_date (sc_b sc) (sc_off sc) pos) |> <| n_c := Some newc |>)) ;;~
      fl <~ up (gets fuel_of) ;;
      take_servers_off_dutyW fl j (sc_pre sc) ;;~
      up (add_new_servers (Z.to_nat newc) j ;;;
          begin_service_if_possible_change_shift cf j)
    | _ => up (fail E_Config)
    end.

  Definition slotted_serviceW (j : Z) : W unit :=
    nc <~ up (ncfg_of cf j) ;;
    match nc_srv nc with
    | SSlot sl =>
      nd <~ up (get_node j) ;;
      up (match sl_b sl with [] => fail E_Config | _ => ret tt end) ;;~
      let size := fst (slot_values sl (Z.to_nat (n_spos nd))) in
      let num := if sl_cap sl then Z.min (Z.max (size - n_insvc nd) 0) (n_pop nd) else Z.min size (n_pop nd) in
      (if sl_cap sl && negb (sl_pre sl =? 0) then
         let k := n_insvc nd - size in
         if 0 <? k then
           il <~ up (gets inds) ;;
           let started := filter (fun i => match find_ind i il with Some x => match i_sst x with Some _ => true | None => false end | None => false end) (all_individuals nd) in
           kl <~ up (keyed started) ;;
           fl <~ up (gets fuel_of) ;;
           forMW (firstn (Z.to_nat k) (sort_by_key_desc kl)) (fun i => interrupt_serviceW fl j i (sl_pre sl))
         else wret tt
       else wret tt) ;;~
      up (slot_loop cf (Z.to_nat num) j ;;;
          upd_node j (fun n' => n' <| n_spos := n_spos n' + 1 |>))
    | _ => up (fail E_Config)
    end.

  Definition change_customer_class_while_waitingW (j : Z) : W unit :=
    nd <~ up (get_node j) ;;
    i <~ up (lift E_NoInd (hd_error (n_next_inds nd))) ;;
    x <~ up (get_ind i) ;;
    nc' <~ up (lift E_Attr (i_ncls x)) ;;
    p' <~ up (lift E_Config (nthZ (cf_prio cf) nc')) ;;
    up (put_ind (x <| i_cls := nc' |> <| i_prio := p' |>)) ;;~
    (if negb (p' =? i_pprio x) then
       q <~ up (lift E_Remove (nthZ (n_queues nd) (i_pprio x))) ;;
       q' <~ up (lift E_Remove (remove_first i q)) ;;
       let qs1 := updZ (n_queues nd) (i_pprio x) q' in
       qn <~ up (lift E_Index (nthZ qs1 p')) ;;
       up (put_node (nd <| n_queues := updZ qs1 p' (qn ++ [i]) |>)) ;;~
       (if negb (nd_inf nd) && (0 <? numo (n_c nd)) then
          v <~ up (preempt_victim cf j i) ;;
          match v with Some vi => fl <~ up (gets fuel_of) ;; preemptW fl j vi i | None => wret tt end
        else wret tt)
     else wret tt) ;;~
    (* change_state_classchange(self, changing_individual): previous_class is still the old class, customer_class the new one *)
    emit (Chg j (i_pcls x) nc') ;;~
    up (upd_ind i (fun y => y <| i_pcls := nc' |> <| i_pprio := i_prio y |>) ;;;
        decide_class_change cf j i).

  Definition send_individualW (j i : Z) : W unit :=
    up (modify (fun s => s <| arr := arr s <| a_accepted := a_accepted (arr s) + 1 |> |>)) ;;~
    fl <~ up (gets fuel_of) ;; acceptW fl j i.
  Definition release_individualW (j i : Z) : W unit :=
    x <~ up (get_ind i) ;;
    nd <~ up (get_node j) ;; nc <~ up (ncfg_of cf j) ;; sp <~ up sys_population ;;
    let full := (match nc_cap nc with None => false | Some cap => cap <=? n_pop nd end)
                || (match cf_syscap cf with None => false | Some sc => sc <=? sp end) in
    if full then up (write_br_record j i 4 ;;; exit_accept i false)
    else
      tabs <~ up (lift E_Config (nthZ (cf_baulk cf) (i_cls x))) ;;
      tab <~ up (lift E_Config (nthZ tabs (j - 1))) ;;
      match tab with
      | None => send_individualW j i
      | Some tb =>
        u <~ up draw_unif ;;
        let p4 := match nth_error tb (Z.to_nat (Z.min (n_pop nd) (Z.of_nat (length tb) - 1))) with Some p => p | None => 0 end in
        if 4 * u <? p4 * two53 then up (write_br_record j i 3 ;;; exit_accept i false)
        else send_individualW j i
      end.

  Fixpoint batch_loopW (n : nat) (j c p : Z) : W unit :=
    match n with
    | O => wret tt
    | S m =>
      up (modify (fun s => s <| arr := arr s <| a_created := a_created (arr s) + 1 |> |>)) ;;~
      i <~ up (gets (fun s => a_created (arr s))) ;;
      up (if (1 <=? j) then ret tt else fail E_NoNode) ;;~
      _ <~ up (get_node j) ;;
      r <~ up (route_of cf i c) ;;
      up (put_ind (new_ind i c p r)) ;;~
      release_individualW j i ;;~
      batch_loopW m j c p
    end.

  Definition arrival_have_eventW : W unit :=
    a <~ up (gets arr) ;;
    let j := a_next_node a in let c := a_next_cls a in
    b <~ up draw_batch ;;
    up (if b <? 0 then fail E_Batch else ret tt) ;;~
    p <~ up (lift E_Config (nthZ (cf_prio cf) c)) ;;
    batch_loopW (Z.to_nat b) j c p ;;~
    up (ia <- draw_arr ;;
        a' <- gets arr ;;
        row <- lift E_Config (nthZ (a_dates a') (j - 1)) ;;
        old <- lift E_Config (nthZ row c) ;;
        modify (fun s => s <| arr := arr s <| a_dates := updZ (a_dates (arr s)) (j - 1) (updZ row c (match old with Some o => Some (o + ia) | None => None end)) |> |>) ;;;
        find_next_event_date).

  Definition node_have_eventW (j : Z) : W unit :=
    nd <~ up (get_node j) ;;
    let ty := n_next_type nd in
    if ty =? 0 then finish_serviceW j
    else if ty =? 1 then change_shiftW j
    else if ty =? 2 then renegeW j
    else if ty =? 3 then change_customer_class_while_waitingW j
    else if ty =? 4 then slotted_serviceW j
    else wret tt.

  Definition event_stepW : W unit :=
    up (modify (fun s => s <| log := [] |>)) ;;~
    k <~ up (gets next_active) ;;
    (if k =? 0 then arrival_have_eventW else node_have_eventW k) ;;~
    up (ns <- gets nodes ;;
        update_all cf (map n_id ns) ;;;
        find_next_active_node).

  (* the tracker calls Python makes while executing one event from state s *)
  Definition calls_event_step (s : sim) : list call :=
    match event_stepW s with Ok (_, _, cs) => cs | _ => [] end.
End Instr.

(* the calls of a run: one frame of draws per event (as Codec2.run_many installs them) *)
Fixpoint calls_many (cf : config) (s : sim) (ds : list draws) : list call :=
  match ds with
  | [] => []
  | d :: r => calls_event_step cf (s <| dr := d |>) ++
              match event_step cf (s <| dr := d |>) with Ok (_, s1) => calls_many cf s1 r | _ => [] end
  end.

(* ====================================================================================================================
   2. Erasing the calls gives back the engine
   ==================================================================================================================== *)
Lemma er_up {X} (m : M X) s : er (up m s) = m s.
Proof. unfold up. destruct (m s) as [[a s1]| |]; reflexivity. Qed.
Lemma er_wret {X} (a : X) s : er (wret a s) = ret a s.
Proof. reflexivity. Qed.
Lemma er_wbind {X Y} (m' : W X) (m : M X) (f' : X -> W Y) (f : X -> M Y) s :
  (forall s0, er (m' s0) = m s0) -> (forall a s0, er (f' a s0) = f a s0) -> er (wbind m' f' s) = bind m f s.
Proof.
  intros H1 H2. unfold wbind, bind. specialize (H1 s). destruct (m' s) as [[[a s1] c1]| |]; cbn [er] in H1; rewrite <- H1; try reflexivity.
  specialize (H2 a s1). destruct (f' a s1) as [[[b s2] c2]| |]; cbn [er] in *; exact H2.
Qed.
Lemma er_emit_bind {Y} c (f' : W Y) (m : M Y) s : (forall s0, er (f' s0) = m s0) -> er (wbind (emit c) (fun _ => f') s) = m s.
Proof. intros H. unfold wbind, emit. specialize (H s). destruct (f' s) as [[[b s2] c2]| |]; cbn [er] in *; exact H. Qed.
Lemma er_bind_emit c (m' : W unit) (m : M unit) s : (forall s0, er (m' s0) = m s0) -> er (wbind m' (fun _ => emit c) s) = m s.
Proof. intros H. unfold wbind, emit. specialize (H s). destruct (m' s) as [[[[] s1] c1]| |]; cbn [er] in *; exact H. Qed.

Tactic Notation "era" "using" tactic(t) :=
  repeat first
    [ t
    | progress cbv zeta
    | apply er_up
    | apply er_wret
    | (apply er_emit_bind; intros ?)
    | (apply er_bind_emit; intros ?)
    | (apply er_wbind; [intros ?|intros ? ?])
    | match goal with
      | |- er ((if ?b then _ else _) _) = _ => destruct b
      | |- er ((match ?x with _ => _ end) _) = _ => destruct x
      end ].

Section Erase.
  Variable cf : config.

  Lemma er_core : forall f,
    (forall j i d rr s, er (releaseW cf f j i d rr s) = release cf f j i d rr s) /\
    (forall j s, er (release_blocked_individualW cf f j s) = release_blocked_individual cf f j s) /\
    (forall j i s, er (acceptW cf f j i s) = accept cf f j i s) /\
    (forall j v i s, er (preemptW cf f j v i s) = preempt cf f j v i s).
  Proof.
    induction f as [|f (IHr & IHb & IHa & IHp)].
    - repeat split; intros; apply er_up.
    - split; [|split; [|split]].
      + intros j i d rr s. simpl release. simpl releaseW. era using first [apply IHa | apply IHb].
      + intros j s. simpl release_blocked_individual. simpl release_blocked_individualW. era using (apply IHr).
      + intros j i s. simpl accept. simpl acceptW. era using (apply IHp).
      + intros j v i s. simpl preempt. simpl preemptW. era using (apply IHr).
  Qed.
End Erase.

Lemma tk_bind_assoc {X Y Z'} (m : M X) (f : X -> M Y) (g : Y -> M Z') s : bind (bind m f) g s = bind m (fun a => bind (f a) g) s.
Proof. unfold bind. destruct (m s) as [[a s1]| |]; reflexivity. Qed.

Section Erase2.
  Variable cf : config.
  Lemma er_release f j i d rr s : er (releaseW cf f j i d rr s) = release cf f j i d rr s. Proof. apply er_core. Qed.
  Lemma er_rbi f j s : er (release_blocked_individualW cf f j s) = release_blocked_individual cf f j s. Proof. apply er_core. Qed.
  Lemma er_accept f j i s : er (acceptW cf f j i s) = accept cf f j i s. Proof. apply er_core. Qed.
  Lemma er_preempt f j v i s : er (preemptW cf f j v i s) = preempt cf f j v i s. Proof. apply er_core. Qed.

  Lemma er_block j i d s :
    er ((x <~ up (get_ind i) ;; up (put_ind (x <| i_blocked := true |>)) ;;~ emit (Blk j d i (i_pcls x)) ;;~
         up (upd_node d (fun dn => dn <| n_bq := n_bq dn ++ [(j, i)] |> <| n_lenbq := n_lenbq dn + 1 |>))) s) = block_individual j i d s.
  Proof. unfold block_individual, upd_ind. rewrite tk_bind_assoc. era using fail. Qed.

  Lemma er_finish_service j s : er (finish_serviceW cf j s) = finish_service cf j s.
  Proof. unfold finish_service, finish_serviceW, fs_tailW. era using first [apply er_release | apply er_block]. Qed.
  Lemma er_renege j s : er (renegeW cf j s) = renege cf j s.
  Proof. unfold renege, renegeW, ren_tailW. era using first [apply er_accept | apply er_rbi]. Qed.
  Lemma er_interrupt_service f j i pre s : er (interrupt_serviceW cf f j i pre s) = interrupt_service cf f j i pre s.
  Proof. unfold interrupt_service, interrupt_serviceW. era using (apply er_release). Qed.
  Lemma er_off_duty_loop k f j pre se : forall idx s, er (off_duty_loopW cf k f j idx pre se s) = off_duty_loop cf k f j idx pre se s.
  Proof. induction k as [|k IH]; intros idx s; cbn [off_duty_loop off_duty_loopW]; era using first [apply er_interrupt_service | apply IH]. Qed.
  Lemma er_take_servers_off_duty f j pre s : er (take_servers_off_dutyW cf f j pre s) = take_servers_off_duty cf f j pre s.
  Proof. unfold take_servers_off_duty, take_servers_off_dutyW. era using (apply er_off_duty_loop). Qed.
  Lemma er_change_shift j s : er (change_shiftW cf j s) = change_shift cf j s.
  Proof. unfold change_shift, change_shiftW. era using (apply er_take_servers_off_duty). Qed.
  Lemma er_forMW {X} (l : list X) (f' : X -> W unit) (f : X -> M unit) : (forall a s, er (f' a s) = f a s) -> forall s, er (forMW l f' s) = forM_ l f s.
  Proof. intros H. induction l as [|a r IH]; intros s; cbn [forMW forM_]; era using first [apply H | apply IH]. Qed.
  Lemma er_slotted_service j s : er (slotted_serviceW cf j s) = slotted_service cf j s.
  Proof. unfold slotted_service, slotted_serviceW. era using first [apply er_forMW; intros ? ? | apply er_interrupt_service]. Qed.
  Lemma er_ccww j s : er (change_customer_class_while_waitingW cf j s) = change_customer_class_while_waiting cf j s.
  Proof. unfold change_customer_class_while_waiting, change_customer_class_while_waitingW. era using (apply er_preempt). Qed.
  Lemma er_send_individual j i s : er (send_individualW cf j i s) = send_individual cf j i s.
  Proof. unfold send_individual, send_individualW. era using (apply er_accept). Qed.
  Lemma er_release_individual j i s : er (release_individualW cf j i s) = release_individual cf j i s.
  Proof. unfold release_individual, release_individualW. era using (apply er_send_individual). Qed.
  Lemma er_batch_loop n j c p : forall s, er (batch_loopW cf n j c p s) = batch_loop cf n j c p s.
  Proof. induction n as [|n IH]; intros s; cbn [batch_loop batch_loopW]; era using first [apply er_release_individual | apply IH]. Qed.
  Lemma er_arrival_have_event s : er (arrival_have_eventW cf s) = arrival_have_event cf s.
  Proof. unfold arrival_have_event, arrival_have_eventW. era using (apply er_batch_loop). Qed.
  Lemma er_node_have_event j s : er (node_have_eventW cf j s) = node_have_event cf j s.
  Proof.
    unfold node_have_event, node_have_eventW.
    era using first [apply er_finish_service | apply er_change_shift | apply er_renege | apply er_ccww | apply er_slotted_service].
  Qed.
  (* the instrumented event is the engine's event *)
  Theorem er_event_step s : er (event_stepW cf s) = event_step cf s.
  Proof. unfold event_step, event_stepW. era using first [apply er_arrival_have_event | apply er_node_have_event]. Qed.

  Lemma event_stepW_ok s s' : event_step cf s = Ok (tt, s') -> event_stepW cf s = Ok (tt, s', calls_event_step cf s).
  Proof.
    intros H. rewrite <- er_event_step in H. unfold calls_event_step.
    destruct (event_stepW cf s) as [[[[] s1] cs]| |]; cbn [er] in H; try discriminate. inversion H. reflexivity.
  Qed.
End Erase2.

(* ====================================================================================================================
   3. A Hoare logic over W for the measures "number of customers in the queues of node j"
   ==================================================================================================================== *)
Notation nshp := (list (Z * Z * list (list Z))).
Definition nsh (s : sim) : nshp := map nshape (nodes s).            (* identity, population counter, queues of every node *)
Definition idxN (ns : nshp) : Prop := forall k t, nth_error ns k = Some t -> fst (fst t) = Z.of_nat k + 1.
Definition Idx (s : sim) : Prop := idxN (nsh s).                     (* node identities are positions *)
Definition oknN (ns : nshp) (nd : node) : Prop := nthZ ns (n_id nd - 1) = Some (nshape nd).
Definition KTn : nshp -> Prop := fun _ => True.

Lemma tk_upd_length {X} (l : list X) k x : length (upd l k x) = length l.
Proof. revert k; induction l as [|a l IH]; intros [|k]; cbn; auto. Qed.
Lemma tk_updZ_map {X Y} (f : X -> Y) l k x : map f (updZ l k x) = updZ (map f l) k (f x).
Proof. unfold updZ. destruct (k <? 0); [reflexivity|apply upd_map]. Qed.
Lemma tk_nthZ_updZ_eq {X} (l : list X) k a x : nthZ l k = Some a -> nthZ (updZ l k x) k = Some x.
Proof. unfold nthZ, updZ. destruct (k <? 0); [discriminate|]. apply nth_error_upd_eq. Qed.
Lemma tk_nthZ_updZ_neq {X} (l : list X) k k' x : k' <> k -> nthZ (updZ l k x) k' = nthZ l k'.
Proof.
  intros Hne. unfold nthZ, updZ. destruct (k <? 0) eqn:E1; [reflexivity|]. destruct (k' <? 0) eqn:E2; [reflexivity|].
  apply Z.ltb_ge in E1, E2. apply nth_error_upd_neq. lia.
Qed.
Lemma tk_nthZ_range {X} (l : list X) k a : nthZ l k = Some a -> 0 <= k < Z.of_nat (length l).
Proof. intros H. destruct (nthZ_nat _ _ _ H) as (n & -> & Hn). assert (n < length l)%nat by (apply nth_error_Some; congruence). lia. Qed.
Lemma idxN_upd ns k t t' : idxN ns -> nth_error ns k = Some t -> fst (fst t') = fst (fst t) -> idxN (upd ns k t').
Proof.
  intros HI Hn He k' u Hu. destruct (Nat.eq_dec k k') as [<-|Hne].
  - rewrite (nth_error_upd_eq _ _ _ _ Hn) in Hu. injection Hu as <-. rewrite He. apply (HI k t Hn).
  - rewrite nth_error_upd_neq in Hu by exact Hne. apply (HI k' u Hu).
Qed.

(* ---------- engine statements that leave the node shapes alone ---------- *)
Definition presN (K : nshp -> Prop) {X} (m : M X) : Prop :=
  forall s a s', idxN (nsh s) -> K (nsh s) -> m s = Ok (a, s') -> nsh s' = nsh s.
Lemma pn_of_pk (K : nshp -> Prop) {X} (m : M X) : presK KT m -> presN K m.
Proof. intros H s a s' HI _ E. pose proof (H s a s' HI I E) as E1. apply (f_equal sh_ns) in E1. exact E1. Qed.
Lemma pn_bind K {X Y} (m : M X) (f : X -> M Y) : presN K m -> (forall a, presN K (f a)) -> presN K (bind m f).
Proof.
  intros Hm Hf s b s' HI HK H. unfold bind in H. destruct (m s) as [[a s1]| |] eqn:E; try discriminate.
  pose proof (Hm _ _ _ HI HK E) as E1. rewrite <- E1 in HI, HK. rewrite (Hf a _ _ _ HI HK H). exact E1.
Qed.
Lemma pn_get_node_bind K {Y} j (f : node -> M Y) :
  (forall nd, presN (fun ns => K ns /\ oknN ns nd) (f nd)) -> presN K (bind (get_node j) f).
Proof.
  intros Hf s b s' HI HK H. unfold bind in H. destruct (get_node j s) as [[nd s1]| |] eqn:E; try discriminate.
  apply get_node_spec in E as (-> & Hj & Hn). eapply Hf; [exact HI| |exact H]. split; [exact HK|]. apply (get_node_okn j s nd HI Hn).
Qed.
Lemma pn_put_node (K : nshp -> Prop) nd : (forall ns, K ns -> exists nd0, oknN ns nd0 /\ nshape nd = nshape nd0) -> presN K (put_node nd).
Proof.
  intros HK s a s' _ Hk H. unfold put_node, modify in H. inversion H. destruct (HK _ Hk) as (nd0 & Hn & He).
  exact (f_equal sh_ns (put_node_shape nd nd0 s Hn He)).
Qed.
Lemma pn_modify K (f : sim -> sim) : (forall s, nsh (f s) = nsh s) -> presN K (modify f).
Proof. intros Hf s a s' _ _ H. inversion H. apply Hf. Qed.
Lemma pn_put_ind K x : presN K (put_ind x).
Proof. apply pn_modify. reflexivity. Qed.
Lemma pn_forM K {X} (f : X -> M unit) l : (forall a, presN K (f a)) -> presN K (forM_ l f).
Proof. intros Hf. induction l as [|a r IH]; cbn [forM_]; [apply pn_of_pk, pk_ret|]. apply pn_bind; [apply Hf|]. intros _. exact IH. Qed.
Lemma pn_exit_accept K i c : presN K (exit_accept i c).
Proof. unfold exit_accept, del_ind. apply pn_bind; [|intros _]; apply pn_modify; reflexivity. Qed.

Ltac pn_side :=
  let ns := fresh "ns" in let HK := fresh "HK" in
  intros ns HK; repeat match goal with H : _ /\ _ |- _ => destruct H end;
  match goal with H : oknN ns ?nd |- _ => exists nd; split; [exact H|unfold nshape; cbn; reflexivity] end.
Ltac pn :=
  repeat first
    [ (apply pn_of_pk; solve [pka])
    | apply pn_put_ind
    | apply pn_exit_accept
    | (apply pn_put_node; pn_side)
    | (apply pn_modify; intros ?; reflexivity)
    | match goal with
      | |- presN _ (bind (get_node _) _) => apply pn_get_node_bind; intros ?
      | |- presN _ (bind _ _) => apply pn_bind; [|intros ?]
      | |- presN _ (forM_ _ _) => apply pn_forM; intros ?
      | |- presN _ (if ?b then _ else _) => destruct b
      | |- presN _ (match ?x with _ => _ end) => destruct x
      end ].

(* ---------- the measures and what a call does to them ---------- *)
Definition cntZ (ns : nshp) (j : Z) : Z := match nthZ ns (j - 1) with Some t => zlen (qof t) | None => 0 end.
Definition cnode (c : call) : Z := match c with Acc j _ | Blk j _ _ _ | Rel j _ _ _ _ | Chg j _ _ => j end.
Definition cdl (c : call) : Z := match c with Acc _ _ => 1 | Rel _ _ _ _ _ => -1 | _ => 0 end.
Definition cat (j : Z) (c : call) : Z := if cnode c =? j then cdl c else 0.
Definition netZ (j : Z) (cs : list call) : Z := zsum (map (cat j) cs).
Lemma netZ_app j a b : netZ j (a ++ b) = netZ j a + netZ j b.
Proof. unfold netZ. rewrite map_app. apply zsum_app. Qed.
Definition z0 : Z -> Z := fun _ => 0.

(* hoD n K dl m: from a state with n nodes whose identities are positions and whose node shapes satisfy K, m keeps both,
   emits only calls that name an existing node, and
       (customers at node j after) - (net effect of the emitted calls on node j) = (customers at node j before) + dl j *)
Definition hoD (n : nat) (K : nshp -> Prop) (dl : Z -> Z) {X} (m : W X) : Prop :=
  forall s a s' cs, idxN (nsh s) -> length (nsh s) = n -> K (nsh s) -> m s = Ok (a, s', cs) ->
    idxN (nsh s') /\ length (nsh s') = n /\ Forall (fun c => 1 <= cnode c <= Z.of_nat n) cs /\
    forall j, cntZ (nsh s') j - netZ j cs = cntZ (nsh s) j + dl j.

Lemma H_ext n K dl dl' {X} (m : W X) : hoD n K dl m -> (forall j, dl' j = dl j) -> hoD n K dl' m.
Proof. intros H E s a s' cs HI Hn HK Hm. destruct (H _ _ _ _ HI Hn HK Hm) as (A & B & C & D). split; [auto|split; [auto|split; [auto|]]]. intros j. rewrite E. apply D. Qed.
Lemma H_weakT n (K : nshp -> Prop) dl {X} (m : W X) : hoD n KTn dl m -> hoD n K dl m.
Proof. intros H s a s' cs HI Hn _ Hm. exact (H _ _ _ _ HI Hn I Hm). Qed.
Lemma H_wret n K {X} (a : X) : hoD n K z0 (wret a).
Proof. intros s a0 s' cs HI Hn _ H. unfold wret in H. injection H as <- <- <-. split; [auto|split; [auto|split; [constructor|]]]. intros j. unfold netZ, z0. cbn. lia. Qed.
Lemma H_up n K {X} (m : M X) : presN K m -> hoD n K z0 (up m).
Proof.
  intros Hp s a s' cs HI Hn HK H. unfold up in H. destruct (m s) as [[a1 s1]| |] eqn:E; try discriminate. injection H as <- <- <-.
  rewrite (Hp _ _ _ HI HK E). split; [auto|split; [auto|split; [constructor|]]]. intros j. unfold netZ, z0. cbn. lia.
Qed.
Lemma H_bind_pres n K dl {X Y} (m : M X) (f : X -> W Y) : presN K m -> (forall a, hoD n K dl (f a)) -> hoD n K dl (wbind (up m) f).
Proof.
  intros Hp Hf s b s' cs HI Hn HK H. unfold wbind, up in H. destruct (m s) as [[a s1]| |] eqn:E; try discriminate.
  destruct (f a s1) as [[[b1 s2] c2]| |] eqn:E2; try discriminate. injection H as <- <- <-. cbn [app].
  pose proof (Hp _ _ _ HI HK E) as E1. rewrite <- E1 in *. exact (Hf a _ _ _ _ HI Hn HK E2).
Qed.
Lemma H_bind n K d1 d2 {X Y} (m : W X) (f : X -> W Y) :
  hoD n K d1 m -> (forall a, hoD n KTn d2 (f a)) -> hoD n K (fun j => d1 j + d2 j) (wbind m f).
Proof.
  intros Hm Hf s b s' cs HI Hn HK H. unfold wbind in H. destruct (m s) as [[[a s1] c1]| |] eqn:E; try discriminate.
  destruct (f a s1) as [[[b1 s2] c2]| |] eqn:E2; try discriminate. injection H as <- <- <-.
  destruct (Hm _ _ _ _ HI Hn HK E) as (A1 & B1 & C1 & D1). destruct (Hf a _ _ _ _ A1 B1 I E2) as (A2 & B2 & C2 & D2).
  split; [auto|split; [auto|split; [apply Forall_app; auto|]]]. intros j. rewrite netZ_app. specialize (D1 j). specialize (D2 j). lia.
Qed.
Lemma H_bind_z n K dl {X Y} (m : W X) (f : X -> W Y) : hoD n K z0 m -> (forall a, hoD n KTn dl (f a)) -> hoD n K dl (wbind m f).
Proof. intros Hm Hf. eapply H_ext; [eapply H_bind; eauto|]. intros j. unfold z0. lia. Qed.
Lemma H_get_node_bind n K dl {Y} j (f : node -> W Y) :
  (forall nd, 1 <= j <= Z.of_nat n -> n_id nd = j -> hoD n (fun ns => K ns /\ oknN ns nd) dl (f nd)) -> hoD n K dl (wbind (up (get_node j)) f).
Proof.
  intros Hf s b s' cs HI Hn HK H. unfold wbind, up in H. destruct (get_node j s) as [[nd s1]| |] eqn:E; try discriminate.
  apply get_node_spec in E as (-> & Hj & Hnd).
  destruct (f nd s) as [[[b1 s2] c2]| |] eqn:E2; try discriminate. injection H as <- <- <-. cbn [app].
  destruct (get_node_okn j s nd HI Hnd) as [Hid Hok].
  assert (Hr : 1 <= j <= Z.of_nat n).
  { apply tk_nthZ_range in Hnd. unfold nsh in Hn. rewrite map_length in Hn. lia. }
  exact (Hf nd Hr Hid _ _ _ _ HI Hn (conj HK Hok) E2).
Qed.
Lemma H_lift_bind n K dl {X Y} e (o : option X) (f : X -> W Y) :
  (forall a, o = Some a -> hoD n K dl (f a)) -> hoD n K dl (wbind (up (lift e o)) f).
Proof.
  intros Hf s b s' cs HI Hn HK H. destruct o as [a|]; [|discriminate]. unfold wbind, up in H. cbn in H.
  destruct (f a s) as [[[b1 s2] c2]| |] eqn:E2; try discriminate. injection H as <- <- <-. cbn [app]. exact (Hf a eq_refl _ _ _ _ HI Hn HK E2).
Qed.
Lemma H_emit_bind n K d2 {Y} c (f : W Y) : 1 <= cnode c <= Z.of_nat n -> hoD n K d2 f ->
  hoD n K (fun j => d2 j - cat j c) (wbind (emit c) (fun _ => f)).
Proof.
  intros Hc Hf s b s' cs HI Hn HK H. unfold wbind, emit in H.
  destruct (f s) as [[[b1 s2] c2]| |] eqn:E2; try discriminate. injection H as <- <- <-.
  destruct (Hf _ _ _ _ HI Hn HK E2) as (A & B & C & D). split; [auto|split; [auto|split; [constructor; auto|]]].
  intros j. specialize (D j). unfold netZ in *. cbn [app map]. change (zsum (cat j c :: map (cat j) c2)) with (cat j c + zsum (map (cat j) c2)). lia.
Qed.
Lemma H_bind_emit n K d1 c (m : W unit) : hoD n K d1 m -> 1 <= cnode c <= Z.of_nat n ->
  hoD n K (fun j => d1 j - cat j c) (wbind m (fun _ => emit c)).
Proof.
  intros Hm Hc s b s' cs HI Hn HK H. unfold wbind, emit in H.
  destruct (m s) as [[[a s1] c1]| |] eqn:E; try discriminate. injection H as <- <- <-.
  destruct (Hm _ _ _ _ HI Hn HK E) as (A & B & C & D). split; [auto|split; [auto|split; [apply Forall_app; auto|]]].
  intros j. specialize (D j). rewrite netZ_app. unfold netZ at 2. cbn [map]. change (zsum [cat j c]) with (cat j c + 0). lia.
Qed.
(* the only statements that change a node shape: a node is written back with e more customers in its queues *)
Lemma H_put_node n (K : nshp -> Prop) nd e :
  (forall ns, K ns -> exists nd0, oknN ns nd0 /\ n_id nd = n_id nd0 /\ zlen (concat (n_queues nd)) = zlen (concat (n_queues nd0)) + e) ->
  hoD n K (fun j => if j =? n_id nd then e else 0) (up (put_node nd)).
Proof.
  intros HK s a s' cs HI Hn Hk H. unfold up, put_node, modify in H. injection H as <- <- <-.
  destruct (HK _ Hk) as (nd0 & Hok & Hid & Hlen). unfold oknN in Hok.
  assert (E : nsh (s <| nodes := updZ (nodes s) (n_id nd - 1) nd |>) = updZ (nsh s) (n_id nd - 1) (nshape nd)) by (unfold nsh; cbn; apply tk_updZ_map).
  rewrite E. rewrite Hid in *. destruct (nthZ_nat _ _ _ Hok) as (k & Hk' & Hnk). rewrite Hk', updZ_nat.
  split; [eapply idxN_upd; [exact HI|exact Hnk|cbn; exact Hid]|]. split; [rewrite tk_upd_length; exact Hn|]. split; [constructor|].
  intros j. unfold netZ. cbn [map zsum fold_right]. rewrite <- updZ_nat, <- Hk'. unfold cntZ.
  destruct (j =? n_id nd0) eqn:Ej.
  - apply Z.eqb_eq in Ej. rewrite Ej, (tk_nthZ_updZ_eq _ _ _ _ Hok), Hok. unfold qof, nshape. cbn [snd]. lia.
  - apply Z.eqb_neq in Ej. rewrite tk_nthZ_updZ_neq by lia. lia.
Qed.

Lemma H_put_node_at n (K : nshp -> Prop) nd e j : n_id nd = j ->
  (forall ns, K ns -> exists nd0, oknN ns nd0 /\ n_id nd = n_id nd0 /\ zlen (concat (n_queues nd)) = zlen (concat (n_queues nd0)) + e) ->
  hoD n K (fun j0 => if j0 =? j then e else 0) (up (put_node nd)).
Proof. intros <- H. apply H_put_node. exact H. Qed.

Lemma zlen_rm qs p q q' i : nthZ qs p = Some q -> remove_first i q = Some q' -> zlen (concat (updZ qs p q')) = zlen (concat qs) + -1.
Proof.
  intros Hq Hr. destruct (nthZ_nat _ _ _ Hq) as (k & -> & Hk). rewrite updZ_nat.
  pose proof (concat_upd_rm qs k q q' i Hk (remove_first_perm _ _ _ Hr)) as P. apply Permutation_length in P.
  unfold zlen. cbn [length] in P. lia.
Qed.
Lemma zlen_add qs p q (i : Z) : nthZ qs p = Some q -> zlen (concat (updZ qs p (q ++ [i]))) = zlen (concat qs) + 1.
Proof.
  intros Hq. destruct (nthZ_nat _ _ _ Hq) as (k & -> & Hk). rewrite updZ_nat.
  assert (P : Permutation (concat (upd qs k (q ++ [i]))) (i :: concat qs)).
  { eapply concat_upd_add; [exact Hk|]. rewrite Permutation_app_comm. reflexivity. }
  apply Permutation_length in P. unfold zlen. cbn [length] in P. lia.
Qed.

Ltac hw_struct :=
  match goal with
  | |- hoD _ _ _ (wbind (up (get_node _)) _) => apply H_get_node_bind; intros ? ? ?
  | |- hoD _ _ _ (wbind (up (lift _ _)) _) => apply H_lift_bind; intros ? ?
  | |- hoD _ _ _ (wbind (up _) _) => apply H_bind_pres; [solve [pn]|intros ?]
  | |- hoD _ _ _ (if ?b then _ else _) => destruct b
  | |- hoD _ _ _ (match ?x with _ => _ end) => destruct x
  | |- hoD _ _ _ (up _) => apply H_up; solve [pn]
  | |- hoD _ _ _ (wret _) => apply H_wret
  end.
Tactic Notation "hw" "using" tactic(t) :=
  repeat first [ progress cbv zeta | (apply H_weakT; t) | t | hw_struct | (apply H_bind_z; [|intros ?]) ].

(* ====================================================================================================================
   4. Every instrumented engine function: the emitted calls account exactly for the change of every node's population
   ==================================================================================================================== *)
Section Walk.
  Variable cf : config.
  Variable n : nat.
  Notation H0 m := (hoD n KTn z0 m).

  Lemma hw_core : forall f,
    (forall j i d rr, H0 (releaseW cf f j i d rr)) /\
    (forall j, H0 (release_blocked_individualW cf f j)) /\
    (forall j i, H0 (acceptW cf f j i)) /\
    (forall j v i, H0 (preemptW cf f j v i)).
  Proof.
    induction f as [|f (IHr & IHb & IHa & IHp)].
    - split; [|split; [|split]]; intros; simpl; apply H_up; pn.
    - split; [|split; [|split]].
      + intros j i d rr. simpl releaseW.
        apply H_bind_pres; [solve [pn]|intros t].
        apply H_bind_pres; [solve [pn]|intros x].
        apply H_get_node_bind; intros nd Hr Hid.
        apply H_bind_pres; [solve [pn]|intros nc].
        apply H_lift_bind; intros q Hq. apply H_lift_bind; intros q' Hq'.
        cbv zeta.
        eapply H_ext; [eapply H_bind; [apply H_put_node_at with (e := -1) (j := j); [exact Hid|]|intros _]|].
        * intros ns [_ Hok]. exists nd. split; [exact Hok|]. split; [reflexivity|]. exact (zlen_rm _ _ _ _ _ Hq Hq').
        * do 5 hw_struct.
          eapply H_emit_bind; [cbn [cnode]; exact Hr|].
          hw using first [apply IHa | apply IHb].
        * intros j0. unfold cat, z0, cnode, cdl. rewrite (Z.eqb_sym j j0). destruct (j0 =? j); lia.
      + intros j. simpl release_blocked_individualW. hw using (apply IHr).
      + intros j i. simpl acceptW.
        apply H_bind_pres; [solve [pn]|intros x].
        apply H_get_node_bind; intros nd Hr Hid.
        eapply H_ext; [eapply H_bind_emit; [|cbn [cnode]; exact Hr]|].
        * apply H_bind_pres; [solve [pn]|intros _]. apply H_lift_bind; intros qs Hqs.
          eapply H_bind; [apply H_put_node_at with (e := 1) (j := j); [exact Hid|]|intros _].
          -- intros ns [_ Hok]. exists nd. split; [exact Hok|]. split; [reflexivity|].
             destruct (nthZ (n_queues nd) (i_prio x)) as [q|] eqn:Eq; [|discriminate]. injection Hqs as <-. exact (zlen_add _ _ _ _ Eq).
          -- hw using (apply IHp).
        * intros j0. unfold cat, z0, cnode, cdl. rewrite (Z.eqb_sym j j0). destruct (j0 =? j); lia.
      + intros j v i. simpl preemptW. hw using (apply IHr).
  Qed.
End Walk.

Lemma H_emit0_bind n K dl {Y} c (f : W Y) : cdl c = 0 -> 1 <= cnode c <= Z.of_nat n -> hoD n K dl f -> hoD n K dl (wbind (emit c) (fun _ => f)).
Proof. intros H0 Hc Hf. eapply H_ext; [apply H_emit_bind; eassumption|]. intros j. unfold cat. rewrite H0. destruct (cnode c =? j); lia. Qed.
Lemma H_put_node0 n (K : nshp -> Prop) nd :
  (forall ns, K ns -> exists nd0, oknN ns nd0 /\ n_id nd = n_id nd0 /\ zlen (concat (n_queues nd)) = zlen (concat (n_queues nd0)) + 0) ->
  hoD n K z0 (up (put_node nd)).
Proof. intros H. eapply H_ext; [apply H_put_node; exact H|]. intros j. unfold z0. destruct (j =? n_id nd); reflexivity. Qed.
Lemma H_forMW n K {X} (l : list X) (f : X -> W unit) : (forall a, hoD n KTn z0 (f a)) -> hoD n K z0 (forMW l f).
Proof.
  intros Hf. apply H_weakT. induction l as [|a r IH]; cbn [forMW]; [apply H_wret|]. apply H_bind_z; [apply Hf|intros _; exact IH].
Qed.

Ltac hw_emit0 :=
  match goal with
  | |- hoD _ _ _ (wbind (emit _) _) => apply H_emit0_bind; [reflexivity|cbn [cnode]; assumption|]
  end.
Tactic Notation "hwe" "using" tactic(t) :=
  repeat first [ progress cbv zeta | hw_emit0 | (apply H_weakT; t) | t | hw_struct | (apply H_bind_z; [|intros ?]) ].

Section Walk2.
  Variable cf : config.
  Variable n : nat.
  Notation H0 m := (hoD n KTn z0 m).

  Lemma hw_release f j i d rr : H0 (releaseW cf f j i d rr). Proof. apply hw_core. Qed.
  Lemma hw_rbi f j : H0 (release_blocked_individualW cf f j). Proof. apply hw_core. Qed.
  Lemma hw_accept f j i : H0 (acceptW cf f j i). Proof. apply hw_core. Qed.
  Lemma hw_preempt f j v i : H0 (preemptW cf f j v i). Proof. apply hw_core. Qed.

  Lemma hw_finish_service j : H0 (finish_serviceW cf j).
  Proof. unfold finish_serviceW, fs_tailW. hwe using (apply hw_release). Qed.

  Lemma hw_renege j : H0 (renegeW cf j).
  Proof.
    unfold renegeW, ren_tailW.
    apply H_bind_pres; [solve [pn]|intros t].
    apply H_get_node_bind; intros nd Hr Hid.
    apply H_bind_pres; [solve [pn]|intros i].
    apply H_bind_pres; [solve [pn]|intros _].
    apply H_bind_pres; [solve [pn]|intros d].
    apply H_bind_pres; [solve [pn]|intros x].
    apply H_get_node_bind; intros nd1 Hr1 Hid1.
    apply H_lift_bind; intros q Hq. apply H_lift_bind; intros q' Hq'.
    cbv zeta.
    eapply H_ext; [eapply H_bind; [apply H_put_node_at with (e := -1) (j := j); [exact Hid1|]|intros _]|].
    - intros ns [_ Hok]. exists nd1. split; [exact Hok|]. split; [reflexivity|]. exact (zlen_rm _ _ _ _ _ Hq Hq').
    - do 4 hw_struct.
      eapply H_emit_bind; [cbn [cnode]; exact Hr|].
      hw using first [apply hw_accept | apply hw_rbi].
    - intros j0. unfold cat, z0, cnode, cdl. rewrite (Z.eqb_sym j j0). destruct (j0 =? j); lia.
  Qed.

  Lemma hw_interrupt_service f j i pre : H0 (interrupt_serviceW cf f j i pre).
  Proof. unfold interrupt_serviceW. hw using (apply hw_release). Qed.
  Lemma hw_off_duty_loop k f j pre se : forall idx, H0 (off_duty_loopW cf k f j idx pre se).
  Proof. induction k as [|k IH]; intros idx; cbn [off_duty_loopW]; [apply H_wret|]. hw using first [apply hw_interrupt_service | apply IH]. Qed.
  Lemma hw_take_servers_off_duty f j pre : H0 (take_servers_off_dutyW cf f j pre).
  Proof. unfold take_servers_off_dutyW. hw using (apply hw_off_duty_loop). Qed.
  Lemma hw_change_shift j : H0 (change_shiftW cf j).
  Proof. unfold change_shiftW. hw using (apply hw_take_servers_off_duty). Qed.
  Lemma hw_slotted_service j : H0 (slotted_serviceW cf j).
  Proof. unfold slotted_serviceW. hw using first [apply H_forMW; intros ? | apply hw_interrupt_service]. Qed.

  Lemma hw_ccww j : H0 (change_customer_class_while_waitingW cf j).
  Proof.
    unfold change_customer_class_while_waitingW.
    apply H_get_node_bind; intros nd Hr Hid.
    apply H_lift_bind; intros i Hi.
    apply H_bind_pres; [solve [pn]|intros x].
    apply H_lift_bind; intros nc' Hnc. apply H_lift_bind; intros p' Hp'.
    apply H_bind_pres; [solve [pn]|intros _].
    apply H_bind_z; [|intros _; hwe using fail].
    destruct (negb (p' =? i_pprio x)); [|apply H_wret].
    apply H_lift_bind; intros q Hq. apply H_lift_bind; intros q' Hq'. cbv zeta. apply H_lift_bind; intros qn Hqn.
    apply H_bind_z; [apply H_put_node0|intros _; hw using (apply hw_preempt)].
    intros ns [_ Hok]. exists nd. split; [exact Hok|]. split; [reflexivity|].
    change (zlen (concat (updZ (updZ (n_queues nd) (i_pprio x) q') p' (qn ++ [i]))) = zlen (concat (n_queues nd)) + 0).
    rewrite (zlen_add _ _ _ _ Hqn), (zlen_rm _ _ _ _ _ Hq Hq'). lia.
  Qed.

  Lemma hw_send_individual j i : H0 (send_individualW cf j i).
  Proof. unfold send_individualW. hw using (apply hw_accept). Qed.
  Lemma hw_release_individual j i : H0 (release_individualW cf j i).
  Proof. unfold release_individualW. hw using (apply hw_send_individual). Qed.
  Lemma hw_batch_loop k j c p : H0 (batch_loopW cf k j c p).
  Proof. induction k as [|k IH]; cbn [batch_loopW]; [apply H_wret|]. hw using first [apply hw_release_individual | apply IH]. Qed.
  Lemma hw_arrival_have_event : H0 (arrival_have_eventW cf).
  Proof. unfold arrival_have_eventW. hw using (apply hw_batch_loop). Qed.
  Lemma hw_node_have_event j : H0 (node_have_eventW cf j).
  Proof.
    unfold node_have_eventW.
    hw using first [apply hw_finish_service | apply hw_change_shift | apply hw_renege | apply hw_ccww | apply hw_slotted_service].
  Qed.
  Lemma hw_event_step : H0 (event_stepW cf).
  Proof. unfold event_stepW. hw using first [apply hw_arrival_have_event | apply hw_node_have_event]. Qed.
End Walk2.

(* ====================================================================================================================
   5. The trackers (update functions verbatim from TrackerInc.v) and the theorems for SystemPopulation / NodePopulation
   ==================================================================================================================== *)
Definition inc1 (v : list Z) (k d : Z) : option (list Z) :=
  match nthZ v k with Some a => Some (updZ v k (a + d)) | None => None end.
Definition inc2 (m : list (list Z)) (k c d : Z) : option (list (list Z)) :=
  match nthZ m k with
  | Some row => match inc1 row c d with Some row' => Some (updZ m k row') | None => None end
  | None => None
  end.
(* the tracker's state after the calls cs, starting from st (None: Python raises) *)
Fixpoint orun {St} (step : St -> call -> option St) (cs : list call) (st : St) : option St :=
  match cs with [] => Some st | c :: r => match step st c with Some st' => orun step r st' | None => None end end.
Lemma orun_app {St} (step : St -> call -> option St) a b st :
  orun step (a ++ b) st = match orun step a st with Some st' => orun step b st' | None => None end.
Proof. revert st; induction a as [|c a IH]; intros st; cbn [app orun]; [reflexivity|]. destruct (step st c); [apply IH|reflexivity]. Qed.
Lemma orun_map {A B} (stepA : A -> call -> option A) (stepB : B -> call -> option B) (R : A -> B) :
  (forall a c a', stepA a c = Some a' -> stepB (R a) c = Some (R a')) ->
  forall cs a a', orun stepA cs a = Some a' -> orun stepB cs (R a) = Some (R a').
Proof.
  intros Hs. induction cs as [|c r IH]; intros a a' H; cbn [orun] in *; [inversion H; reflexivity|].
  destruct (stepA a c) as [a1|] eqn:E; [|discriminate]. rewrite (Hs _ _ _ E). apply IH. exact H.
Qed.

(* NodePopulation: state[node.id_number - 1] += 1 / -= 1 *)
Definition np_step (v : list Z) (c : call) : option (list Z) :=
  match c with Acc j _ => inc1 v (j - 1) 1 | Rel j _ _ _ _ => inc1 v (j - 1) (-1) | _ => Some v end.
Definition np_true (s : sim) : list Z := map (fun nd => zlen (all_individuals nd)) (nodes s).
(* SystemPopulation: state += 1 / -= 1 *)
Definition sys_step (st : Z) (c : call) : option Z :=
  match c with Acc _ _ => Some (st + 1) | Rel _ _ _ _ _ => Some (st - 1) | _ => Some st end.
Definition sys_true (s : sim) : Z := zlen (concat (map all_individuals (nodes s))).

Lemma np_true_nsh s : np_true s = map (fun t => zlen (qof t)) (nsh s).
Proof. unfold np_true, nsh. rewrite map_map. reflexivity. Qed.
Lemma sys_true_np s : sys_true s = zsum (np_true s).
Proof. unfold sys_true, np_true. rewrite length_concat_zsum, map_map. reflexivity. Qed.

Lemma tk_nthZ_some {X} (l : list X) k : 0 <= k < Z.of_nat (length l) -> exists a, nthZ l k = Some a.
Proof.
  intros H. unfold nthZ. destruct (k <? 0) eqn:E; [apply Z.ltb_lt in E; lia|].
  destruct (nth_error l (Z.to_nat k)) as [a|] eqn:En; [eauto|]. apply nth_error_None in En. lia.
Qed.
Lemma tk_updZ_length {X} (l : list X) k x : length (updZ l k x) = length l.
Proof. unfold updZ. destruct (k <? 0); [reflexivity|apply tk_upd_length]. Qed.

Lemma inc1_spec v k d : 0 <= k < Z.of_nat (length v) -> exists v1, inc1 v k d = Some v1 /\ length v1 = length v /\
  forall k', nthZ v1 k' = option_map (fun a => a + (if k =? k' then d else 0)) (nthZ v k').
Proof.
  intros Hk. destruct (tk_nthZ_some v k Hk) as [a Ea]. unfold inc1. rewrite Ea. eexists. split; [reflexivity|]. split; [apply tk_updZ_length|].
  intros k'. destruct (k =? k') eqn:E.
  - apply Z.eqb_eq in E. rewrite <- E, (tk_nthZ_updZ_eq _ _ _ _ Ea), Ea. reflexivity.
  - apply Z.eqb_neq in E. rewrite tk_nthZ_updZ_neq by lia. destruct (nthZ v k'); cbn; [f_equal; lia|reflexivity].
Qed.
Lemma np_step_spec v c : 1 <= cnode c <= Z.of_nat (length v) -> exists v1, np_step v c = Some v1 /\ length v1 = length v /\
  forall j, nthZ v1 (j - 1) = option_map (fun a => a + cat j c) (nthZ v (j - 1)).
Proof.
  intros Hc. unfold cat.
  destruct c as [j0 c0|j0 d0 i0 pc|j0 d0 i0 pc bb|j0 pc c0]; cbn [np_step cnode cdl] in *.
  - destruct (inc1_spec v (j0 - 1) 1) as (v1 & E & L & N); [lia|]. exists v1. split; [exact E|]. split; [exact L|].
    intros j. rewrite N. replace (j0 - 1 =? j - 1) with (j0 =? j); [reflexivity|]. destruct (Z.eqb_spec j0 j), (Z.eqb_spec (j0 - 1) (j - 1)); try reflexivity; lia.
  - exists v. split; [reflexivity|]. split; [reflexivity|]. intros j. destruct (nthZ v (j - 1)); cbn; [f_equal; destruct (j0 =? j); lia|reflexivity].
  - destruct (inc1_spec v (j0 - 1) (-1)) as (v1 & E & L & N); [lia|]. exists v1. split; [exact E|]. split; [exact L|].
    intros j. rewrite N. replace (j0 - 1 =? j - 1) with (j0 =? j); [reflexivity|]. destruct (Z.eqb_spec j0 j), (Z.eqb_spec (j0 - 1) (j - 1)); try reflexivity; lia.
  - exists v. split; [reflexivity|]. split; [reflexivity|]. intros j. destruct (nthZ v (j - 1)); cbn; [f_equal; destruct (j0 =? j); lia|reflexivity].
Qed.
Lemma np_run : forall cs v, Forall (fun c => 1 <= cnode c <= Z.of_nat (length v)) cs ->
  exists v', orun np_step cs v = Some v' /\ length v' = length v /\
             forall j, nthZ v' (j - 1) = option_map (fun a => a + netZ j cs) (nthZ v (j - 1)).
Proof.
  induction cs as [|c r IH]; intros v Hc.
  - exists v. split; [reflexivity|]. split; [reflexivity|]. intros j. unfold netZ. cbn. destruct (nthZ v (j - 1)); cbn; [f_equal; lia|reflexivity].
  - inversion Hc as [|? ? Hc1 Hc2]. destruct (np_step_spec v c Hc1) as (v1 & E1 & L1 & N1).
    destruct (IH v1) as (v' & E2 & L2 & N2); [rewrite L1; exact Hc2|].
    exists v'. cbn [orun]. rewrite E1. split; [exact E2|]. split; [congruence|].
    intros j. rewrite N2, N1. unfold netZ. cbn [map]. change (zsum (cat j c :: map (cat j) r)) with (cat j c + zsum (map (cat j) r)).
    destruct (nthZ v (j - 1)); cbn; [f_equal; lia|reflexivity].
Qed.
Lemma list_ext_nth {X} : forall (l l' : list X), length l = length l' -> (forall k a, nth_error l k = Some a -> nth_error l' k = Some a) -> l = l'.
Proof.
  induction l as [|x l IH]; intros [|y l'] HL H; cbn in HL; try discriminate; [reflexivity|].
  pose proof (H O x eq_refl) as H0. cbn in H0. injection H0 as <-. f_equal. apply IH; [lia|]. intros k a Hk. exact (H (S k) a Hk).
Qed.

(* what the Hoare logic delivers is what NodePopulation needs *)
Lemma np_track cs s s' n : length (nsh s) = n -> length (nsh s') = n -> Forall (fun c => 1 <= cnode c <= Z.of_nat n) cs ->
  (forall j, cntZ (nsh s') j - netZ j cs = cntZ (nsh s) j) -> orun np_step cs (np_true s) = Some (np_true s').
Proof.
  intros L L' Hc Hd.
  destruct (np_run cs (np_true s)) as (v' & E & Lv & N); [rewrite np_true_nsh, map_length, L; exact Hc|].
  rewrite E. f_equal. rewrite np_true_nsh, map_length in Lv. apply list_ext_nth; [rewrite np_true_nsh, map_length; congruence|].
  intros k a Hk. rewrite <- nthZ_of_nat in Hk. replace (Z.of_nat k) with ((Z.of_nat k + 1) - 1) in Hk by lia.
  rewrite N in Hk. specialize (Hd (Z.of_nat k + 1)). unfold cntZ in Hd.
  rewrite !np_true_nsh. rewrite np_true_nsh, nthZ_map in Hk. rewrite <- nthZ_of_nat, nthZ_map.
  replace (Z.of_nat k) with ((Z.of_nat k + 1) - 1) by lia.
  destruct (nthZ (nsh s) (Z.of_nat k + 1 - 1)) as [t|] eqn:Et; [|discriminate]. cbn in Hk. injection Hk as <-.
  destruct (tk_nthZ_some (nsh s') (Z.of_nat k + 1 - 1)) as [t' Et']; [apply tk_nthZ_range in Et; lia|].
  rewrite Et' in *. cbn. f_equal. lia.
Qed.

Lemma zsum_cons x r : zsum (x :: r) = x + zsum r. Proof. reflexivity. Qed.
Lemma zsum_upd v n a d : nth_error v n = Some a -> zsum (upd v n (a + d)) = zsum v + d.
Proof.
  revert n; induction v as [|x r IH]; intros [|n] H; cbn [nth_error upd] in *; try discriminate.
  - injection H as ->. rewrite !zsum_cons. lia.
  - rewrite !zsum_cons, (IH n H). lia.
Qed.
Lemma inc1_zsum v k d v' : inc1 v k d = Some v' -> zsum v' = zsum v + d.
Proof.
  unfold inc1. destruct (nthZ v k) as [a|] eqn:E; [|discriminate]. intros H. injection H as <-.
  destruct (nthZ_nat _ _ _ E) as (n & -> & Hn). rewrite updZ_nat. apply zsum_upd. exact Hn.
Qed.
Lemma sys_sim v c v' : np_step v c = Some v' -> sys_step (zsum v) c = Some (zsum v').
Proof.
  destruct c; cbn [np_step sys_step]; intros H; try (injection H as <-; reflexivity);
    rewrite (inc1_zsum _ _ _ _ H); f_equal; lia.
Qed.

(* Tracked1 cs s s': folded over the calls cs, SystemPopulation and NodePopulation go from the true state of s to the true state of s'
   (and never raise) *)
Definition Tracked1 (cs : list call) (s s' : sim) : Prop :=
  orun sys_step cs (sys_true s) = Some (sys_true s') /\ orun np_step cs (np_true s) = Some (np_true s').
Lemma Tracked1_np cs s s' : orun np_step cs (np_true s) = Some (np_true s') -> Tracked1 cs s s'.
Proof. intros H. split; [|exact H]. rewrite !sys_true_np. exact (orun_map np_step sys_step zsum sys_sim _ _ _ H). Qed.
Lemma Tracked1_trans a b s s1 s2 : Tracked1 a s s1 -> Tracked1 b s1 s2 -> Tracked1 (a ++ b) s s2.
Proof. intros [A1 A2] [B1 B2]. split; rewrite orun_app; [rewrite A1; exact B1|rewrite A2; exact B2]. Qed.

(* ---------- T2 for C17, SystemPopulation and NodePopulation, stage 2: one event; EVERY configuration; the only invariant is
   "node identities are positions" ---------- *)
Theorem event_step_trackers2 cf s s' : Idx s -> event_step cf s = Ok (tt, s') ->
  Idx s' /\ Tracked1 (calls_event_step cf s) s s'.
Proof.
  intros HI H. pose proof (event_stepW_ok cf s s' H) as HW.
  destruct (hw_event_step cf (length (nsh s)) s tt s' _ HI eq_refl I HW) as (A & B & C & D).
  split; [exact A|]. apply Tracked1_np. eapply np_track; [reflexivity|exact B|exact C|].
  intros j. rewrite (D j). unfold z0. lia.
Qed.

Lemma Idx_dr s d : Idx s -> Idx (s <| dr := d |>). Proof. intros H. exact H. Qed.

(* any number of events, each with its own draws *)
Theorem run_many_trackers2 cf : forall ds s s', Idx s -> run_many cf s ds = Ok s' ->
  Idx s' /\ Tracked1 (calls_many cf s ds) s s'.
Proof.
  induction ds as [|d r IH]; intros s s' HI H; cbn [run_many calls_many] in *.
  - injection H as <-. split; [exact HI|]. split; reflexivity.
  - destruct (event_step cf (s <| dr := d |>)) as [[[] s1]| |] eqn:E; try discriminate.
    destruct (event_step_trackers2 cf _ _ (Idx_dr s d HI) E) as [I1 T1]. destruct (IH _ _ I1 H) as [I2 T2].
    split; [exact I2|]. exact (Tracked1_trans _ _ (s <| dr := d |>) s1 s' T1 T2).
Qed.

(* the counts are never negative: after any number of events the trackers hold numbers of customers *)
Theorem never_negative2 cf ds s s' : Idx s -> run_many cf s ds = Ok s' ->
  exists st v, orun sys_step (calls_many cf s ds) (sys_true s) = Some st /\ 0 <= st /\
               orun np_step (calls_many cf s ds) (np_true s) = Some v /\ Forall (fun z => 0 <= z) v.
Proof.
  intros HI H. destruct (run_many_trackers2 cf ds s s' HI H) as [_ [T1 T2]].
  exists (sys_true s'), (np_true s'). split; [exact T1|]. split; [unfold sys_true, zlen; lia|]. split; [exact T2|].
  unfold np_true. apply Forall_forall. intros z Hz. apply in_map_iff in Hz as (nd & <- & _). unfold zlen. lia.
Qed.

(* executable test of the invariant *)
Definition idx2_b (s : sim) : bool := idx_b 1 (nodes s).
Theorem idx2_b_sound s : idx2_b s = true -> Idx s.
Proof.
  intros H k t Hk. unfold nsh in Hk. rewrite nth_error_map in Hk. destruct (nth_error (nodes s) k) as [nd|] eqn:E; [|discriminate].
  cbn in Hk. injection Hk as <-. cbn. rewrite (idx_b_spec _ _ H k nd E). lia.
Qed.
(* the conservation invariant of Conserve2 contains it *)
Lemma WFx2_Idx fl s : WFx2 fl s -> Idx s.
Proof. intros H. exact (WFx2_idx _ _ H). Qed.

(* ---------- NaiveBlocking and NodeClassMatrix: update functions verbatim from TrackerInc.v, true states read off the queues and the customer records ---------- *)
Definition nb_step (m : list (list Z)) (c : call) : option (list (list Z)) :=
  match c with
  | Acc j _ => inc2 m (j - 1) 0 1
  | Blk j _ _ _ => match inc2 m (j - 1) 1 1 with Some m1 => inc2 m1 (j - 1) 0 (-1) | None => None end
  | Rel j _ _ _ b => if b then inc2 m (j - 1) 1 (-1) else inc2 m (j - 1) 0 (-1)
  | Chg _ _ _ => Some m
  end.
Definition cm_step (m : list (list Z)) (c : call) : option (list (list Z)) :=
  match c with
  | Acc j c => inc2 m (j - 1) c 1
  | Rel j _ _ pc _ => inc2 m (j - 1) pc (-1)
  | Chg j pc c => match inc2 m (j - 1) pc (-1) with Some m1 => inc2 m1 (j - 1) c 1 | None => None end
  | Blk _ _ _ _ => Some m
  end.
(* the blocked flag in the record of customer i (None: no record); pb p o: the flag is there and satisfies p *)
Definition bl (s : sim) (i : Z) : option bool := option_map i_blocked (find_ind i (inds s)).
Definition pb (p : bool -> bool) (o : option bool) : bool := match o with Some b => p b | None => false end.
(* the class under which a customer of a node counts: its customer_class; a blocked customer has already drawn its next class
   (change_customer_class precedes the blocking) but is still at the node as a customer of its previous class *)
Definition class_of (s : sim) (i : Z) : Z := match find_ind i (inds s) with Some x => if i_blocked x then i_pcls x else i_cls x | None => -1 end.
(* per node: (customers whose record says not blocked, customers whose record says blocked) *)
Definition nb_true (s : sim) : list (list Z) :=
  map (fun nd => [zlen (filter (fun i => pb negb (bl s i)) (all_individuals nd)); zlen (filter (fun i => pb (fun b => b) (bl s i)) (all_individuals nd))]) (nodes s).
Definition cm_true (k : nat) (s : sim) : list (list Z) :=
  map (fun nd => map (fun c => zlen (filter (fun i => class_of s i =? c) (all_individuals nd))) (zseq 0 k)) (nodes s).

(* ====================================================================================================================
   5b. NaiveBlocking in the scope that excludes F-02b: a frame logic for the blocked flags
   ==================================================================================================================== *)
(* no node counts an interrupted customer (pre-emptive shift changes / capacitated slots are what interrupts) *)
Definition NoInt (s : sim) : Prop := Forall (fun nd => n_nint nd <= 0) (nodes s).
(* calmN m: m changes no customer's blocked flag, creates and deletes no record, and keeps NoInt *)
Definition calmN {A} (m : M A) : Prop :=
  forall s a s', NoInt s -> m s = Ok (a, s') -> NoInt s' /\ forall i, bl s' i = bl s i.
Definition calmB {A} (i0 : Z) (b0 : bool) (m : M A) : Prop :=
  forall s a s', bl s i0 = Some b0 -> NoInt s -> m s = Ok (a, s') -> NoInt s' /\ forall i, bl s' i = bl s i.

Lemma find_put_l x l i : find_ind i (put_ind_l x l) = if i_id x =? i then Some x else find_ind i l.
Proof.
  induction l as [|y r IH]; cbn [put_ind_l find_ind].
  - destruct (i_id x =? i); reflexivity.
  - destruct (i_id y =? i_id x) eqn:E; cbn [find_ind].
    + apply Z.eqb_eq in E. rewrite E. destruct (i_id x =? i); reflexivity.
    + rewrite IH. destruct (i_id y =? i) eqn:E2; [|reflexivity]. apply Z.eqb_eq in E2. apply Z.eqb_neq in E.
      destruct (Z.eqb_spec (i_id x) i); [congruence|reflexivity].
Qed.

Lemma calmB_of_calmN {A} i0 b0 (m : M A) : calmN m -> calmB i0 b0 m.
Proof. intros H s a s' _ HN E. eapply H; eauto. Qed.
Lemma cn_same {A} (m : M A) : (forall s a s', m s = Ok (a, s') -> inds s' = inds s /\ nodes s' = nodes s) -> calmN m.
Proof. intros H s a s' HN E. destruct (H _ _ _ E) as [Ei En]. unfold NoInt, bl. rewrite Ei, En. auto. Qed.
Lemma cn_ret {A} (x : A) : calmN (ret x). Proof. apply cn_same. intros s a s' H. inversion H. auto. Qed.
Lemma cn_fail {A} e : calmN (@fail A e). Proof. intros s a s' _ H. discriminate. Qed.
Lemma cn_oof {A} : calmN (@oof A). Proof. intros s a s' _ H. discriminate. Qed.
Lemma cn_gets {A} (f : sim -> A) : calmN (gets f). Proof. apply cn_same. intros s a s' H. inversion H. auto. Qed.
Lemma cn_lift {A} e (o : option A) : calmN (lift e o). Proof. destruct o; [apply cn_ret|apply cn_fail]. Qed.
Lemma cn_modify (f : sim -> sim) : (forall s, inds (f s) = inds s /\ nodes (f s) = nodes s) -> calmN (modify f).
Proof. intros Hf. apply cn_same. intros s a s' H. inversion H. apply Hf. Qed.
Lemma cn_get_node j : calmN (get_node j). Proof. apply cn_same. intros s a s' H. apply get_node_spec in H as (-> & _). auto. Qed.
Lemma cn_get_ind i : calmN (get_ind i). Proof. apply cn_same. intros s a s' H. apply get_ind_spec in H as (-> & _). auto. Qed.
Lemma cn_draw_arr : calmN draw_arr. Proof. apply cn_same. intros s a s' H. unfold draw_arr in H. destruct (d_arr (dr s)); inversion H. auto. Qed.
Lemma cn_draw_batch : calmN draw_batch. Proof. apply cn_same. intros s a s' H. unfold draw_batch in H. destruct (d_batch (dr s)); inversion H. auto. Qed.
Lemma cn_draw_svc : calmN draw_svc. Proof. apply cn_same. intros s a s' H. unfold draw_svc in H. destruct (d_svc (dr s)); inversion H. auto. Qed.
Lemma cn_draw_unif : calmN draw_unif. Proof. apply cn_same. intros s a s' H. unfold draw_unif in H. destruct (d_unif (dr s)); inversion H. auto. Qed.
Lemma cn_draw_ren : calmN draw_ren. Proof. apply cn_same. intros s a s' H. unfold draw_ren in H. destruct (d_ren (dr s)); inversion H. auto. Qed.
Lemma cn_draw_cct : calmN draw_cct. Proof. apply cn_same. intros s a s' H. unfold draw_cct in H. destruct (d_cct (dr s)); inversion H. auto. Qed.
Lemma cn_bind {A B} (m : M A) (f : A -> M B) : calmN m -> (forall a, calmN (f a)) -> calmN (bind m f).
Proof.
  intros Hm Hf s b s' HN H. unfold bind in H. destruct (m s) as [[a s1]| |] eqn:E; try discriminate.
  destruct (Hm _ _ _ HN E) as [N1 B1]. destruct (Hf a _ _ _ N1 H) as [N2 B2]. split; [exact N2|]. intros i. rewrite B2. apply B1.
Qed.
Lemma cb_bind {A B} i0 b0 (m : M A) (f : A -> M B) : calmB i0 b0 m -> (forall a, calmB i0 b0 (f a)) -> calmB i0 b0 (bind m f).
Proof.
  intros Hm Hf s b s' Hk HN H. unfold bind in H. destruct (m s) as [[a s1]| |] eqn:E; try discriminate.
  destruct (Hm _ _ _ Hk HN E) as [N1 B1]. assert (Hk1 : bl s1 i0 = Some b0) by (rewrite B1; exact Hk).
  destruct (Hf a _ _ _ Hk1 N1 H) as [N2 B2]. split; [exact N2|]. intros i. rewrite B2. apply B1.
Qed.
Lemma NoInt_nth s j nd : NoInt s -> nthZ (nodes s) (j - 1) = Some nd -> n_nint nd <= 0.
Proof. intros HN Hn. destruct (nthZ_nat _ _ _ Hn) as (k & _ & Hk). unfold NoInt in HN. rewrite Forall_forall in HN. apply HN. eapply nth_error_In; eauto. Qed.
Lemma cn_get_node_bind {B} j (f : node -> M B) : (forall nd, n_nint nd <= 0 -> calmN (f nd)) -> calmN (bind (get_node j) f).
Proof.
  intros Hf s b s' HN H. unfold bind in H. destruct (get_node j s) as [[nd s1]| |] eqn:E; try discriminate.
  apply get_node_spec in E as (-> & _ & Hn). exact (Hf nd (NoInt_nth _ _ _ HN Hn) _ _ _ HN H).
Qed.
Lemma cb_get_node_bind {B} i0 b0 j (f : node -> M B) : (forall nd, n_nint nd <= 0 -> calmB i0 b0 (f nd)) -> calmB i0 b0 (bind (get_node j) f).
Proof.
  intros Hf s b s' Hk HN H. unfold bind in H. destruct (get_node j s) as [[nd s1]| |] eqn:E; try discriminate.
  apply get_node_spec in E as (-> & _ & Hn). exact (Hf nd (NoInt_nth _ _ _ HN Hn) _ _ _ Hk HN H).
Qed.
Lemma cn_put_node nd : n_nint nd <= 0 -> calmN (put_node nd).
Proof.
  intros Hn s a s' HN H. unfold put_node, modify in H. inversion H. split; [|reflexivity].
  unfold NoInt. cbn. unfold updZ. destruct (n_id nd - 1 <? 0); [exact HN|]. apply Forall_upd; assumption.
Qed.
Lemma cb_put_ind i0 b0 x' : i_id x' = i0 -> i_blocked x' = b0 -> calmB i0 b0 (put_ind x').
Proof.
  intros Hid Hb s a s' Hk HN H. unfold put_ind, modify in H. inversion H. split; [exact HN|].
  intros i. unfold bl. cbn. rewrite find_put_l. destruct (Z.eqb_spec (i_id x') i) as [<-|Hne]; [|reflexivity].
  cbn. rewrite Hb. rewrite Hid. symmetry. exact Hk.
Qed.
Lemma cn_get_ind_then {B} i (F : ind -> M B) : (forall x, i_id x = i -> calmB i (i_blocked x) (F x)) -> calmN (bind (get_ind i) F).
Proof.
  intros HF s b s' HN H. unfold bind in H. destruct (get_ind i s) as [[x s1]| |] eqn:E; try discriminate.
  unfold get_ind in E. destruct (find_ind i (inds s)) as [x0|] eqn:Ef; inversion E. subst x0 s1.
  apply (HF x (find_ind_id _ _ _ Ef) s b s'); [unfold bl; rewrite Ef; reflexivity|exact HN|exact H].
Qed.
Lemma cn_upd_ind i f : (forall x, i_id (f x) = i_id x) -> (forall x, i_blocked (f x) = i_blocked x) -> calmN (upd_ind i f).
Proof. intros H1 H2. unfold upd_ind. apply cn_get_ind_then. intros x Hx. apply cb_put_ind; [rewrite H1; exact Hx|apply H2]. Qed.
Lemma cn_upd_node j f : (forall nd, n_nint (f nd) <= n_nint nd) -> calmN (upd_node j f).
Proof. intros Hf. unfold upd_node. apply cn_get_node_bind. intros nd Hn. apply cn_put_node. specialize (Hf nd). lia. Qed.
Lemma cn_mapM {A B} (f : A -> M B) l : (forall a, calmN (f a)) -> calmN (mapM f l).
Proof. intros Hf. induction l as [|a r IH]; cbn [mapM]; [apply cn_ret|]. apply cn_bind; [apply Hf|]. intros b. apply cn_bind; [exact IH|]. intros bs. apply cn_ret. Qed.
Lemma cn_forM {A} (f : A -> M unit) l : (forall a, calmN (f a)) -> calmN (forM_ l f).
Proof. intros Hf. induction l as [|a r IH]; cbn [forM_]; [apply cn_ret|]. apply cn_bind; [apply Hf|]. intros _. exact IH. Qed.

Ltac cn_prim :=
  first [ apply cn_ret | apply cn_fail | apply cn_oof | apply cn_gets | apply cn_lift | apply cn_get_node | apply cn_get_ind
        | apply cn_draw_arr | apply cn_draw_batch | apply cn_draw_svc | apply cn_draw_unif | apply cn_draw_ren | apply cn_draw_cct
        | (apply cn_upd_ind; intros ?; reflexivity)
        | (apply cn_upd_node; intros ?; cbn; lia)
        | (apply cn_put_node; cbn; lia)
        | (apply cn_modify; intros ?; split; reflexivity) ].
Ltac cn_struct :=
  match goal with
  | |- calmN (bind (get_ind _) _) => apply cn_get_ind_then; intros ? ?
  | |- calmB _ _ (bind (get_ind _) _) => apply calmB_of_calmN, cn_get_ind_then; intros ? ?
  | |- calmN (bind (get_node _) _) => apply cn_get_node_bind; intros ? ?
  | |- calmB _ _ (bind (get_node _) _) => apply cb_get_node_bind; intros ? ?
  | |- calmN (bind _ _) => apply cn_bind; [|intros ?]
  | |- calmB _ _ (bind _ _) => apply cb_bind; [|intros ?]
  | |- calmN (mapM _ _) => apply cn_mapM; intros ?
  | |- calmN (forM_ _ _) => apply cn_forM; intros ?
  | |- calmN (if ?b then _ else _) => destruct b
  | |- calmN (match ?x with _ => _ end) => destruct x
  | |- calmB _ _ (if ?b then _ else _) => destruct b
  | |- calmB _ _ (match ?x with _ => _ end) => destruct x
  | |- calmB _ _ (put_ind _) => apply cb_put_ind; [cbn; assumption|reflexivity]
  | |- calmB _ _ _ => apply calmB_of_calmN
  end.
Tactic Notation "cn" "using" tactic(t) := repeat first [ t | cn_struct | cn_prim ].
Ltac cn0 := repeat first [ cn_struct | cn_prim ].

Section CalmWalk.
  Variable cf : config.
  Lemma cn_ncfg_of j : calmN (ncfg_of cf j). Proof. apply cn_lift. Qed.
  Lemma cn_tnow : calmN tnow. Proof. apply cn_gets. Qed.
  Lemma cn_log_rec r : calmN (log_rec r). Proof. apply cn_modify. intros s. split; reflexivity. Qed.
  Lemma cn_choice_uniform {X} (l : list X) : calmN (choice_uniform l). Proof. unfold choice_uniform. cn0. Qed.
  Lemma cn_choice_weighted den P : calmN (choice_weighted den P). Proof. unfold choice_weighted. cn0. Qed.
  Lemma cn_choose_next_customer j : calmN (choose_next_customer cf j).
  Proof. unfold choose_next_customer. cn using first [apply cn_ncfg_of | apply cn_choice_uniform]. Qed.
  Lemma cn_upd_server j sid f : calmN (upd_server j sid f). Proof. unfold upd_server. cn0. Qed.
  Lemma cn_find_next_class_change j : calmN (find_next_class_change j). Proof. unfold find_next_class_change. cn0. Qed.
  Lemma cn_cct_loop row : forall b best bc, calmN (cct_loop row b best bc).
  Proof. induction row as [|h r IH]; intros b best bc; cbn [cct_loop]; [apply cn_ret|]. cn using (apply IH). Qed.
  Lemma cn_decide_class_change j i : calmN (decide_class_change cf j i).
  Proof. unfold decide_class_change. cn using first [apply cn_cct_loop | apply cn_find_next_class_change | apply cn_tnow]. Qed.
  Lemma cn_reset_class_change j i : calmN (reset_class_change cf j i).
  Proof. unfold reset_class_change. cn using (apply cn_find_next_class_change). Qed.
  Lemma cn_stime_num x : calmN (stime_num x). Proof. unfold stime_num. cn0. Qed.
  Lemma cn_give_service_time_after_preemption i : calmN (give_service_time_after_preemption i).
  Proof. unfold give_service_time_after_preemption. cn0. Qed.
  Lemma cn_give_individual_a_service_time i : calmN (give_individual_a_service_time i).
  Proof. unfold give_individual_a_service_time. cn using (apply cn_give_service_time_after_preemption). Qed.
  Lemma cn_attach_server j sid i : calmN (attach_server j sid i). Proof. unfold attach_server. cn using (apply cn_upd_server). Qed.
  Lemma cn_set_next_end j sid d : calmN (set_next_end j sid d). Proof. unfold set_next_end. apply cn_upd_server. Qed.
  Lemma cn_kill_server j sid : calmN (kill_server j sid). Proof. unfold kill_server. cn using (apply cn_tnow). Qed.
  Lemma cn_detatch_server j sid i : calmN (detatch_server j sid i). Proof. unfold detatch_server. cn using first [apply cn_kill_server | apply cn_tnow]. Qed.
  Lemma cn_bump_rec i : calmN (bump_rec i). Proof. unfold bump_rec. cn0. Qed.
  Lemma cn_write_individual_record j i : calmN (write_individual_record cf j i).
  Proof. unfold write_individual_record. cn using first [apply cn_ncfg_of | apply cn_bump_rec | apply cn_log_rec]. Qed.
  Lemma cn_write_interruption_record j i d : calmN (write_interruption_record cf j i d).
  Proof. unfold write_interruption_record. cn using first [apply cn_ncfg_of | apply cn_bump_rec | apply cn_log_rec | apply cn_tnow]. Qed.
  Lemma cn_write_reneging_record j i : calmN (write_reneging_record j i).
  Proof. unfold write_reneging_record. cn using first [apply cn_bump_rec | apply cn_log_rec]. Qed.
  Lemma cn_write_br_record j i ty : calmN (write_br_record j i ty).
  Proof. unfold write_br_record. cn using first [apply cn_bump_rec | apply cn_log_rec | apply cn_tnow]. Qed.
  Lemma cn_reset_individual_attributes i : calmN (reset_individual_attributes i). Proof. unfold reset_individual_attributes. cn0. Qed.
End CalmWalk.

Section CalmWalk2.
  Variable cf : config.
  Lemma cn_valid_dest d : calmN (valid_dest d). Proof. unfold valid_dest. cn0. Qed.
  Lemma cn_jsq_loop lb ds : forall best acc, calmN (jsq_loop lb ds best acc).
  Proof. induction ds as [|d r IH]; intros best acc; cbn [jsq_loop]; [apply cn_ret|]. cn using (apply IH). Qed.
  Lemma cn_jsq_next lb ds order : calmN (jsq_next lb ds order).
  Proof. unfold jsq_next. cn using first [apply cn_jsq_loop | apply cn_choice_uniform]. Qed.
  Lemma cn_get_cyc c j : calmN (get_cyc c j). Proof. unfold get_cyc. cn0. Qed.
  Lemma cn_bump_cyc c j : calmN (bump_cyc c j).
  Proof.
    unfold bump_cyc. apply cn_modify. intros s. destruct (nthZ (cyc s) c) as [row|]; [|split; reflexivity].
    destruct (nthZ row (j - 1)); split; reflexivity.
  Qed.
  Lemma cn_node_router_next r c j : calmN (node_router_next r c j).
  Proof. unfold node_router_next. cn using first [apply cn_choice_weighted | apply cn_jsq_next | apply cn_get_cyc | apply cn_bump_cyc]. Qed.
  Lemma cn_next_node_for mode j i : calmN (next_node_for cf mode j i).
  Proof.
    unfold next_node_for.
    cn using first [apply cn_node_router_next | apply cn_valid_dest | apply cn_choice_uniform | apply cn_jsq_next].
  Qed.
  Lemma cn_start_fresh j i osid count : calmN (start_fresh cf j i osid count).
  Proof. unfold start_fresh. cn using first [apply cn_attach_server | apply cn_reset_class_change | apply cn_set_next_end | apply cn_tnow]. Qed.
  Lemma cn_start_give j i sid : calmN (start_give cf j i sid).
  Proof.
    unfold start_give.
    cn using first [apply cn_attach_server | apply cn_give_individual_a_service_time | apply cn_stime_num | apply cn_reset_class_change | apply cn_set_next_end | apply cn_tnow].
  Qed.
  Lemma cn_start_preemptor j i sid : calmN (start_preemptor cf j i sid).
  Proof.
    unfold start_preemptor.
    cn using first [apply cn_attach_server | apply cn_give_individual_a_service_time | apply cn_stime_num | apply cn_reset_class_change | apply cn_set_next_end | apply cn_tnow].
  Qed.
  (* with NoInt nobody is waiting to be resumed: begin_interrupted_individuals_service (which clears a blocked flag, F-02b) is not reached *)
  Lemma cn_serve_with j sid : calmN (serve_with cf j sid).
  Proof.
    unfold serve_with. apply cn_get_node_bind. intros nd Hn.
    destruct (0 <? n_nint nd) eqn:E; [apply Z.ltb_lt in E; lia|].
    cn using first [apply cn_choose_next_customer | apply cn_start_give].
  Qed.
  Lemma cn_begin_service_if_possible_release j freed : calmN (begin_service_if_possible_release cf j freed).
  Proof. unfold begin_service_if_possible_release. cn using (apply cn_serve_with). Qed.
  Lemma cn_get_reneging_date j i : calmN (get_reneging_date cf j i).
  Proof. unfold get_reneging_date. cn using first [apply cn_ncfg_of | apply cn_tnow]. Qed.
  Lemma cn_preempt_victim j i : calmN (preempt_victim cf j i).
  Proof. unfold preempt_victim. cn using (apply cn_ncfg_of). Qed.
  Lemma cn_decide_between l : calmN (decide_between l).
  Proof. unfold decide_between. destruct l as [|a [|b r]]; [apply cn_fail|apply cn_ret|apply cn_choice_uniform]. Qed.
  Lemma cn_change_customer_class j i : calmN (change_customer_class cf j i).
  Proof. unfold change_customer_class. cn using first [apply cn_ncfg_of | apply cn_choice_weighted]. Qed.
  Lemma cn_has_space d : calmN (has_space cf d). Proof. unfold has_space. cn using (apply cn_ncfg_of). Qed.
  Lemma cn_keyed l : calmN (keyed l). Proof. unfold keyed. cn0. Qed.
  Lemma cn_sort_interrupted_individuals j : calmN (sort_interrupted_individuals j).
  Proof. unfold sort_interrupted_individuals. cn using (apply cn_keyed). Qed.
  Lemma cn_add_new_servers k j : calmN (add_new_servers k j).
  Proof. induction k as [|k IH]; cbn [add_new_servers]; [apply cn_ret|]. cn using first [apply IH | apply cn_tnow]. Qed.
  Lemma cn_begin_service_if_possible_change_shift j : calmN (begin_service_if_possible_change_shift cf j).
  Proof. unfold begin_service_if_possible_change_shift. cn using (apply cn_serve_with). Qed.
  Lemma cn_slot_loop k j : calmN (slot_loop cf k j).
  Proof.
    induction k as [|k IH]; cbn [slot_loop]; [apply cn_ret|].
    cn using first [apply IH | apply cn_choose_next_customer | apply cn_give_individual_a_service_time | apply cn_stime_num | apply cn_reset_class_change | apply cn_tnow].
  Qed.
  Lemma cn_update_next_event_date j : calmN (update_next_event_date cf j).
  Proof. unfold update_next_event_date. cn using first [apply cn_ncfg_of | apply cn_tnow]. Qed.
  Lemma cn_update_all js : calmN (update_all cf js).
  Proof. induction js as [|j r IH]; cbn [update_all]; [apply cn_ret|]. cn using first [apply IH | apply cn_update_next_event_date]. Qed.
  Lemma cn_find_next_event_date : calmN find_next_event_date.
  Proof. apply cn_modify. intros s. destruct (find_min_dates 1 (a_dates (arr s)) (None, 0, 0)) as [[d j] c]. split; reflexivity. Qed.
  Lemma cn_sys_population : calmN sys_population. Proof. unfold sys_population. cn0. Qed.
  Lemma cn_route_of i c : calmN (route_of cf i c). Proof. unfold route_of. cn0. Qed.
  Lemma cn_find_next_active_node : calmN find_next_active_node.
  Proof. unfold find_next_active_node. cn using (apply cn_choice_uniform). Qed.
End CalmWalk2.

Ltac cn_lem :=
  first [ apply cn_ncfg_of | apply cn_tnow | apply cn_log_rec | apply cn_choice_uniform | apply cn_choice_weighted | apply cn_choose_next_customer
        | apply cn_upd_server | apply cn_find_next_class_change | apply cn_cct_loop | apply cn_decide_class_change
        | apply cn_reset_class_change | apply cn_stime_num | apply cn_give_service_time_after_preemption
        | apply cn_give_individual_a_service_time | apply cn_attach_server | apply cn_set_next_end | apply cn_kill_server
        | apply cn_detatch_server | apply cn_bump_rec | apply cn_write_individual_record | apply cn_write_interruption_record
        | apply cn_write_reneging_record | apply cn_write_br_record | apply cn_reset_individual_attributes | apply cn_valid_dest
        | apply cn_jsq_loop | apply cn_jsq_next | apply cn_get_cyc | apply cn_bump_cyc | apply cn_node_router_next
        | apply cn_next_node_for | apply cn_start_fresh | apply cn_start_give | apply cn_start_preemptor
        | apply cn_serve_with | apply cn_begin_service_if_possible_release | apply cn_get_reneging_date
        | apply cn_preempt_victim | apply cn_decide_between | apply cn_change_customer_class | apply cn_has_space | apply cn_keyed
        | apply cn_sort_interrupted_individuals | apply cn_add_new_servers | apply cn_begin_service_if_possible_change_shift
        | apply cn_slot_loop | apply cn_update_next_event_date | apply cn_update_all | apply cn_find_next_event_date
        | apply cn_sys_population | apply cn_route_of | apply cn_find_next_active_node ].
Ltac cna := cn using cn_lem.

(* ---------- the measures: customers of node j whose blocked flag satisfies p ---------- *)
Definition cntb (p : bool -> bool) (s : sim) (j : Z) : Z :=
  match nthZ (nsh s) (j - 1) with Some t => zlen (filter (fun i => pb p (bl s i)) (qof t)) | None => 0 end.
Definition bz (b : bool) : Z := if b then 1 else 0.
Definition cdb (p : bool -> bool) (c : call) : Z :=
  match c with Acc _ _ => bz (p false) | Blk _ _ _ _ => bz (p true) - bz (p false) | Rel _ _ _ _ b => - bz (p b) | Chg _ _ _ => 0 end.
Definition catb (p : bool -> bool) (j : Z) (c : call) : Z := if cnode c =? j then cdb p c else 0.
Definition netb (p : bool -> bool) (j : Z) (cs : list call) : Z := zsum (map (catb p j) cs).
Lemma netb_app p j a b : netb p j (a ++ b) = netb p j a + netb p j b.
Proof. unfold netb. rewrite map_app. apply zsum_app. Qed.

Lemma tk_filter_len_perm {A} (f : A -> bool) a b : Permutation a b -> length (filter f a) = length (filter f b).
Proof. induction 1; cbn; repeat match goal with |- context [if f ?x then _ else _] => destruct (f x) end; cbn; congruence. Qed.
Lemma tk_filter_change (f f' : Z -> bool) (q : list Z) i : NoDup q -> In i q -> (forall i', i' <> i -> f' i' = f i') ->
  zlen (filter f' q) = zlen (filter f q) + (bz (f' i) - bz (f i)).
Proof.
  unfold zlen. induction q as [|h t IH]; intros Hnd Hin Ho; [destruct Hin|].
  inversion Hnd as [|? ? Hn Hd]. cbn [filter]. destruct Hin as [->|Hin].
  - assert (E : filter f' t = filter f t).
    { clear -Hn Ho. induction t as [|a t IH]; [reflexivity|]. cbn. rewrite Ho by (intros ->; apply Hn; left; reflexivity).
      rewrite IH; [reflexivity|]. intros Hx. apply Hn. right. exact Hx. }
    rewrite E. destruct (f' i), (f i); cbn [length bz]; lia.
  - assert (Hne : h <> i) by (intros ->; exact (Hn Hin)). rewrite (Ho h Hne). specialize (IH Hd Hin Ho).
    destruct (f h); cbn [length]; lia.
Qed.
Lemma tk_NoDup_app_r {A} (a b : list A) : NoDup (a ++ b) -> NoDup b.
Proof. induction a as [|x a IH]; cbn; intros H; [exact H|]. inversion H. auto. Qed.
Lemma tk_NoDup_app_disj {A} (a b : list A) x : NoDup (a ++ b) -> In x a -> In x b -> False.
Proof.
  induction a as [|y a IH]; cbn; intros H Ha Hb; [destruct Ha|]. inversion H as [|? ? Hn Hd]. destruct Ha as [->|Ha].
  - apply Hn. apply in_or_app. right. exact Hb.
  - exact (IH Hd Ha Hb).
Qed.
Lemma tk_NoDup_concat_nth {A} (ls : list (list A)) k l : NoDup (concat ls) -> nth_error ls k = Some l -> NoDup l.
Proof.
  revert k; induction ls as [|h t IH]; intros [|k] Hnd Hk; cbn in *; try discriminate.
  - injection Hk as <-. eapply NoDup_app_left; eauto.
  - apply tk_NoDup_app_r in Hnd. eapply IH; eauto.
Qed.
Lemma tk_NoDup_concat_disj {A} (ls : list (list A)) : forall k k' l l' x, NoDup (concat ls) -> nth_error ls k = Some l -> nth_error ls k' = Some l' ->
  k <> k' -> In x l -> In x l' -> False.
Proof.
  induction ls as [|h t IH]; intros [|k] [|k'] l l' x Hnd Hk Hk' Hne Hl Hl'; cbn in *; try discriminate; try congruence.
  - injection Hk as <-. eapply tk_NoDup_app_disj; [exact Hnd|exact Hl|]. apply in_concat. exists l'. split; [eapply nth_error_In; eauto|exact Hl'].
  - injection Hk' as <-. eapply tk_NoDup_app_disj; [exact Hnd|exact Hl'|]. apply in_concat. exists l. split; [eapply nth_error_In; eauto|exact Hl].
  - apply tk_NoDup_app_r in Hnd. eapply (IH k k'); eauto.
Qed.

(* what conservation gives: the identifiers in the queues and in flight are distinct *)
Lemma WFx2_nodup fl s : WFx2 fl s -> NoDup (concat (map qof (nsh s)) ++ fl).
Proof.
  intros (_ & _ & _ & HP & _). unfold qids in HP. cbn [shp sh_ns sh_ex] in HP.
  assert (Hnd : NoDup (concat (map (fun t : Z * Z * list (list Z) => concat (snd t)) (map nshape (nodes s))) ++ exit_ids s ++ fl))
    by (eapply Permutation_NoDup; [symmetry; exact HP|apply zseq_NoDup]).
  change (fun t : Z * Z * list (list Z) => concat (snd t)) with qof in Hnd. fold (nsh s) in Hnd.
  set (a := concat (map qof (nsh s))) in *. clearbody a. clear -Hnd.
  induction a as [|x a IH]; cbn in *; [apply tk_NoDup_app_r in Hnd; exact Hnd|].
  inversion Hnd as [|? ? Hn Hd]. constructor; [|apply IH; exact Hd].
  intros Hin. apply Hn. apply in_app_or in Hin as [Hin|Hin]; apply in_or_app; [left; exact Hin|right; apply in_or_app; right; exact Hin].
Qed.
Lemma WFx2_fl_notin fl s i t k : WFx2 fl s -> In i fl -> nth_error (nsh s) k = Some t -> ~ In i (qof t).
Proof.
  intros HW Hi Hk Hin. apply (tk_NoDup_app_disj _ _ i (WFx2_nodup _ _ HW)); [|exact Hi].
  apply in_concat. exists (qof t). split; [|exact Hin]. apply in_map. eapply nth_error_In; eauto.
Qed.

(* a step that changes neither the shape nor the flags changes no count *)
Lemma cntb_frame p s s' : nsh s' = nsh s -> (forall i, bl s' i = bl s i) -> forall j, cntb p s' j = cntb p s j.
Proof. intros E B j. unfold cntb. rewrite E. destruct (nthZ (nsh s) (j - 1)); [|reflexivity]. unfold zlen. do 2 f_equal. apply filter_ext. intros i. rewrite B. reflexivity. Qed.
(* flags of customers that are in no queue do not count *)
Lemma cntb_flags p s s' : nsh s' = nsh s -> (forall i k t, nth_error (nsh s) k = Some t -> In i (qof t) -> bl s' i = bl s i) -> forall j, cntb p s' j = cntb p s j.
Proof.
  intros E B j. unfold cntb. rewrite E. destruct (nthZ (nsh s) (j - 1)) as [t|] eqn:Et; [|reflexivity]. unfold zlen. do 2 f_equal.
  destruct (nthZ_nat _ _ _ Et) as (k & _ & Hk). apply filter_ext_in. intros i Hi. rewrite (B i k t Hk Hi). reflexivity.
Qed.
(* a node is written back: only its count changes *)
Lemma cntb_put_node p s nd nd0 : okn (shp s) nd0 -> n_id nd = n_id nd0 ->
  forall j, cntb p (s <| nodes := updZ (nodes s) (n_id nd - 1) nd |>) j =
            if j =? n_id nd0 then zlen (filter (fun i => pb p (bl s i)) (concat (n_queues nd))) else cntb p s j.
Proof.
  intros Hok Hid j. unfold cntb.
  assert (E : nsh (s <| nodes := updZ (nodes s) (n_id nd - 1) nd |>) = updZ (nsh s) (n_id nd - 1) (nshape nd)) by (unfold nsh; cbn; apply tk_updZ_map).
  rewrite E, Hid. unfold okn in Hok. cbn [shp sh_ns] in Hok. fold (nsh s) in Hok.
  destruct (j =? n_id nd0) eqn:Ej.
  - apply Z.eqb_eq in Ej. rewrite Ej, (tk_nthZ_updZ_eq _ _ _ _ Hok). reflexivity.
  - apply Z.eqb_neq in Ej. rewrite tk_nthZ_updZ_neq by lia. reflexivity.
Qed.
Lemma NoInt_put s nd : NoInt s -> n_nint nd <= 0 -> NoInt (s <| nodes := updZ (nodes s) (n_id nd - 1) nd |>).
Proof. intros HN Hn. unfold NoInt. cbn. unfold updZ. destruct (n_id nd - 1 <? 0); [exact HN|]. apply Forall_upd; assumption. Qed.

(* ---------- the Hoare logic over W for these measures ---------- *)
Definition Lok (L : list (Z * bool)) (s : sim) : Prop := forall i b, In (i, b) L -> bl s i = Some b.
Definition hoB (p : bool -> bool) (K : shape -> Prop) (L : list (Z * bool)) (fl fl' : list Z) (dl : Z -> Z) {X} (m : W X) : Prop :=
  forall s a s' cs, K (shp s) -> Lok L s -> WFx2 fl s -> NoInt s -> m s = Ok (a, s', cs) ->
    WFx2 fl' s' /\ NoInt s' /\ forall j, cntb p s' j - netb p j cs = cntb p s j + dl j.

Section BLogic.
  Variable p : bool -> bool.
  Lemma B_ext K L fl fl' dl dl' {X} (m : W X) : hoB p K L fl fl' dl m -> (forall j, dl' j = dl j) -> hoB p K L fl fl' dl' m.
  Proof. intros H E s a s' cs HK HL HW HN Hm. destruct (H _ _ _ _ HK HL HW HN Hm) as (A & B & D). split; [auto|split; [auto|]]. intros j. rewrite E. apply D. Qed.
  Lemma B_weak (K : shape -> Prop) L fl fl' dl {X} (m : W X) : hoB p KT [] fl fl' dl m -> hoB p K L fl fl' dl m.
  Proof. intros H s a s' cs _ _ HW HN Hm. eapply H; [exact I| |exact HW|exact HN|exact Hm]. intros i b []. Qed.
  Lemma B_wret K L fl {X} (a : X) : hoB p K L fl fl z0 (wret a).
  Proof. intros s a0 s' cs _ _ HW HN H. unfold wret in H. injection H as <- <- <-. split; [auto|split; [auto|]]. intros j. unfold netb, z0. cbn. lia. Qed.
  Lemma B_up K L fl {X} (m : M X) : presK K m -> calmN m -> hoB p K L fl fl z0 (up m).
  Proof.
    intros Hp Hc s a s' cs HK _ HW HN H. unfold up in H. destruct (m s) as [[a1 s1]| |] eqn:E; try discriminate. injection H as <- <- <-.
    pose proof (Hp _ _ _ (WFx2_idx _ _ HW) HK E) as E1. destruct (Hc _ _ _ HN E) as [N1 B1].
    split; [eapply WFx2_shape; eauto|]. split; [exact N1|]. intros j. rewrite (cntb_frame p s s1 (f_equal sh_ns E1) B1). unfold netb, z0. cbn. lia.
  Qed.
  Lemma B_bind_pres K L fl fl' dl {X Y} (m : M X) (f : X -> W Y) : presK K m -> calmN m -> (forall a, hoB p K L fl fl' dl (f a)) ->
    hoB p K L fl fl' dl (wbind (up m) f).
  Proof.
    intros Hp Hc Hf s b s' cs HK HL HW HN H. unfold wbind, up in H. destruct (m s) as [[a s1]| |] eqn:E; try discriminate.
    destruct (f a s1) as [[[b1 s2] c2]| |] eqn:E2; try discriminate. injection H as <- <- <-. cbn [app].
    pose proof (Hp _ _ _ (WFx2_idx _ _ HW) HK E) as E1. destruct (Hc _ _ _ HN E) as [N1 B1].
    assert (HK1 : K (shp s1)) by (rewrite E1; exact HK).
    assert (HL1 : Lok L s1) by (intros i b0 Hi; rewrite B1; apply HL; exact Hi).
    destruct (Hf a _ _ _ _ HK1 HL1 (WFx2_shape _ _ _ E1 HW) N1 E2) as (A & B & D). split; [exact A|split; [exact B|]].
    intros j. rewrite (D j). rewrite (cntb_frame p s s1 (f_equal sh_ns E1) B1). reflexivity.
  Qed.
  Lemma B_bind K L fl1 fl2 fl3 d1 d2 {X Y} (m : W X) (f : X -> W Y) :
    hoB p K L fl1 fl2 d1 m -> (forall a, hoB p KT [] fl2 fl3 d2 (f a)) -> hoB p K L fl1 fl3 (fun j => d1 j + d2 j) (wbind m f).
  Proof.
    intros Hm Hf s b s' cs HK HL HW HN H. unfold wbind in H. destruct (m s) as [[[a s1] c1]| |] eqn:E; try discriminate.
    destruct (f a s1) as [[[b1 s2] c2]| |] eqn:E2; try discriminate. injection H as <- <- <-.
    destruct (Hm _ _ _ _ HK HL HW HN E) as (A1 & B1 & D1).
    destruct (Hf a _ _ _ _ I (fun i b0 (H0 : In (i, b0) []) => match H0 with end) A1 B1 E2) as (A2 & B2 & D2).
    split; [exact A2|split; [exact B2|]]. intros j. rewrite netb_app. specialize (D1 j). specialize (D2 j). lia.
  Qed.
  Lemma B_bind_z K L fl1 fl2 fl3 dl {X Y} (m : W X) (f : X -> W Y) :
    hoB p K L fl1 fl2 z0 m -> (forall a, hoB p KT [] fl2 fl3 dl (f a)) -> hoB p K L fl1 fl3 dl (wbind m f).
  Proof. intros Hm Hf. eapply B_ext; [eapply B_bind; eauto|]. intros j. unfold z0. lia. Qed.
  Lemma B_get_node_bind K L fl fl' dl {Y} j (f : node -> W Y) :
    (forall nd, n_id nd = j -> n_nint nd <= 0 -> hoB p (fun sh => K sh /\ okn sh nd) L fl fl' dl (f nd)) -> hoB p K L fl fl' dl (wbind (up (get_node j)) f).
  Proof.
    intros Hf s b s' cs HK HL HW HN H. unfold wbind, up in H. destruct (get_node j s) as [[nd s1]| |] eqn:E; try discriminate.
    apply get_node_spec in E as (-> & Hj & Hnd).
    destruct (f nd s) as [[[b1 s2] c2]| |] eqn:E2; try discriminate. injection H as <- <- <-. cbn [app].
    destruct (get_node_okn j s nd (WFx2_idx _ _ HW) Hnd) as [Hid Hok].
    exact (Hf nd Hid (NoInt_nth _ _ _ HN Hnd) _ _ _ _ (conj HK Hok) HL HW HN E2).
  Qed.
  Lemma B_get_ind_bind K L fl fl' dl {Y} i (f : ind -> W Y) :
    (forall x, i_id x = i -> hoB p (fun sh => K sh /\ oki sh x) ((i, i_blocked x) :: L) fl fl' dl (f x)) -> hoB p K L fl fl' dl (wbind (up (get_ind i)) f).
  Proof.
    intros Hf s b s' cs HK HL HW HN H. unfold wbind, up in H. destruct (get_ind i s) as [[x s1]| |] eqn:E; try discriminate.
    assert (Hb : bl s i = Some (i_blocked x)).
    { unfold get_ind in E. unfold bl. destruct (find_ind i (inds s)); inversion E. reflexivity. }
    apply get_ind_spec in E as (-> & Hi & Hx).
    destruct (f x s) as [[[b1 s2] c2]| |] eqn:E2; try discriminate. injection H as <- <- <-. cbn [app].
    eapply (Hf x Hi); [exact (conj HK Hx)| |exact HW|exact HN|exact E2]. intros i0 b0 [Hq|Hq]; [injection Hq as <- <-; exact Hb|apply HL; exact Hq].
  Qed.
  Lemma B_lift_bind K L fl fl' dl {X Y} e (o : option X) (f : X -> W Y) :
    (forall a, o = Some a -> hoB p K L fl fl' dl (f a)) -> hoB p K L fl fl' dl (wbind (up (lift e o)) f).
  Proof.
    intros Hf s b s' cs HK HL HW HN H. destruct o as [a|]; [|discriminate]. unfold wbind, up in H. cbn in H.
    destruct (f a s) as [[[b1 s2] c2]| |] eqn:E2; try discriminate. injection H as <- <- <-. cbn [app]. exact (Hf a eq_refl _ _ _ _ HK HL HW HN E2).
  Qed.
  Lemma B_emit_bind K L fl fl' d2 {Y} c (f : W Y) : hoB p K L fl fl' d2 f -> hoB p K L fl fl' (fun j => d2 j - catb p j c) (wbind (emit c) (fun _ => f)).
  Proof.
    intros Hf s b s' cs HK HL HW HN H. unfold wbind, emit in H.
    destruct (f s) as [[[b1 s2] c2]| |] eqn:E2; try discriminate. injection H as <- <- <-.
    destruct (Hf _ _ _ _ HK HL HW HN E2) as (A & B & D). split; [exact A|split; [exact B|]].
    intros j. specialize (D j). unfold netb in *. cbn [app map]. change (zsum (catb p j c :: map (catb p j) c2)) with (catb p j c + zsum (map (catb p j) c2)). lia.
  Qed.
  Lemma B_bind_emit K L fl fl' d1 c (m : W unit) : hoB p K L fl fl' d1 m -> hoB p K L fl fl' (fun j => d1 j - catb p j c) (wbind m (fun _ => emit c)).
  Proof.
    intros Hm s b s' cs HK HL HW HN H. unfold wbind, emit in H.
    destruct (m s) as [[[a s1] c1]| |] eqn:E; try discriminate. injection H as <- <- <-.
    destruct (Hm _ _ _ _ HK HL HW HN E) as (A & B & D). split; [exact A|split; [exact B|]].
    intros j. specialize (D j). rewrite netb_app. unfold netb at 2. cbn [map]. change (zsum [catb p j c]) with (catb p j c + 0). lia.
  Qed.
End BLogic.

Lemma find_del_l i l i' : i' <> i -> find_ind i' (del_ind_l i l) = find_ind i' l.
Proof.
  intros Hne. induction l as [|y r IH]; cbn [del_ind_l find_ind]; [reflexivity|].
  destruct (i_id y =? i) eqn:E; cbn [find_ind].
  - apply Z.eqb_eq in E. destruct (Z.eqb_spec (i_id y) i'); [congruence|reflexivity].
  - rewrite IH. reflexivity.
Qed.
Lemma zlen_filter_cons {A} (f : A -> bool) x l : zlen (filter f (x :: l)) = bz (f x) + zlen (filter f l).
Proof. unfold zlen. cbn [filter]. destruct (f x); cbn [length bz]; lia. Qed.

Section BMoves.
  Variable p : bool -> bool.
  (* customer i (flag b) is taken out of a queue of node j *)
  Lemma B_put_rm (K : shape -> Prop) L fl i b nd j :
    n_id nd = j -> n_nint nd <= 0 -> In (i, b) L ->
    (forall sh, K sh -> exists nd0 p0 q q', okn sh nd0 /\ nthZ (n_queues nd0) p0 = Some q /\ remove_first i q = Some q' /\
                        n_id nd = n_id nd0 /\ n_pop nd = n_pop nd0 - 1 /\ n_queues nd = updZ (n_queues nd0) p0 q') ->
    hoB p K L fl (i :: fl) (fun j0 => if j0 =? j then - bz (p b) else 0) (up (put_node nd)).
  Proof.
    intros Hj Hn Hib HS s a s' cs HK HL HW HN H.
    destruct (HS _ HK) as (nd0 & p0 & q & q' & Hok & Hq & Hr & Hid & Hpop & Hqs).
    assert (E : put_node nd s = Ok (tt, s <| nodes := updZ (nodes s) (n_id nd - 1) nd |>)) by reflexivity.
    destruct (trK_put_node_rm K fl i nd HS s tt _ HK HW E) as [W1 _].
    unfold up in H. rewrite E in H. injection H as <- <- <-.
    split; [exact W1|]. split; [apply NoInt_put; assumption|].
    intros j0. rewrite (cntb_put_node p s nd nd0 Hok Hid). unfold netb. cbn [map zsum fold_right]. rewrite <- Hj, Hid.
    destruct (j0 =? n_id nd0) eqn:Ej; [|lia]. apply Z.eqb_eq in Ej. rewrite Ej.
    unfold cntb. unfold okn in Hok. cbn [shp sh_ns] in Hok. fold (nsh s) in Hok. rewrite Hok. unfold qof, nshape. cbn [snd].
    assert (P : Permutation (concat (n_queues nd0)) (i :: concat (n_queues nd))).
    { rewrite Hqs. destruct (nthZ_nat _ _ _ Hq) as (kp & -> & Hqk). rewrite updZ_nat. symmetry.
      eapply concat_upd_rm; [exact Hqk|]. apply remove_first_perm. exact Hr. }
    unfold zlen at 2. rewrite (tk_filter_len_perm _ _ _ P). fold (zlen (filter (fun i0 : Z => pb p (bl s i0)) (i :: concat (n_queues nd)))).
    rewrite zlen_filter_cons, (HL i b Hib). cbn [pb]. lia.
  Qed.
  (* customer i (flag b), in flight, is appended to a queue of node j *)
  Lemma B_put_add (K : shape -> Prop) L fl i b nd j :
    n_id nd = j -> n_nint nd <= 0 -> In (i, b) L ->
    (forall sh, K sh -> exists nd0 p0 q, okn sh nd0 /\ nthZ (n_queues nd0) p0 = Some q /\
                        n_id nd = n_id nd0 /\ n_pop nd = n_pop nd0 + 1 /\ n_queues nd = updZ (n_queues nd0) p0 (q ++ [i])) ->
    hoB p K L (i :: fl) fl (fun j0 => if j0 =? j then bz (p b) else 0) (up (put_node nd)).
  Proof.
    intros Hj Hn Hib HS s a s' cs HK HL HW HN H.
    destruct (HS _ HK) as (nd0 & p0 & q & Hok & Hq & Hid & Hpop & Hqs).
    assert (E : put_node nd s = Ok (tt, s <| nodes := updZ (nodes s) (n_id nd - 1) nd |>)) by reflexivity.
    destruct (trK_put_node_add K fl i nd HS s tt _ HK HW E) as [W1 _].
    unfold up in H. rewrite E in H. injection H as <- <- <-.
    split; [exact W1|]. split; [apply NoInt_put; assumption|].
    intros j0. rewrite (cntb_put_node p s nd nd0 Hok Hid). unfold netb. cbn [map zsum fold_right]. rewrite <- Hj, Hid.
    destruct (j0 =? n_id nd0) eqn:Ej; [|lia]. apply Z.eqb_eq in Ej. rewrite Ej.
    unfold cntb. unfold okn in Hok. cbn [shp sh_ns] in Hok. fold (nsh s) in Hok. rewrite Hok. unfold qof, nshape. cbn [snd].
    assert (P : Permutation (concat (n_queues nd)) (i :: concat (n_queues nd0))).
    { rewrite Hqs. destruct (nthZ_nat _ _ _ Hq) as (kp & -> & Hqk). rewrite updZ_nat.
      eapply concat_upd_add; [exact Hqk|]. rewrite Permutation_app_comm. reflexivity. }
    unfold zlen at 1. rewrite (tk_filter_len_perm _ _ _ P). fold (zlen (filter (fun i0 : Z => pb p (bl s i0)) (i :: concat (n_queues nd0)))).
    rewrite zlen_filter_cons, (HL i b Hib). cbn [pb]. lia.
  Qed.
  (* the queues of a node are rearranged *)
  Lemma B_put_mv (K : shape -> Prop) L fl nd :
    n_nint nd <= 0 ->
    (forall sh, K sh -> exists nd0, okn sh nd0 /\ n_id nd = n_id nd0 /\ n_pop nd = n_pop nd0 /\
                        Permutation (concat (n_queues nd)) (concat (n_queues nd0))) ->
    hoB p K L fl fl z0 (up (put_node nd)).
  Proof.
    intros Hn HS s a s' cs HK HL HW HN H.
    destruct (HS _ HK) as (nd0 & Hok & Hid & Hpop & P).
    assert (E : put_node nd s = Ok (tt, s <| nodes := updZ (nodes s) (n_id nd - 1) nd |>)) by reflexivity.
    destruct (trK_put_node_mv K fl nd HS s tt _ HK HW E) as [W1 _].
    unfold up in H. rewrite E in H. injection H as <- <- <-.
    split; [exact W1|]. split; [apply NoInt_put; assumption|].
    intros j0. rewrite (cntb_put_node p s nd nd0 Hok Hid). unfold netb, z0. cbn [map zsum fold_right].
    destruct (j0 =? n_id nd0) eqn:Ej; [|lia]. apply Z.eqb_eq in Ej. rewrite Ej.
    unfold cntb. unfold okn in Hok. cbn [shp sh_ns] in Hok. fold (nsh s) in Hok. rewrite Hok. unfold qof, nshape. cbn [snd].
    unfold zlen. rewrite (tk_filter_len_perm _ _ _ P). lia.
  Qed.
  (* the record of a customer in flight is rewritten *)
  Lemma B_put_ind_fl_bind (K : shape -> Prop) L fl fl' dl {Y} x (f : W Y) :
    In (i_id x) fl -> hoB p K [(i_id x, i_blocked x)] fl fl' dl f -> hoB p K L fl fl' dl (wbind (up (put_ind x)) (fun _ => f)).
  Proof.
    intros Hi Hf s b s' cs HK HL HW HN H. unfold wbind, up, put_ind, modify in H.
    set (s1 := s <| inds := put_ind_l x (inds s) |>) in *.
    destruct (f s1) as [[[b1 s2] c2]| |] eqn:E2; try discriminate. injection H as <- <- <-. cbn [app].
    assert (Es : shp s1 = shp s).
    { unfold shp, s1. cbn. f_equal. apply put_ind_l_ids_in. apply (WFx2_fl_in _ _ _ HW Hi). }
    assert (Hbl : forall i, bl s1 i = if i_id x =? i then Some (i_blocked x) else bl s i).
    { intros i. unfold bl, s1. cbn. rewrite find_put_l. destruct (i_id x =? i); reflexivity. }
    assert (HL1 : Lok [(i_id x, i_blocked x)] s1).
    { intros i0 b0 [Hq|[]]. injection Hq as <- <-. rewrite Hbl, Z.eqb_refl. reflexivity. }
    assert (HK1 : K (shp s1)) by (rewrite Es; exact HK).
    destruct (Hf _ _ _ _ HK1 HL1 (WFx2_shape _ _ _ Es HW) HN E2) as (A & B & D). split; [exact A|split; [exact B|]].
    intros j. rewrite (D j). f_equal. apply (cntb_flags p s s1 (f_equal sh_ns Es)).
    intros i k t Hk Hin. rewrite Hbl. destruct (Z.eqb_spec (i_id x) i) as [<-|]; [|reflexivity].
    exfalso. exact (WFx2_fl_notin _ _ _ _ _ HW Hi Hk Hin).
  Qed.
  (* the blocked flag of a customer waiting in node j is rewritten *)
  Lemma B_put_ind_q_bind (K : shape -> Prop) L fl fl' d2 {Y} x b0 j (f : W Y) :
    In (i_id x, b0) L ->
    (forall sh, K sh -> oki sh x /\ exists t, nthZ (sh_ns sh) (j - 1) = Some t /\ In (i_id x) (qof t)) ->
    hoB p K [(i_id x, i_blocked x)] fl fl' d2 f ->
    hoB p K L fl fl' (fun j0 => d2 j0 + (if j0 =? j then bz (p (i_blocked x)) - bz (p b0) else 0)) (wbind (up (put_ind x)) (fun _ => f)).
  Proof.
    intros Hib HS Hf s b s' cs HK HL HW HN H. unfold wbind, up, put_ind, modify in H.
    set (s1 := s <| inds := put_ind_l x (inds s) |>) in *.
    destruct (f s1) as [[[b1 s2] c2]| |] eqn:E2; try discriminate. injection H as <- <- <-. cbn [app].
    destruct (HS _ HK) as (Hoki & t & Ht & Hin).
    assert (Es : shp s1 = shp s) by (unfold shp, s1; cbn; f_equal; apply put_ind_l_ids_in; exact Hoki).
    assert (Hbl : forall i, bl s1 i = if i_id x =? i then Some (i_blocked x) else bl s i).
    { intros i. unfold bl, s1. cbn. rewrite find_put_l. destruct (i_id x =? i); reflexivity. }
    assert (HL1 : Lok [(i_id x, i_blocked x)] s1).
    { intros i0 b1' [Hq|[]]. injection Hq as <- <-. rewrite Hbl, Z.eqb_refl. reflexivity. }
    assert (HK1 : K (shp s1)) by (rewrite Es; exact HK).
    destruct (Hf _ _ _ _ HK1 HL1 (WFx2_shape _ _ _ Es HW) HN E2) as (A & B & D). split; [exact A|split; [exact B|]].
    intros j0. rewrite (D j0).
    assert (C : cntb p s1 j0 = cntb p s j0 + (if j0 =? j then bz (p (i_blocked x)) - bz (p b0) else 0)); [|lia].
    pose proof (WFx2_nodup _ _ HW) as Hnd. apply NoDup_app_left in Hnd.
    cbn [shp sh_ns] in Ht. fold (nsh s) in Ht. destruct (nthZ_nat _ _ _ Ht) as (k & Hk & Hkt).
    unfold cntb. rewrite (f_equal sh_ns Es : nsh s1 = nsh s).
    destruct (j0 =? j) eqn:Ej.
    - apply Z.eqb_eq in Ej. rewrite Ej, Ht.
      rewrite (tk_filter_change (fun i => pb p (bl s i)) (fun i => pb p (bl s1 i)) (qof t) (i_id x)).
      + rewrite Hbl, Z.eqb_refl, (HL _ _ Hib). cbn [pb]. reflexivity.
      + eapply (tk_NoDup_concat_nth (map qof (nsh s)) k); [exact Hnd|]. rewrite nth_error_map, Hkt. reflexivity.
      + exact Hin.
      + intros i' Hne. rewrite Hbl. destruct (Z.eqb_spec (i_id x) i'); [congruence|reflexivity].
    - apply Z.eqb_neq in Ej. destruct (nthZ (nsh s) (j0 - 1)) as [t0|] eqn:Et0; [|lia].
      destruct (nthZ_nat _ _ _ Et0) as (k0 & Hk0 & Hkt0).
      assert (E : filter (fun i => pb p (bl s1 i)) (qof t0) = filter (fun i => pb p (bl s i)) (qof t0)); [|rewrite E; lia].
      apply filter_ext_in. intros i' Hi'. rewrite Hbl. destruct (Z.eqb_spec (i_id x) i') as [<-|]; [|reflexivity]. exfalso.
      apply (tk_NoDup_concat_disj (map qof (nsh s)) k k0 (qof t) (qof t0) (i_id x) Hnd); try assumption.
      + rewrite nth_error_map, Hkt. reflexivity.
      + rewrite nth_error_map, Hkt0. reflexivity.
      + lia.
  Qed.
  (* the customer in flight reaches the exit *)
  Lemma B_exit_accept (K : shape -> Prop) L fl i c : hoB p K L (i :: fl) fl z0 (up (exit_accept i c)).
  Proof.
    intros s a s' cs HK HL HW HN H. unfold up in H. destruct (exit_accept i c s) as [[a1 s1]| |] eqn:E; try discriminate. injection H as <- <- <-.
    destruct (tr_exit_accept i c fl s a1 s1 I HW E) as [W1 _]. unfold exit_accept, bind, del_ind, modify in E. injection E as <- <-.
    split; [exact W1|]. split; [exact HN|].
    intros j. unfold netb, z0. cbn [map zsum fold_right].
    match goal with |- cntb p ?st j - 0 = _ => rewrite (cntb_flags p s st eq_refl) end; [lia|].
    intros i' k t Hk Hin. unfold bl. cbn. rewrite find_del_l; [reflexivity|]. intros ->.
    exact (WFx2_fl_notin _ _ _ _ _ HW (or_introl eq_refl) Hk Hin).
  Qed.
End BMoves.

Section BLogic2.
  Variable p : bool -> bool.
  (* a frame step that writes back the record of a customer whose flag is remembered in L *)
  Lemma B_bind_presB K L fl fl' dl {X Y} i0 b0 (m : M X) (f : X -> W Y) : presK K m -> In (i0, b0) L -> calmB i0 b0 m ->
    (forall a, hoB p K L fl fl' dl (f a)) -> hoB p K L fl fl' dl (wbind (up m) f).
  Proof.
    intros Hp Hin Hc Hf s b s' cs HK HL HW HN H. unfold wbind, up in H. destruct (m s) as [[a s1]| |] eqn:E; try discriminate.
    destruct (f a s1) as [[[b1 s2] c2]| |] eqn:E2; try discriminate. injection H as <- <- <-. cbn [app].
    pose proof (Hp _ _ _ (WFx2_idx _ _ HW) HK E) as E1. destruct (Hc _ _ _ (HL _ _ Hin) HN E) as [N1 B1].
    assert (HK1 : K (shp s1)) by (rewrite E1; exact HK).
    assert (HL1 : Lok L s1) by (intros i b' Hi; rewrite B1; apply HL; exact Hi).
    destruct (Hf a _ _ _ _ HK1 HL1 (WFx2_shape _ _ _ E1 HW) N1 E2) as (A & B & D). split; [exact A|split; [exact B|]].
    intros j. rewrite (D j). rewrite (cntb_frame p s s1 (f_equal sh_ns E1) B1). reflexivity.
  Qed.
  Lemma B_oof K L fl fl' dl {X} : hoB p K L fl fl' dl (up (@oof X)).
  Proof. intros s a s' cs _ _ _ _ H. discriminate. Qed.
End BLogic2.

Ltac hb_struct :=
  match goal with
  | |- hoB _ _ _ _ _ _ (wbind (up (get_node _)) _) => apply B_get_node_bind; intros ? ? ?
  | |- hoB _ _ _ _ _ _ (wbind (up (get_ind _)) _) => apply B_get_ind_bind; intros ? ?
  | |- hoB _ _ _ _ _ _ (wbind (up (lift _ _)) _) => apply B_lift_bind; intros ? ?
  | |- hoB _ _ _ _ _ _ (wbind (up _) _) =>
      first [ (apply B_bind_pres; [solve [pka]|solve [cna]|intros ?])
            | (eapply B_bind_presB; [solve [pka]|left; reflexivity|solve [cna]|intros ?]) ]
  | |- hoB _ _ _ _ _ _ (if ?b then _ else _) => destruct b
  | |- hoB _ _ _ _ _ _ (match ?x with _ => _ end) => destruct x
  | |- hoB _ _ _ _ _ _ (up _) => apply B_up; [solve [pka]|solve [cna]]
  | |- hoB _ _ _ _ _ _ (wret _) => apply B_wret
  end.
Tactic Notation "hb" "using" tactic(t) :=
  repeat first [ progress cbv zeta | (apply B_weak; t) | t | hb_struct | (eapply B_bind_z; [|intros ?]) ].

(* ====================================================================================================================
   5c. Every instrumented engine function: the emitted calls account exactly for the change of every count of blocked / unblocked
   ==================================================================================================================== *)
Section BWalk.
  Variable cf : config.
  Variable p : bool -> bool.
  Notation B0 fl fl' m := (hoB p KT [] fl fl' z0 m).

  Lemma hb_core : forall f,
    (forall j i d rr fl, B0 fl fl (releaseW cf f j i d rr)) /\
    (forall j fl, B0 fl fl (release_blocked_individualW cf f j)) /\
    (forall j i fl, B0 (i :: fl) fl (acceptW cf f j i)) /\
    (forall j v i fl, B0 fl fl (preemptW cf f j v i)).
  Proof.
    induction f as [|f (IHr & IHb & IHa & IHp)].
    - split; [|split; [|split]]; intros; simpl; apply B_oof.
    - split; [|split; [|split]].
      + intros j i d rr fl. simpl releaseW.
        apply B_bind_pres; [solve [pka]|solve [cna]|intros t].
        apply B_get_ind_bind; intros x Hx.
        apply B_get_node_bind; intros nd Hid Hn.
        apply B_bind_pres; [solve [pka]|solve [cna]|intros nc].
        apply B_lift_bind; intros q Hq. apply B_lift_bind; intros q' Hq'.
        cbv zeta.
        eapply B_ext; [eapply B_bind; [apply B_put_rm with (i := i) (b := i_blocked x) (j := j); [exact Hid|cbn; lia|left; reflexivity|]|intros _]|].
        * intros sh ((_ & _) & Hok). exists nd, (i_pprio x), q, q'. repeat split; assumption || reflexivity.
        * apply B_put_ind_fl_bind; [left; symmetry; exact Hx|].
          do 4 hb_struct.
          eapply B_emit_bind.
          hb using first [apply B_exit_accept | apply IHa | apply IHb].
        * intros j0. unfold catb, z0, cnode, cdb. rewrite (Z.eqb_sym j j0). destruct (j0 =? j); lia.
      + intros j fl. simpl release_blocked_individualW. hb using (apply IHr).
      + intros j i fl. simpl acceptW.
        apply B_get_ind_bind; intros x Hx.
        apply B_get_node_bind; intros nd Hid Hn.
        eapply B_ext; [eapply B_bind_emit|].
        * apply B_put_ind_fl_bind; [left; symmetry; exact Hx|].
          apply B_lift_bind; intros qs Hqs.
          eapply B_bind; [apply B_put_add with (i := i) (b := false) (j := j); [exact Hid|cbn; lia|left; f_equal; exact Hx|]|intros _].
          -- intros sh ((_ & _) & Hok). destruct (nthZ (n_queues nd) (i_prio x)) as [q|] eqn:Eq; [|discriminate].
             injection Hqs as <-. exists nd, (i_prio x), q. repeat split; assumption || reflexivity.
          -- hb using (apply IHp).
        * intros j0. unfold catb, z0, cnode, cdb. rewrite (Z.eqb_sym j j0). destruct (j0 =? j); lia.
      + intros j v i fl. simpl preemptW. hb using (apply IHr).
  Qed.
End BWalk.

(* schedules and capacitated slots are non-pre-emptive or `reroute`: nobody is ever put on a list of interrupted customers *)
Definition scope_int_nc (nc : ncfg) : bool :=
  match nc_srv nc with
  | SFixed => true
  | SSched sc => (sc_pre sc =? 0) || (sc_pre sc =? 4)
  | SSlot sl => negb (sl_cap sl) || (sl_pre sl =? 0) || (sl_pre sl =? 4)
  end.
Definition scope_int (cf : config) : bool := forallb scope_int_nc (cf_nodes cf).
(* a customer of node j *)
Definition inq (i j : Z) (sh : shape) : Prop := exists t, nthZ (sh_ns sh) (j - 1) = Some t /\ In i (qof t).

Lemma hoB_eq p K L fl fl' dl {X} (m m' : W X) : (forall s, m s = m' s) -> hoB p K L fl fl' dl m -> hoB p K L fl fl' dl m'.
Proof. intros E H s a s' cs HK HL HW HN Hm. rewrite <- E in Hm. eapply H; eauto. Qed.
Lemma up_bind_eq {X Y} (m : M X) (f : X -> M Y) s : wbind (up m) (fun a => up (f a)) s = up (bind m f) s.
Proof. unfold wbind, up, bind. destruct (m s) as [[a s1]| |]; [|reflexivity|reflexivity]. destruct (f a s1) as [[b s2]| |]; reflexivity. Qed.
Lemma decide_between_In l s i s1 : decide_between l s = Ok (i, s1) -> In i l.
Proof.
  unfold decide_between. destruct l as [|a [|b r]]; [discriminate|intros H; inversion H; left; reflexivity|].
  remember (a :: b :: r) as l eqn:El. clear El.
  unfold choice_uniform, bind. destruct (draw_unif s) as [[u s0]| |]; try discriminate.
  destruct (nth_error l (rc_uniform (length l) u)) as [y|] eqn:E; unfold lift, ret, fail; intros H; [|discriminate].
  injection H as H1 H2. rewrite <- H1. eapply nth_error_In; exact E.
Qed.

Section BWalk2.
  Variable cf : config.
  Variable p : bool -> bool.
  Hypothesis Hscope : scope_int cf = true.
  Notation B0 fl fl' m := (hoB p KT [] fl fl' z0 m).

  Lemma hb_release f j i d rr fl : B0 fl fl (releaseW cf f j i d rr). Proof. apply hb_core. Qed.
  Lemma hb_rbi f j fl : B0 fl fl (release_blocked_individualW cf f j). Proof. apply hb_core. Qed.
  Lemma hb_accept f j i fl : B0 (i :: fl) fl (acceptW cf f j i). Proof. apply hb_core. Qed.
  Lemma hb_preempt f j v i fl : B0 fl fl (preemptW cf f j v i). Proof. apply hb_core. Qed.

  Lemma B_forMW K L fl {X} (l : list X) (f : X -> W unit) : (forall a, B0 fl fl (f a)) -> hoB p K L fl fl z0 (forMW l f).
  Proof. intros Hf. apply B_weak. induction l as [|a r IH]; cbn [forMW]; [apply B_wret|]. eapply B_bind_z; [apply Hf|intros _; exact IH]. Qed.

  (* finish_service after its candidate i has been chosen: i is a customer of node j that is not blocked *)
  Lemma hb_fs_tail j nd i fl : hoB p (inq i j) [(i, false)] fl fl z0 (fs_tailW cf j nd i).
  Proof.
    unfold fs_tailW.
    do 7 hb_struct.
    - hb using (apply hb_release).
    - apply B_get_ind_bind; intros x Hx.
      eapply B_ext; [eapply B_put_ind_q_bind with (b0 := false) (j := j)|].
      + right. left. f_equal. symmetry. exact Hx.
      + intros sh [Hq Hoki]. split; [exact Hoki|]. destruct Hq as (t & Ht & Hin). exists t. split; [exact Ht|]. cbn. rewrite Hx. exact Hin.
      + eapply B_emit_bind. apply B_up; [solve [pka]|solve [cna]].
      + intros j0. unfold catb, z0, cnode, cdb. cbn. rewrite (Z.eqb_sym j j0). destruct (j0 =? j); lia.
  Qed.

  (* renege after its candidate i has been chosen: i is not blocked (the tracker is told `False`) *)
  Lemma hb_ren_tail j t i fl : hoB p KT [(i, false)] fl fl z0 (ren_tailW cf j t i).
  Proof.
    unfold ren_tailW.
    apply B_bind_pres; [solve [pka]|solve [cna]|intros _].
    apply B_bind_pres; [solve [pka]|solve [cna]|intros d].
    apply B_get_ind_bind; intros x Hx.
    apply B_get_node_bind; intros nd1 Hid1 Hn1.
    apply B_lift_bind; intros q Hq. apply B_lift_bind; intros q' Hq'.
    cbv zeta.
    eapply B_ext; [eapply B_bind; [apply B_put_rm with (i := i) (b := false) (j := j); [exact Hid1|cbn; lia|right; left; reflexivity|]|intros _]|].
    - intros sh ((_ & _) & Hok). exists nd1, (i_pprio x), q, q'. repeat split; assumption || reflexivity.
    - do 4 hb_struct.
      eapply B_emit_bind.
      hb using first [apply B_exit_accept | apply hb_accept | apply hb_rbi].
    - intros j0. unfold catb, z0, cnode, cdb. rewrite (Z.eqb_sym j j0). destruct (j0 =? j); lia.
  Qed.

  Lemma hb_interrupt_service f j i fl : B0 fl fl (interrupt_serviceW cf f j i 4).
  Proof. unfold interrupt_serviceW. change (4 =? 4) with true. cbv iota. hb using (apply hb_release). Qed.
  Lemma hb_off_duty_loop k f j se fl : forall idx, B0 fl fl (off_duty_loopW cf k f j idx 4 se).
  Proof. induction k as [|k IH]; intros idx; cbn [off_duty_loopW]; [apply B_wret|]. hb using first [apply hb_interrupt_service | apply IH]. Qed.
  Lemma hb_take_servers_off_duty f j pre fl : pre = 0 \/ pre = 4 -> B0 fl fl (take_servers_off_dutyW cf f j pre).
  Proof.
    intros [-> | ->]; unfold take_servers_off_dutyW.
    - change (0 =? 0) with true. cbv iota. hb using fail.
    - change (4 =? 0) with false. cbv iota. hb using (apply hb_off_duty_loop).
  Qed.
  Lemma scope_nc j nc : nthZ (cf_nodes cf) (j - 1) = Some nc -> scope_int_nc nc = true.
  Proof.
    intros H. unfold scope_int in Hscope. rewrite forallb_forall in Hscope. apply Hscope.
    destruct (nthZ_nat _ _ _ H) as (k & _ & Hk). eapply nth_error_In; eauto.
  Qed.
  Lemma hb_change_shift j fl : B0 fl fl (change_shiftW cf j).
  Proof.
    unfold change_shiftW, ncfg_of. apply B_lift_bind; intros nc Hnc. pose proof (scope_nc j nc Hnc) as Hs. unfold scope_int_nc in Hs.
    destruct (nc_srv nc) as [|sc|sl]; try (apply B_up; [solve [pka]|solve [cna]]).
    assert (Hpre : sc_pre sc = 0 \/ sc_pre sc = 4).
    { apply orb_true_iff in Hs as [Hs|Hs]; apply Z.eqb_eq in Hs; auto. }
    hb using (apply hb_take_servers_off_duty; exact Hpre).
  Qed.
  Lemma hb_slotted_service j fl : B0 fl fl (slotted_serviceW cf j).
  Proof.
    unfold slotted_serviceW, ncfg_of. apply B_lift_bind; intros nc Hnc. pose proof (scope_nc j nc Hnc) as Hs. unfold scope_int_nc in Hs.
    destruct (nc_srv nc) as [|sc|sl]; try (apply B_up; [solve [pka]|solve [cna]]).
    apply B_get_node_bind; intros nd Hid Hn.
    apply B_bind_pres; [solve [pka]|solve [cna]|intros _]. cbv zeta.
    eapply B_bind_z; [|intros _; hb using fail].
    destruct (sl_cap sl) eqn:Ec; cbn [andb negb orb] in *; [|apply B_wret].
    destruct (sl_pre sl =? 0) eqn:E0; cbn [negb orb] in *; [apply B_wret|]. apply Z.eqb_eq in Hs. rewrite Hs.
    hb using first [apply B_forMW; intros ? | apply hb_interrupt_service].
  Qed.

  Lemma hb_ccww j fl : B0 fl fl (change_customer_class_while_waitingW cf j).
  Proof.
    unfold change_customer_class_while_waitingW.
    apply B_get_node_bind; intros nd Hid Hn.
    apply B_lift_bind; intros i Hi.
    apply B_get_ind_bind; intros x Hx.
    apply B_lift_bind; intros nc' Hnc. apply B_lift_bind; intros p' Hp'.
    hb_struct.
    eapply B_bind_z; [|intros _; eapply B_ext; [eapply B_emit_bind; apply B_up; [solve [pka]|solve [cna]]|]].
    - destruct (negb (p' =? i_pprio x)); [|apply B_wret].
      apply B_lift_bind; intros q Hq. apply B_lift_bind; intros q' Hq'. cbv zeta. apply B_lift_bind; intros qn Hqn.
      eapply B_bind_z; [apply B_put_mv; [cbn; lia|]|intros _; hb using (apply hb_preempt)].
      intros sh ((_ & Hok) & _). exists nd. split; [exact Hok|]. split; [reflexivity|]. split; [reflexivity|]. cbn.
      destruct (nthZ_nat _ _ _ Hq) as (kp & Hkp & Hqk). rewrite Hkp, updZ_nat in *.
      destruct (nthZ_nat _ _ _ Hqn) as (kn & Hkn & Hqnk). rewrite Hkn, updZ_nat.
      rewrite (concat_upd_add _ _ _ (qn ++ [i]) i Hqnk); [|rewrite Permutation_app_comm; reflexivity].
      eapply concat_upd_rm; [exact Hqk|]. apply remove_first_perm. exact Hq'.
    - intros j0. unfold catb, z0, cnode, cdb. destruct (j =? j0); lia.
  Qed.

  Lemma hb_send_individual j i fl : B0 (i :: fl) fl (send_individualW cf j i).
  Proof. unfold send_individualW. hb using (apply hb_accept). Qed.
  Lemma B_up_exit K L fl i c (m : M unit) : presK K m -> calmN m -> hoB p K L (i :: fl) fl z0 (up (m ;;; exit_accept i c)).
  Proof. intros Hp Hc. eapply hoB_eq; [intros s; apply up_bind_eq|]. apply B_bind_pres; [exact Hp|exact Hc|intros _; apply B_exit_accept]. Qed.
  Lemma hb_release_individual j i fl : B0 (i :: fl) fl (release_individualW cf j i).
  Proof. unfold release_individualW. hb using first [apply hb_send_individual | (apply B_up_exit; [solve [pka]|solve [cna]])]. Qed.
End BWalk2.

Lemma wbind_inv {X Y} (m : W X) (f : X -> W Y) s b s' cs : wbind m f s = Ok (b, s', cs) ->
  exists a s1 c1 c2, m s = Ok (a, s1, c1) /\ f a s1 = Ok (b, s', c2) /\ cs = c1 ++ c2.
Proof.
  unfold wbind. destruct (m s) as [[[a s1] c1]| |]; try discriminate. destruct (f a s1) as [[[b1 s2] c2]| |] eqn:E; try discriminate.
  intros H. injection H as <- <- <-. exists a, s1, c1, c2. auto.
Qed.
Lemma up_inv {X} (m : M X) s a s1 c1 : up m s = Ok (a, s1, c1) -> m s = Ok (a, s1) /\ c1 = [].
Proof. unfold up. destruct (m s) as [[a0 s0]| |]; try discriminate. intros H. injection H as <- <- <-. auto. Qed.
Lemma frame_step {X} (m : M X) fl s a s1 : presK KT m -> calmN m -> WFx2 fl s -> NoInt s -> m s = Ok (a, s1) ->
  shp s1 = shp s /\ WFx2 fl s1 /\ NoInt s1 /\ forall i, bl s1 i = bl s i.
Proof.
  intros Hp Hc HW HN E. pose proof (Hp _ _ _ (WFx2_idx _ _ HW) I E) as E1. destruct (Hc _ _ _ HN E) as [N1 B1].
  split; [exact E1|]. split; [eapply WFx2_shape; eauto|]. auto.
Qed.

(* the candidates of an end-of-service or reneging event are not blocked, and those of an end of service are customers of the node *)
Definition NextUnbl (s : sim) : Prop :=
  forall j nd, nthZ (nodes s) (j - 1) = Some nd -> forall i, In i (n_next_inds nd) ->
    (n_next_type nd = 0 -> bl s i = Some false /\ In i (all_individuals nd)) /\ (n_next_type nd = 2 -> bl s i = Some false).

Section BWalk3.
  Variable cf : config.
  Variable p : bool -> bool.
  Hypothesis Hscope : scope_int cf = true.
  Notation B0 fl fl' m := (hoB p KT [] fl fl' z0 m).

  Lemma hb_batch_loop : forall n j c p0, B0 [] [] (batch_loopW cf n j c p0).
  Proof.
    induction n as [|n IH]; intros j c p0; cbn [batch_loopW]; [apply B_wret|].
    intros s a s' cs _ _ HW HN H.
    apply wbind_inv in H as (a1 & s1 & c1 & cs1 & E1 & H & ->). apply up_inv in E1 as [E1 ->].
    unfold modify in E1. injection E1 as <- <-.
    set (s1 := s <| arr := arr s <| a_created := a_created (arr s) + 1 |> |>) in *.
    apply wbind_inv in H as (i & s2 & c2 & cs2 & E2 & H & ->). apply up_inv in E2 as [E2 ->].
    unfold gets in E2. injection E2 as <- <-. change (a_created (arr s1)) with (a_created (arr s) + 1) in H.
    set (i := a_created (arr s) + 1) in *.
    apply wbind_inv in H as (a3 & s3 & c3 & cs3 & E3 & H & ->). apply up_inv in E3 as [E3 ->].
    destruct (1 <=? j); [|discriminate E3]. unfold ret in E3. injection E3 as _ <-.
    apply wbind_inv in H as (a4 & s4 & c4 & cs4 & E4 & H & ->). apply up_inv in E4 as [E4 ->].
    apply get_node_spec in E4 as (-> & _ & _).
    apply wbind_inv in H as (r & s5 & c5 & cs5 & E5 & H & ->). apply up_inv in E5 as [E5 ->].
    assert (HI1 : sh_idx (shp s1)) by (exact (WFx2_idx _ _ HW)).
    pose proof (pk_route_of cf i c s1 r s5 HI1 I E5) as Hs5.
    assert (HN1 : NoInt s1) by exact HN.
    destruct (cn_route_of cf i c s1 r s5 HN1 E5) as [N5 B5].
    apply wbind_inv in H as (a6 & s6 & c6 & cs6 & E6 & H & ->). apply up_inv in E6 as [E6 ->].
    unfold put_ind, modify in E6. injection E6 as <- <-.
    destruct (spawn_spec s s5 (new_ind i c p0 r) HW) as [W6 _]; [rewrite Hs5; reflexivity|reflexivity|].
    change (i_id (new_ind i c p0 r)) with i in W6.
    set (s6 := s5 <| inds := put_ind_l (new_ind i c p0 r) (inds s5) |>) in *.
    assert (T : hoB p KT [] [i] [] z0 (release_individualW cf j i ;;~ batch_loopW cf n j c p0))
      by (eapply B_bind_z; [apply hb_release_individual; exact Hscope|intros _; apply IH]).
    destruct (T s6 a s' cs6 I (fun i0 b0 (H0 : In (i0, b0) []) => match H0 with end) W6 N5 H) as (A & B & D).
    split; [exact A|]. split; [exact B|]. intros j0. cbn [app]. rewrite (D j0). f_equal.
    assert (En : nsh s6 = nsh s) by (apply (f_equal sh_ns) in Hs5; exact Hs5).
    apply (cntb_flags p s s6 En). intros i' k t Hk Hin.
    unfold bl, s6. cbn. rewrite find_put_l. change (i_id (new_ind i c p0 r)) with i.
    destruct (Z.eqb_spec i i') as [<-|Hne]; [|exact (B5 i')].
    exfalso. apply (WFsh_fresh _ HW). destruct HW as (_ & _ & _ & _ & HQ). eapply Permutation_in; [symmetry; exact HQ|].
    apply in_or_app. left. unfold qids. apply in_concat. exists (qof t). split; [|exact Hin].
    change (fun t0 : Z * Z * list (list Z) => concat (snd t0)) with qof. apply in_map. eapply nth_error_In. exact Hk.
  Qed.
  Lemma hb_arrival_have_event : B0 [] [] (arrival_have_eventW cf).
  Proof. unfold arrival_have_eventW. hb using (apply hb_batch_loop). Qed.

  (* one event of node j *)
  Lemma hb_node_have_event j s a s' cs : NextUnbl s -> WFx2 [] s -> NoInt s -> node_have_eventW cf j s = Ok (a, s', cs) ->
    WFx2 [] s' /\ NoInt s' /\ forall j0, cntb p s' j0 - netb p j0 cs = cntb p s j0.
  Proof.
    intros HX HW HN H. unfold node_have_eventW in H.
    apply wbind_inv in H as (nd & s1 & c1 & cs1 & E1 & H & ->). apply up_inv in E1 as [E1 ->].
    apply get_node_spec in E1 as (-> & Hj & Hnd). cbv zeta in H. cbn [app].
    assert (Fin : forall (m : W unit), hoB p KT [] [] [] z0 m -> m s = Ok (a, s', cs1) ->
                  WFx2 [] s' /\ NoInt s' /\ forall j0, cntb p s' j0 - netb p j0 cs1 = cntb p s j0).
    { intros m Hm E. destruct (Hm s a s' cs1 I (fun i0 b0 (H0 : In (i0, b0) []) => match H0 with end) HW HN E) as (A & B & D).
      split; [exact A|split; [exact B|]]. intros j0. rewrite (D j0). unfold z0. lia. }
    destruct (n_next_type nd =? 0) eqn:E0.
    { apply Z.eqb_eq in E0. unfold finish_serviceW in H.
      apply wbind_inv in H as (nd' & s2 & c2 & cs2 & E2 & H & ->). apply up_inv in E2 as [E2 ->].
      apply get_node_spec in E2 as (-> & _ & Hnd'). rewrite Hnd in Hnd'. injection Hnd' as <-.
      apply wbind_inv in H as (i & s3 & c3 & cs3 & E3 & H & ->). apply up_inv in E3 as [E3 ->]. cbn [app].
      pose proof (decide_between_In _ _ _ _ E3) as Hin.
      destruct (proj1 (HX j nd Hnd i Hin) E0) as [Hbl Hq].
      destruct (frame_step _ [] s i s3 (pk_decide_between _) (cn_decide_between _) HW HN E3) as (Es & W3 & N3 & B3).
      assert (HK : inq i j (shp s3)).
      { rewrite Es. exists (nshape nd). split; [cbn [shp sh_ns]; rewrite nthZ_map, Hnd; reflexivity|exact Hq]. }
      assert (HL : Lok [(i, false)] s3) by (intros i0 b0 [Hq0|[]]; injection Hq0 as <- <-; rewrite B3; exact Hbl).
      destruct (hb_fs_tail cf p j nd i [] s3 a s' cs3 HK HL W3 N3 H) as (A & B & D).
      split; [exact A|split; [exact B|]]. intros j0. rewrite (D j0). unfold z0.
      rewrite (cntb_frame p s s3 (f_equal sh_ns Es) B3). lia. }
    destruct (n_next_type nd =? 1) eqn:E1; [exact (Fin _ (hb_change_shift cf p Hscope j []) H)|].
    destruct (n_next_type nd =? 2) eqn:E2.
    { apply Z.eqb_eq in E2. unfold renegeW in H.
      apply wbind_inv in H as (t & s2 & c2 & cs2 & E2' & H & ->). apply up_inv in E2' as [E2' ->].
      unfold tnow, gets in E2'. injection E2' as <- <-.
      apply wbind_inv in H as (nd' & s2b & c2b & cs2b & E2b & H & ->). apply up_inv in E2b as [E2b ->].
      apply get_node_spec in E2b as (-> & _ & Hnd'). rewrite Hnd in Hnd'. injection Hnd' as <-.
      apply wbind_inv in H as (i & s3 & c3 & cs3 & E3 & H & ->). apply up_inv in E3 as [E3 ->]. cbn [app].
      pose proof (decide_between_In _ _ _ _ E3) as Hin.
      pose proof (proj2 (HX j nd Hnd i Hin) E2) as Hbl.
      destruct (frame_step _ [] s i s3 (pk_decide_between _) (cn_decide_between _) HW HN E3) as (Es & W3 & N3 & B3).
      assert (HL : Lok [(i, false)] s3) by (intros i0 b0 [Hq0|[]]; injection Hq0 as <- <-; rewrite B3; exact Hbl).
      destruct (hb_ren_tail cf p j (now s) i [] s3 a s' cs3 I HL W3 N3 H) as (A & B & D).
      split; [exact A|split; [exact B|]]. intros j0. rewrite (D j0). unfold z0.
      rewrite (cntb_frame p s s3 (f_equal sh_ns Es) B3). lia. }
    destruct (n_next_type nd =? 3) eqn:E3; [exact (Fin _ (hb_ccww cf p j []) H)|].
    destruct (n_next_type nd =? 4) eqn:E4; [exact (Fin _ (hb_slotted_service cf p Hscope j []) H)|].
    exact (Fin _ (B_wret p KT [] [] tt) H).
  Qed.

  (* one event *)
  Lemma hb_event_step s a s' cs : NextUnbl s -> WFx2 [] s -> NoInt s -> event_stepW cf s = Ok (a, s', cs) ->
    WFx2 [] s' /\ NoInt s' /\ forall j0, cntb p s' j0 - netb p j0 cs = cntb p s j0.
  Proof.
    intros HX HW HN H. unfold event_stepW in H.
    apply wbind_inv in H as (a1 & s1 & c1 & cs1 & E1 & H & ->). apply up_inv in E1 as [E1 ->].
    unfold modify in E1. injection E1 as <- <-. set (s1 := s <| log := [] |>) in *.
    apply wbind_inv in H as (k & s2 & c2 & cs2 & E2 & H & ->). apply up_inv in E2 as [E2 ->].
    unfold gets in E2. injection E2 as <- <-. cbn [app].
    apply wbind_inv in H as (a3 & s3 & c3 & cs3 & E3 & H & ->).
    assert (M3 : WFx2 [] s3 /\ NoInt s3 /\ forall j0, cntb p s3 j0 - netb p j0 c3 = cntb p s j0).
    { change (next_active s1) with (next_active s) in *. destruct (next_active s =? 0).
      - destruct (hb_arrival_have_event s1 a3 s3 c3 I (fun i0 b0 (H0 : In (i0, b0) []) => match H0 with end) HW HN E3) as (A & B & D).
        split; [exact A|split; [exact B|]]. intros j0. rewrite (D j0). unfold z0. change (cntb p s1 j0) with (cntb p s j0). lia.
      - exact (hb_node_have_event (next_active s) s1 a3 s3 c3 HX HW HN E3). }
    destruct M3 as (W3 & N3 & D3).
    apply up_inv in H as [H ->]. rewrite app_nil_r.
    assert (Hp : presK KT (ns <- gets nodes ;; update_all cf (map n_id ns) ;;; find_next_active_node)) by pka.
    assert (Hc : calmN (ns <- gets nodes ;; update_all cf (map n_id ns) ;;; find_next_active_node)) by cna.
    destruct (frame_step _ [] s3 a s' Hp Hc W3 N3 H) as (Es & W4 & N4 & B4).
    split; [exact W4|split; [exact N4|]]. intros j0. rewrite (cntb_frame p s3 s' (f_equal sh_ns Es) B4). apply D3.
  Qed.
End BWalk3.

(* ---------- from the counts to the NaiveBlocking tracker ---------- *)
Definition rows2 (m : list (list Z)) : Prop := Forall (fun r : list Z => length r = 2%nat) m.
Definition T2 (j : Z) (cs : list call) (row : list Z) : list Z := [nth 0 row 0 + netb negb j cs; nth 1 row 0 + netb (fun b => b) j cs].
Lemma tk_nthZ_In {X} (l : list X) k a : nthZ l k = Some a -> In a l.
Proof. intros H. destruct (nthZ_nat _ _ _ H) as (n & _ & Hn). eapply nth_error_In; eauto. Qed.
Lemma rows2_nth m k row : rows2 m -> nthZ m k = Some row -> exists a b, row = [a; b].
Proof.
  intros Hr Hk. unfold rows2 in Hr. rewrite Forall_forall in Hr. specialize (Hr _ (tk_nthZ_In _ _ _ Hk)).
  destruct row as [|a [|b [|? ?]]]; try discriminate. eauto.
Qed.
Lemma rows2_updZ m k a b : rows2 m -> rows2 (updZ m k [a; b]).
Proof. intros H. unfold rows2, updZ. destruct (k <? 0); [exact H|]. apply Forall_upd; [exact H|reflexivity]. Qed.
Lemma upd2_spec m k a b a' b' : nthZ m k = Some [a; b] -> rows2 m ->
  length (updZ m k [a'; b']) = length m /\ rows2 (updZ m k [a'; b']) /\
  forall k', nthZ (updZ m k [a'; b']) k' = if k =? k' then Some [a'; b'] else nthZ m k'.
Proof.
  intros Hk Hr. split; [apply tk_updZ_length|]. split; [apply rows2_updZ; exact Hr|]. intros k'.
  destruct (Z.eqb_spec k k') as [<-|Hne]; [apply (tk_nthZ_updZ_eq _ _ _ _ Hk)|apply tk_nthZ_updZ_neq; lia].
Qed.
Lemma inc2_col0 m k a b d : nthZ m k = Some [a; b] -> inc2 m k 0 d = Some (updZ m k [a + d; b]).
Proof. intros H. unfold inc2. rewrite H. reflexivity. Qed.
Lemma inc2_col1 m k a b d : nthZ m k = Some [a; b] -> inc2 m k 1 d = Some (updZ m k [a; b + d]).
Proof. intros H. unfold inc2. rewrite H. reflexivity. Qed.
Lemma tk_upd_upd {X} (l : list X) k x y : upd (upd l k x) k y = upd l k y.
Proof. revert k; induction l as [|a l IH]; intros [|k]; cbn; try reflexivity. f_equal. apply IH. Qed.
Lemma tk_updZ_updZ {X} (l : list X) k x y : updZ (updZ l k x) k y = updZ l k y.
Proof. unfold updZ. destruct (k <? 0); [reflexivity|apply tk_upd_upd]. Qed.
Lemma nb_step_spec m c : rows2 m -> 1 <= cnode c <= Z.of_nat (length m) ->
  exists m1, nb_step m c = Some m1 /\ length m1 = length m /\ rows2 m1 /\
    forall j, nthZ m1 (j - 1) = option_map (T2 j [c]) (nthZ m (j - 1)).
Proof.
  intros Hr Hc. destruct (tk_nthZ_some m (cnode c - 1)) as [row Hrow]; [lia|].
  destruct (rows2_nth _ _ _ Hr Hrow) as (a & b & ->).
  assert (Hoth : forall j, cnode c <> j -> nthZ m (j - 1) = option_map (T2 j [c]) (nthZ m (j - 1))).
  { intros j Hne. destruct (nthZ m (j - 1)) as [r|] eqn:Er; [|reflexivity]. destruct (rows2_nth _ _ _ Hr Er) as (a0 & b0 & ->).
    cbn [option_map]. unfold T2, netb, catb. cbn [map zsum fold_right nth]. destruct (Z.eqb_spec (cnode c) j); [contradiction|]. do 2 f_equal; [lia|f_equal; lia]. }
  assert (Hfin : forall a' b', a' = a + cdb negb c -> b' = b + cdb (fun x => x) c ->
            forall j, nthZ (updZ m (cnode c - 1) [a'; b']) (j - 1) = option_map (T2 j [c]) (nthZ m (j - 1))).
  { intros a' b' Ha Hb j. destruct (upd2_spec m (cnode c - 1) a b a' b' Hrow Hr) as (_ & _ & N). rewrite N.
    destruct (Z.eqb_spec (cnode c - 1) (j - 1)) as [E|Hne].
    - assert (E' : cnode c = j) by lia. rewrite <- E', Hrow. cbn [option_map]. unfold T2, netb, catb. cbn [map zsum fold_right nth].
      rewrite Z.eqb_refl. do 2 f_equal; [lia|f_equal; lia].
    - apply Hoth. lia. }
  destruct c as [j0 c0|j0 d0 i0 pc|j0 d0 i0 pc bb|j0 pc c0]; cbn [cnode] in *.
  - exists (updZ m (j0 - 1) [a + 1; b]). cbn [nb_step]. rewrite (inc2_col0 _ _ a b 1 Hrow).
    destruct (upd2_spec m (j0 - 1) a b (a + 1) b Hrow Hr) as (L1 & R1 & _).
    split; [reflexivity|]. split; [exact L1|]. split; [exact R1|]. apply Hfin; cbn; lia.
  - exists (updZ m (j0 - 1) [a + -1; b + 1]). cbn [nb_step]. rewrite (inc2_col1 _ _ a b 1 Hrow).
    rewrite (inc2_col0 _ _ a (b + 1) (-1) (tk_nthZ_updZ_eq _ _ _ _ Hrow)), tk_updZ_updZ.
    destruct (upd2_spec m (j0 - 1) a b (a + -1) (b + 1) Hrow Hr) as (L2 & R2 & _).
    split; [reflexivity|]. split; [exact L2|]. split; [exact R2|]. apply Hfin; cbn; lia.
  - destruct bb.
    + exists (updZ m (j0 - 1) [a; b + -1]). cbn [nb_step]. rewrite (inc2_col1 _ _ a b (-1) Hrow).
      destruct (upd2_spec m (j0 - 1) a b a (b + -1) Hrow Hr) as (L1 & R1 & _).
      split; [reflexivity|]. split; [exact L1|]. split; [exact R1|]. apply Hfin; cbn; lia.
    + exists (updZ m (j0 - 1) [a + -1; b]). cbn [nb_step]. rewrite (inc2_col0 _ _ a b (-1) Hrow).
      destruct (upd2_spec m (j0 - 1) a b (a + -1) b Hrow Hr) as (L1 & R1 & _).
      split; [reflexivity|]. split; [exact L1|]. split; [exact R1|]. apply Hfin; cbn; lia.
  - exists m. split; [reflexivity|]. split; [reflexivity|]. split; [exact Hr|]. intros j.
    destruct (Z.eq_dec j0 j) as [<-|Hne]; [|apply Hoth; exact Hne].
    rewrite Hrow. cbn [option_map]. unfold T2, netb, catb. cbn [map zsum fold_right nth cnode cdb]. destruct (j0 =? j0); do 2 f_equal; try lia; f_equal; lia.
Qed.

Lemma T2_nil j row a b : row = [a; b] -> T2 j [] row = row.
Proof. intros ->. unfold T2, netb. cbn. do 2 f_equal; [lia|f_equal; lia]. Qed.
Lemma T2_cons j c r row : T2 j (c :: r) row = T2 j r (T2 j [c] row).
Proof. unfold T2, netb, zsum. cbn [map fold_right nth]. f_equal; [lia|f_equal; lia]. Qed.
Lemma nb_run : forall cs m, rows2 m -> Forall (fun c => 1 <= cnode c <= Z.of_nat (length m)) cs ->
  exists m', orun nb_step cs m = Some m' /\ length m' = length m /\ rows2 m' /\
             forall j, nthZ m' (j - 1) = option_map (T2 j cs) (nthZ m (j - 1)).
Proof.
  induction cs as [|c r IH]; intros m Hr Hc.
  - exists m. split; [reflexivity|]. split; [reflexivity|]. split; [exact Hr|]. intros j.
    destruct (nthZ m (j - 1)) as [row|] eqn:E; [|reflexivity]. destruct (rows2_nth _ _ _ Hr E) as (a & b & Hab).
    cbn [option_map]. rewrite (T2_nil j row a b Hab). reflexivity.
  - inversion Hc as [|? ? Hc1 Hc2]. destruct (nb_step_spec m c Hr Hc1) as (m1 & E1 & L1 & R1 & N1).
    destruct (IH m1 R1) as (m' & E2 & L2 & R2 & N2); [rewrite L1; exact Hc2|].
    exists m'. cbn [orun]. rewrite E1. split; [exact E2|]. split; [congruence|]. split; [exact R2|].
    intros j. rewrite N2, N1. destruct (nthZ m (j - 1)); cbn [option_map]; [rewrite (T2_cons j c r); reflexivity|reflexivity].
Qed.
Lemma nb_true_nth s j : nthZ (nb_true s) (j - 1) = option_map (fun _ : node => [cntb negb s j; cntb (fun b => b) s j]) (nthZ (nodes s) (j - 1)).
Proof.
  unfold nb_true, cntb, nsh. rewrite !nthZ_map. destruct (nthZ (nodes s) (j - 1)); reflexivity.
Qed.
Lemma nb_track cs s s' n : length (nodes s) = n -> length (nodes s') = n -> Forall (fun c => 1 <= cnode c <= Z.of_nat n) cs ->
  (forall j, cntb negb s' j - netb negb j cs = cntb negb s j) ->
  (forall j, cntb (fun b => b) s' j - netb (fun b => b) j cs = cntb (fun b => b) s j) ->
  orun nb_step cs (nb_true s) = Some (nb_true s').
Proof.
  intros L L' Hc D1 D2.
  assert (R0 : rows2 (nb_true s)).
  { unfold rows2, nb_true. apply Forall_forall. intros r Hr. apply in_map_iff in Hr as (nd & <- & _). reflexivity. }
  destruct (nb_run cs (nb_true s) R0) as (m' & E & Lm & Rm & N); [unfold nb_true at 1; rewrite map_length, L; exact Hc|].
  rewrite E. f_equal. unfold nb_true in Lm. rewrite map_length in Lm.
  apply list_ext_nth; [unfold nb_true; rewrite map_length; congruence|].
  intros k row Hk. rewrite <- nthZ_of_nat in Hk. replace (Z.of_nat k) with ((Z.of_nat k + 1) - 1) in Hk by lia.
  rewrite N, nb_true_nth in Hk. rewrite <- nthZ_of_nat. replace (Z.of_nat k) with ((Z.of_nat k + 1) - 1) by lia. rewrite nb_true_nth.
  destruct (nthZ (nodes s) (Z.of_nat k + 1 - 1)) as [nd|] eqn:End; [|discriminate]. cbn [option_map] in Hk. injection Hk as <-.
  destruct (tk_nthZ_some (nodes s') (Z.of_nat k + 1 - 1)) as [nd' End']; [apply tk_nthZ_range in End; lia|].
  rewrite End'. cbn [option_map]. f_equal. unfold T2. cbn [nth].
  specialize (D1 (Z.of_nat k + 1)). specialize (D2 (Z.of_nat k + 1)). f_equal; [lia|f_equal; lia].
Qed.

(* ---------- T2 for C17, NaiveBlocking, stage 2.  Scope: schedules / capacitated slots are non-pre-emptive or `reroute`
   (scope_int: excludes F-02b).  Invariants: conservation (Conserve2.WFx2) and NoInt, both preserved.  The hypothesis NextUnbl
   (the candidates of an end of service / a reneging are not blocked, and the former are customers of the node) is what
   excludes F-02a and F-02c; it is NOT shown to be preserved here (hence _partial): it is the stage-2 analogue of the
   NextOk clause of stage 1's Blocking.Who. ---------- *)
Theorem event_step_naive_blocking2_partial cf s s' : scope_int cf = true -> WFx2 [] s -> NoInt s -> NextUnbl s ->
  event_step cf s = Ok (tt, s') ->
  WFx2 [] s' /\ NoInt s' /\ orun nb_step (calls_event_step cf s) (nb_true s) = Some (nb_true s').
Proof.
  intros Hsc HW HN HX H. pose proof (event_stepW_ok cf s s' H) as HE.
  destruct (hb_event_step cf negb Hsc s tt s' _ HX HW HN HE) as (W1 & N1 & D1).
  destruct (hb_event_step cf (fun b => b) Hsc s tt s' _ HX HW HN HE) as (_ & _ & D2).
  destruct (hw_event_step cf (length (nsh s)) s tt s' _ (WFx2_Idx _ _ HW) eq_refl I HE) as (_ & B & C & _).
  split; [exact W1|]. split; [exact N1|].
  unfold nsh in B, C. rewrite !map_length in B. rewrite map_length in C. eapply nb_track; [reflexivity|exact B|exact C|exact D1|exact D2].
Qed.

(* the hypothesis along a run: it holds before every event *)
Fixpoint NextUnbl_run (cf : config) (s : sim) (ds : list draws) : Prop :=
  match ds with
  | [] => True
  | d :: r => NextUnbl (s <| dr := d |>) /\ match event_step cf (s <| dr := d |>) with Ok (_, s1) => NextUnbl_run cf s1 r | _ => True end
  end.
Theorem run_many_naive_blocking2_partial cf : scope_int cf = true -> forall ds s s', WFx2 [] s -> NoInt s -> NextUnbl_run cf s ds ->
  run_many cf s ds = Ok s' ->
  WFx2 [] s' /\ NoInt s' /\ orun nb_step (calls_many cf s ds) (nb_true s) = Some (nb_true s').
Proof.
  intros Hsc. induction ds as [|d r IH]; intros s s' HW HN HX H; cbn [run_many calls_many NextUnbl_run] in *.
  - injection H as <-. auto.
  - destruct HX as [HX0 HXr]. destruct (event_step cf (s <| dr := d |>)) as [[[] s1]| |] eqn:E; try discriminate.
    assert (HW0 : WFx2 [] (s <| dr := d |>)) by (eapply WFx2_shape; [|exact HW]; reflexivity).
    destruct (event_step_naive_blocking2_partial cf _ _ Hsc HW0 HN HX0 E) as (W1 & N1 & T1).
    destruct (IH _ _ W1 N1 HXr H) as (W2 & N2 & T2'). split; [exact W2|]. split; [exact N2|].
    rewrite orun_app. change (nb_true (s <| dr := d |>)) with (nb_true s) in T1. rewrite T1. exact T2'.
Qed.
Theorem naive_blocking_never_negative2 s : Forall (Forall (fun z => 0 <= z)) (nb_true s).
Proof.
  unfold nb_true. apply Forall_forall. intros r Hr. apply in_map_iff in Hr as (nd & <- & _).
  repeat constructor; unfold zlen; lia.
Qed.

(* executable tests *)
Definition noint2_b (s : sim) : bool := forallb (fun nd => n_nint nd <=? 0) (nodes s).
Definition nextunbl_b (s : sim) : bool :=
  forallb (fun nd => forallb (fun i =>
     (negb (n_next_type nd =? 0) || (pb negb (bl s i) && memZ i (all_individuals nd))) &&
     (negb (n_next_type nd =? 2) || pb negb (bl s i))) (n_next_inds nd)) (nodes s).
Theorem noint2_b_sound s : noint2_b s = true -> NoInt s.
Proof. unfold noint2_b, NoInt. rewrite forallb_forall, Forall_forall. intros H nd Hnd. apply Z.leb_le. apply H. exact Hnd. Qed.
Lemma pb_negb_spec o : pb negb o = true -> o = Some false.
Proof. destruct o as [[|]|]; cbn; intros H; try discriminate; reflexivity. Qed.
Theorem nextunbl_b_sound s : nextunbl_b s = true -> NextUnbl s.
Proof.
  unfold nextunbl_b. rewrite forallb_forall. intros H j nd Hnd i Hi.
  specialize (H nd (tk_nthZ_In _ _ _ Hnd)). rewrite forallb_forall in H. specialize (H i Hi).
  apply andb_true_iff in H as [H0 H2]. split.
  - intros E0. rewrite E0 in H0. cbn in H0. apply andb_true_iff in H0 as [Ha Hb]. split; [apply pb_negb_spec; exact Ha|apply memZ_In; exact Hb].
  - intros E2. rewrite E2 in H2. cbn in H2. apply pb_negb_spec. exact H2.
Qed.
Fixpoint nextunbl_run_b (cf : config) (s : sim) (ds : list draws) : bool :=
  match ds with
  | [] => true
  | d :: r => nextunbl_b (s <| dr := d |>) && match event_step cf (s <| dr := d |>) with Ok (_, s1) => nextunbl_run_b cf s1 r | _ => true end
  end.
Theorem nextunbl_run_b_sound cf : forall ds s, nextunbl_run_b cf s ds = true -> NextUnbl_run cf s ds.
Proof.
  induction ds as [|d r IH]; intros s H; cbn [nextunbl_run_b NextUnbl_run] in *; [exact I|].
  apply andb_true_iff in H as [H1 H2]. split; [apply nextunbl_b_sound; exact H1|].
  destruct (event_step cf (s <| dr := d |>)) as [[u s1]| |]; [apply IH; exact H2|exact I|exact I].
Qed.

(* ---------- what survives in the regions of F-02a / F-02b, for EVERY configuration: the row sums of NaiveBlocking and of
   NodeClassMatrix are the node populations (the drift is a mis-attribution between blocked / unblocked, or between classes) ---------- *)
Lemma tk_updZ_same {X} (l : list X) k a : nthZ l k = Some a -> updZ l k a = l.
Proof. unfold nthZ, updZ. destruct (k <? 0); [discriminate|]. apply upd_same. Qed.
Lemma inc2_zsum m k c d m' : inc2 m k c d = Some m' -> inc1 (map zsum m) k d = Some (map zsum m').
Proof.
  unfold inc2. destruct (nthZ m k) as [row|] eqn:E; [|discriminate]. destruct (inc1 row c d) as [row'|] eqn:E1; [|discriminate].
  intros H. injection H as <-. unfold inc1 at 1. rewrite nthZ_map, E. cbn [option_map]. rewrite tk_updZ_map, (inc1_zsum _ _ _ _ E1). reflexivity.
Qed.
Lemma inc1_back v k d v1 v2 : inc1 v k d = Some v1 -> inc1 v1 k (- d) = Some v2 -> v2 = v.
Proof.
  unfold inc1. destruct (nthZ v k) as [a|] eqn:E; [|discriminate]. intros H. injection H as <-.
  rewrite (tk_nthZ_updZ_eq _ _ _ _ E). intros H. injection H as <-. rewrite tk_updZ_updZ.
  replace (a + d + - d) with a by lia. apply tk_updZ_same. exact E.
Qed.
Lemma nb_rowsim m c m' : nb_step m c = Some m' -> np_step (map zsum m) c = Some (map zsum m').
Proof.
  destruct c as [j c0|j d0 i0 pc|j d0 i0 pc bb|j pc c0]; cbn [nb_step np_step]; intros H.
  - exact (inc2_zsum _ _ _ _ _ H).
  - destruct (inc2 m (j - 1) 1 1) as [m1|] eqn:E1; [|discriminate]. f_equal. symmetry.
    exact (inc1_back _ _ _ _ _ (inc2_zsum _ _ _ _ _ E1) (inc2_zsum _ _ _ _ _ H)).
  - destruct bb; exact (inc2_zsum _ _ _ _ _ H).
  - injection H as <-. reflexivity.
Qed.
Lemma cm_rowsim m c m' : cm_step m c = Some m' -> np_step (map zsum m) c = Some (map zsum m').
Proof.
  destruct c as [j c0|j d0 i0 pc|j d0 i0 pc bb|j pc c0]; cbn [cm_step np_step]; intros H.
  - exact (inc2_zsum _ _ _ _ _ H).
  - injection H as <-. reflexivity.
  - exact (inc2_zsum _ _ _ _ _ H).
  - destruct (inc2 m (j - 1) pc (-1)) as [m1|] eqn:E1; [|discriminate]. f_equal. symmetry.
    apply (inc1_back _ _ (-1) _ _ (inc2_zsum _ _ _ _ _ E1)). exact (inc2_zsum _ _ _ _ _ H).
Qed.
Theorem run_many_rowsums2 cf ds s s' m0 : Idx s -> run_many cf s ds = Ok s' -> map zsum m0 = np_true s ->
  (forall m', orun nb_step (calls_many cf s ds) m0 = Some m' -> map zsum m' = np_true s') /\
  (forall m', orun cm_step (calls_many cf s ds) m0 = Some m' -> map zsum m' = np_true s').
Proof.
  intros HI H E0. destruct (run_many_trackers2 cf ds s s' HI H) as [_ [_ T]]. rewrite <- E0 in T. split; intros m' Hm.
  - pose proof (orun_map nb_step np_step (map zsum) nb_rowsim _ _ _ Hm) as T'. congruence.
  - pose proof (orun_map cm_step np_step (map zsum) cm_rowsim _ _ _ Hm) as T'. congruence.
Qed.

(* ---------- NodePopulationSubset and GroupedNodePopulation (update functions and proofs verbatim from TrackerInc.v): they are
   functions of NodePopulation, so they hold for every configuration as well ---------- *)
Lemma memZ_app x a b : memZ x (a ++ b) = memZ x a || memZ x b.
Proof. induction a as [|y a IH]; cbn; [reflexivity|]. rewrite IH, orb_assoc. reflexivity. Qed.
Lemma memZ_false x l : memZ x l = false -> ~ In x l.
Proof. intros H Hin. apply memZ_In in Hin. congruence. Qed.
(* ---------- NodePopulationSubset(observed_nodes): state[observed_nodes.index(id - 1)] += 1 / -= 1 when id - 1 is observed ---------- *)
Fixpoint indexN (x : Z) (l : list Z) : nat := match l with [] => O | y :: r => if x =? y then O else S (indexN x r) end.
Definition popz (pops : list Z) (o : Z) : Z := match nthZ pops o with Some a => a | None => 0 end.
Definition sub_step (obs : list Z) (v : list Z) (c : call) : option (list Z) :=
  match c with
  | Acc j _ => if memZ (j - 1) obs then inc1 v (Z.of_nat (indexN (j - 1) obs)) 1 else Some v
  | Rel j _ _ _ _ => if memZ (j - 1) obs then inc1 v (Z.of_nat (indexN (j - 1) obs)) (-1) else Some v
  | _ => Some v
  end.
Definition sub_of (obs : list Z) (pops : list Z) : list Z := map (popz pops) obs.
Definition sub_true (obs : list Z) (s : sim) : list Z := sub_of obs (np_true s).

Lemma popz_inc pops k d pops' : inc1 pops k d = Some pops' ->
  popz pops' k = popz pops k + d /\ forall o, o <> k -> popz pops' o = popz pops o.
Proof.
  unfold inc1. destruct (nthZ pops k) as [a|] eqn:E; [|discriminate]. intros H. injection H as <-. unfold popz. split.
  - rewrite (tk_nthZ_updZ_eq _ _ _ _ E), E. reflexivity.
  - intros o Ho. rewrite tk_nthZ_updZ_neq by exact Ho. reflexivity.
Qed.
Lemma nth_indexN k obs : In k obs -> nth_error obs (indexN k obs) = Some k.
Proof.
  induction obs as [|y r IH]; intros H; [destruct H|]. cbn [indexN]. destruct (Z.eqb_spec k y) as [->|Hne]; [reflexivity|].
  destruct H as [H|H]; [congruence|]. cbn. apply IH. exact H.
Qed.
Lemma map_change_nodup (f f' : Z -> Z) obs k : NoDup obs -> In k obs -> (forall o, o <> k -> f' o = f o) ->
  map f' obs = upd (map f obs) (indexN k obs) (f' k).
Proof.
  induction obs as [|y r IH]; intros Hnd Hin Ho; [destruct Hin|]. inversion Hnd as [|? ? Hn Hd]; subst.
  cbn [indexN map]. destruct (Z.eqb_spec k y) as [->|Hne].
  - cbn [upd]. f_equal. apply map_ext_in. intros o Hoin. apply Ho. intros ->. exact (Hn Hoin).
  - destruct Hin as [Hin|Hin]; [congruence|]. cbn [upd]. rewrite (Ho y) by congruence. f_equal. apply IH; assumption.
Qed.
Lemma sub_core obs pops k d pops' : NoDup obs -> inc1 pops k d = Some pops' ->
  (if memZ k obs then inc1 (sub_of obs pops) (Z.of_nat (indexN k obs)) d else Some (sub_of obs pops)) = Some (sub_of obs pops').
Proof.
  intros Hnd H. destruct (popz_inc _ _ _ _ H) as [P1 P2]. unfold sub_of. destruct (memZ k obs) eqn:Em.
  - apply memZ_In in Em. unfold inc1. rewrite nthZ_of_nat, nth_error_map, (nth_indexN _ _ Em). cbn [option_map].
    rewrite updZ_nat. f_equal. rewrite <- P1. symmetry. apply map_change_nodup; assumption.
  - f_equal. apply map_ext_in. intros o Ho. symmetry. apply P2. intros ->. exact (memZ_false _ _ Em Ho).
Qed.
Lemma sub_sim obs pops c pops' : NoDup obs -> np_step pops c = Some pops' -> sub_step obs (sub_of obs pops) c = Some (sub_of obs pops').
Proof.
  intros Hnd. destruct c; cbn [np_step sub_step]; intros H; try (injection H as <-; reflexivity); apply sub_core; assumption.
Qed.


(* ---------- GroupedNodePopulation(groups): state[first group containing id - 1] += 1 / -= 1 when id - 1 is in some group ---------- *)
Fixpoint gidxN (x : Z) (gs : list (list Z)) : nat := match gs with [] => O | g :: r => if memZ x g then O else S (gidxN x r) end.
Definition grp_step (gs : list (list Z)) (v : list Z) (c : call) : option (list Z) :=
  match c with
  | Acc j _ => if memZ (j - 1) (concat gs) then inc1 v (Z.of_nat (gidxN (j - 1) gs)) 1 else Some v
  | Rel j _ _ _ _ => if memZ (j - 1) (concat gs) then inc1 v (Z.of_nat (gidxN (j - 1) gs)) (-1) else Some v
  | _ => Some v
  end.
Definition grp_of (gs : list (list Z)) (pops : list Z) : list Z := map (fun g => zsum (map (popz pops) g)) gs.
Definition grp_true (gs : list (list Z)) (s : sim) : list Z := grp_of gs (np_true s).

Lemma zsum_change (f f' : Z -> Z) g k d : NoDup g -> In k g -> f' k = f k + d -> (forall o, o <> k -> f' o = f o) ->
  zsum (map f' g) = zsum (map f g) + d.
Proof.
  induction g as [|y r IH]; intros Hnd Hin Hk Ho; [destruct Hin|]. inversion Hnd as [|? ? Hn Hd]; subst.
  cbn [map]. rewrite !zsum_cons. destruct (Z.eq_dec y k) as [->|Hne].
  - rewrite Hk. assert (E : map f' r = map f r) by (apply map_ext_in; intros o Hoin; apply Ho; intros ->; exact (Hn Hoin)).
    rewrite E. lia.
  - destruct Hin as [Hin|Hin]; [congruence|]. rewrite (Ho y Hne), (IH Hd Hin Hk Ho). lia.
Qed.
Lemma inc1_cons_0 h t d : inc1 (h :: t) (Z.of_nat 0) d = Some ((h + d) :: t).
Proof. reflexivity. Qed.
Lemma inc1_cons_S h t n d : inc1 (h :: t) (Z.of_nat (S n)) d = option_map (cons h) (inc1 t (Z.of_nat n) d).
Proof. unfold inc1. rewrite !nthZ_of_nat. cbn [nth_error]. destruct (nth_error t n); [|reflexivity]. rewrite !updZ_nat. reflexivity. Qed.
Lemma grp_core (f f' : Z -> Z) k d : f' k = f k + d -> (forall o, o <> k -> f' o = f o) ->
  forall gs, NoDup (concat gs) ->
  (if memZ k (concat gs) then inc1 (map (fun g => zsum (map f g)) gs) (Z.of_nat (gidxN k gs)) d
   else Some (map (fun g => zsum (map f g)) gs)) = Some (map (fun g => zsum (map f' g)) gs).
Proof.
  intros Hk Ho. induction gs as [|g r IH]; intros Hnd; [reflexivity|].
  cbn [concat] in *. rewrite memZ_app. cbn [gidxN map].
  pose proof (NoDup_app_left _ _ Hnd) as Hg. pose proof (tk_NoDup_app_r _ _ Hnd) as Hr.
  destruct (memZ k g) eqn:Em.
  - cbn [orb]. apply memZ_In in Em. rewrite inc1_cons_0. f_equal. f_equal.
    + symmetry. apply (zsum_change f f' g k d); assumption.
    + apply map_ext_in. intros g' Hg'. f_equal. apply map_ext_in. intros o Hoin. symmetry. apply Ho. intros ->.
      assert (Hc : In k (concat r)) by (apply in_concat; eauto).
      clear -Hnd Em Hc. induction g as [|y g IHg]; [destruct Em|]. cbn in Hnd. inversion Hnd as [|? ? Hn Hd]; subst.
      destruct Em as [->|Em]; [apply Hn, in_or_app; auto|auto].
  - cbn [orb]. assert (E0 : zsum (map f' g) = zsum (map f g)).
    { f_equal. apply map_ext_in. intros o Hoin. apply Ho. intros ->. exact (memZ_false _ _ Em Hoin). }
    rewrite E0. specialize (IH Hr). destruct (memZ k (concat r)).
    + rewrite inc1_cons_S, IH. reflexivity.
    + injection IH as <-. reflexivity.
Qed.
Lemma grp_sim gs pops c pops' : NoDup (concat gs) -> np_step pops c = Some pops' -> grp_step gs (grp_of gs pops) c = Some (grp_of gs pops').
Proof.
  intros Hnd. destruct c; cbn [np_step grp_step]; intros H; try (injection H as <-; reflexivity);
    destruct (popz_inc _ _ _ _ H) as [P1 P2]; apply (grp_core (popz pops) (popz pops')); assumption.
Qed.
Theorem run_many_subset_grouped2 cf ds s s' : Idx s -> run_many cf s ds = Ok s' ->
  (forall obs, NoDup obs -> orun (sub_step obs) (calls_many cf s ds) (sub_true obs s) = Some (sub_true obs s')) /\
  (forall gs, NoDup (concat gs) -> orun (grp_step gs) (calls_many cf s ds) (grp_true gs s) = Some (grp_true gs s')).
Proof.
  intros HI H. destruct (run_many_trackers2 cf ds s s' HI H) as [_ [_ T]]. split.
  - intros obs Hnd. exact (orun_map np_step (sub_step obs) (sub_of obs) (fun a c a' => sub_sim obs a c a' Hnd) _ _ _ T).
  - intros gs Hnd. exact (orun_map np_step (grp_step gs) (grp_of gs) (fun a c a' => grp_sim gs a c a' Hnd) _ _ _ T).
Qed.

(* ====================================================================================================================
   6. Examples and refutations
   ==================================================================================================================== *)
(* Two nodes, two classes (class 0 has priority over class 1).  Node 1: one server, class 1 customers renege after 3 ticks and
   leave the system; class 0 goes on to node 2, class 1 too.  Node 2: one server, priority pre-emption with the `reroute`
   option; class 0 leaves from node 2, class 1 is routed (and rerouted) back to node 1. *)
Definition tk_cf : config :=
  mkCfg 2
    [ mkNcfg None None 0 SFixed 0 true [false; true] 0;
      mkNcfg None None 0 SFixed 4 false [false; false] 0 ]
    [0; 1] 2 None
    [ RtNR [RDirect 2; RLeave]; RtNR [RJockey 2 (-1); RDirect 1] ]
    [ [None; None]; [None; None] ] false [ [false; false]; [false; false] ].
Definition tk_srv : server := mkServer 1 None false None 0 None 0 false 0 None.
Definition tk_node (j : Z) : node :=
  mkNode j 0 0 [[]; []] [tk_srv] [] 0 None [] (Some 1) 1 [] 0 [] [] [] 0 None 0 None None.
Definition tk_s0 : sim :=
  mkSim 1 0 (mkArr 0 0 [[Some 12; Some 1]; [None; None]] 1 1 (Some 1)) [tk_node 1; tk_node 2] [] 0 0 []
        (mkDraws [] [] [] [] [] []) [] [[0; 0]; [0; 0]].
(* the draws offered to each event: inter-arrival 7, batch 1, service 10, uniform 0, patience 3 *)
Definition tk_d : draws := mkDraws [7] [1] [10; 10] [0; 0] [3; 3] [].
Definition tk_after (k : nat) : sim := match run_many tk_cf tk_s0 (repeat tk_d k) with Ok s => s | _ => tk_s0 end.

Example tk_initial : idx2_b tk_s0 = true.
Proof. vm_compute. reflexivity. Qed.
(* the calls of the first 16 events: customer 4 reneges at node 1 (Rel 1 0 4 ..); in the last but one event customer 3 (class 0)
   leaves node 1 for node 2 and pre-empts customer 2 there, who is rerouted to node 1: Rel 1 2 3, Rel 2 1 2, Acc 1, Acc 2 *)
Example tk_calls16 :
  calls_many tk_cf tk_s0 (repeat tk_d 16) =
  [Acc 1 1; Acc 1 1; Rel 1 2 1 1 false; Acc 2 1; Acc 1 0; Acc 1 1; Rel 1 0 4 1 false; Acc 1 0; Rel 1 2 2 1 false; Acc 2 1;
   Rel 2 1 1 1 false; Acc 1 1; Acc 1 1; Rel 1 0 1 1 false; Rel 1 0 6 1 false; Acc 1 0; Acc 1 1; Rel 1 2 3 0 false;
   Rel 2 1 2 1 false; Acc 1 1; Acc 2 0; Rel 1 0 8 1 false].
Proof. vm_compute. reflexivity. Qed.
(* folded over these calls the trackers give the true state, computed from the queues *)
Example tk_fold16 :
  exists s', run_many tk_cf tk_s0 (repeat tk_d 16) = Ok s' /\
    map n_queues (nodes s') = [[[5; 7]; [2]]; [[3]; []]] /\ exit_ids s' = [4; 1; 6; 8] /\
    orun np_step (calls_many tk_cf tk_s0 (repeat tk_d 16)) (np_true tk_s0) = Some [3; 1] /\ np_true s' = [3; 1] /\
    orun sys_step (calls_many tk_cf tk_s0 (repeat tk_d 16)) (sys_true tk_s0) = Some 4 /\ sys_true s' = 4.
Proof. eexists. split; [vm_compute; reflexivity|]. vm_compute. repeat split; reflexivity. Qed.
(* the same by the theorem, for 40 events *)
Example tk_run40 : exists s', run_many tk_cf tk_s0 (repeat tk_d 40) = Ok s' /\ Tracked1 (calls_many tk_cf tk_s0 (repeat tk_d 40)) tk_s0 s'.
Proof.
  destruct (run_many tk_cf tk_s0 (repeat tk_d 40)) as [s'| |] eqn:E; [|vm_compute in E; discriminate|vm_compute in E; discriminate].
  exists s'. split; [reflexivity|]. exact (proj2 (run_many_trackers2 tk_cf _ _ _ (idx2_b_sound _ tk_initial) E)).
Qed.

(* ---------- the trackers that look at the blocked flag / the classes drift in the regions of F-02a and F-02b ---------- *)
Definition x_srv (i : Z) : server := mkServer i None false None 0 None 0 false 0 None.
Definition x_node (j : Z) (nq : nat) (srv : list server) (c : Z) : node :=
  mkNode j 0 0 (repeat [] nq) srv [] 0 None [] (Some c) c [] 0 [] [] [] 0 None 0 None None.
Definition x_nd : draws := mkDraws [] [] [] [] [] [].

(* F-02b (the scenario of Blocking2.fifo_refuted_interrupted_blocked).  Node 1 has two servers until 10, then one, schedule
   pre-emption `resume`; node 2 has room for one customer.  Customers 3 and 2 are blocked at node 1 when the shift ends; both are
   interrupted; begin_interrupted_individuals_service resumes customer 2 on the new server and clears its is_blocked flag
   WITHOUT any call to the state tracker (Python: node.py, begin_interrupted_individuals_service, `ind.is_blocked = False`).
   NaiveBlocking now holds (0 unblocked, 2 blocked) for node 1, the truth is (1, 1); customer 2 finishes again, node 2 is
   still full, it is blocked a second time (change_state_block again): the tracker holds (-1, 3). *)
Definition r4_cf : config :=
  mkCfg 1
    [ mkNcfg None None 0 (SSched (mkSched [10; 20] [2; 1] 0 1)) 0 false [false] 0;
      mkNcfg (Some 1) None 0 SFixed 0 false [false] 0 ]
    [0] 1 None [ RtNR [RDirect 2; RLeave] ] [ [None; None] ] false [ [false] ].
Definition r4_n1 : node := mkNode 1 0 0 [[]] [] [] 0 (Some 0) [] (Some 0) 0 [] 0 [] [] [] 1 (Some 0) 0 None None.
Definition r4_s0 : sim :=
  mkSim 0 1 (mkArr 0 0 [[Some 1]; [None]] 1 0 (Some 1)) [r4_n1; x_node 2 1 [x_srv 1] 1] [] 0 0 [] x_nd [] [[0; 0]].
Definition r4_ds : list draws :=
  [ x_nd; mkDraws [1] [1] [1] [0;0] [] []; mkDraws [1] [1] [5] [0;0] [] []; mkDraws [] [] [100] [0;0] [] [];
    mkDraws [100] [1] [1] [0;0] [] []; mkDraws [] [] [] [0;0] [] []; mkDraws [] [] [] [0;0] [] []; x_nd; x_nd ].
Theorem naive_blocking_refuted_F02b :
  exists cf s0 ds s8 s9,
    wfx2_b s0 = true /\ nb_true s0 = [[0; 0]; [0; 0]] /\
    run_many cf s0 (firstn 8 ds) = Ok s8 /\ run_many cf s0 ds = Ok s9 /\
    (* after 8 events: a stale blocked count *)
    nb_true s8 = [[1; 1]; [1; 0]] /\ orun nb_step (calls_many cf s0 (firstn 8 ds)) (nb_true s0) = Some [[0; 2]; [1; 0]] /\
    (* after 9 events: a negative count *)
    nb_true s9 = [[0; 2]; [1; 0]] /\ orun nb_step (calls_many cf s0 ds) (nb_true s0) = Some [[-1; 3]; [1; 0]] /\
    (* SystemPopulation / NodePopulation are right all the same *)
    Tracked1 (calls_many cf s0 ds) s0 s9.
Proof.
  exists r4_cf, r4_s0, r4_ds.
  destruct (run_many r4_cf r4_s0 (firstn 8 r4_ds)) as [s8| |] eqn:E8; [|vm_compute in E8; discriminate|vm_compute in E8; discriminate].
  destruct (run_many r4_cf r4_s0 r4_ds) as [s9| |] eqn:E9; [|vm_compute in E9; discriminate|vm_compute in E9; discriminate].
  exists s8, s9. split; [vm_compute; reflexivity|]. split; [vm_compute; reflexivity|]. split; [reflexivity|]. split; [reflexivity|].
  assert (I0 : Idx r4_s0) by (apply idx2_b_sound; vm_compute; reflexivity).
  split; [|split; [|split; [|split; [|exact (proj2 (run_many_trackers2 r4_cf _ _ _ I0 E9))]]]].
  - vm_compute in E8. injection E8 as <-. vm_compute. reflexivity.
  - vm_compute. reflexivity.
  - vm_compute in E9. injection E9 as <-. vm_compute. reflexivity.
  - vm_compute. reflexivity.
Qed.

(* F-02a.  Two classes, class 0 has priority; node 1: one server, priority pre-emption `resume`; node 2 has room for one
   customer.  Customer 2 (class 1) is blocked at node 1; customer 3 (class 0) arrives and pre-empts it (decide_preempt looks at
   every customer with a server, blocked or not); when 3 leaves, 2 is served again, finishes again (in the past), node 2 is
   still full: block_individual a second time, change_state_block a second time: NaiveBlocking holds (-1, 2), the truth is (0, 1). *)
Definition a2_cf : config :=
  mkCfg 2
    [ mkNcfg None None 0 SFixed 1 false [false; false] 0;
      mkNcfg (Some 1) None 0 SFixed 0 false [false; false] 0 ]
    [0; 1] 2 None [ RtNR [RLeave; RLeave]; RtNR [RDirect 2; RLeave] ] [ [None; None]; [None; None] ] false [ [false; false]; [false; false] ].
Definition a2_s0 : sim :=
  mkSim 0 0 (mkArr 0 0 [[Some 6; Some 1]; [None; None]] 1 1 (Some 1)) [x_node 1 2 [x_srv 1] 1; x_node 2 2 [x_srv 1] 1] [] 0 0 [] x_nd [] [[0; 0]; [0; 0]].
Definition a2_ds : list draws :=
  [ mkDraws [2] [1] [1] [0;0] [] []; mkDraws [] [] [100] [0;0] [] []; mkDraws [100] [1] [1] [0;0] [] []; x_nd;
    mkDraws [100] [1] [2] [0;0] [] []; x_nd; x_nd ].
Theorem naive_blocking_refuted_F02a :
  exists cf s0 ds s7,
    wfx2_b s0 = true /\ nb_true s0 = [[0; 0]; [0; 0]] /\ run_many cf s0 ds = Ok s7 /\
    calls_many cf s0 ds = [Acc 1 1; Rel 1 2 1 1 false; Acc 2 1; Acc 1 1; Blk 1 2 2 1; Acc 1 0; Rel 1 0 3 0 false; Blk 1 2 2 1] /\
    nb_true s7 = [[0; 1]; [1; 0]] /\ orun nb_step (calls_many cf s0 ds) (nb_true s0) = Some [[-1; 2]; [1; 0]] /\
    Tracked1 (calls_many cf s0 ds) s0 s7.
Proof.
  exists a2_cf, a2_s0, a2_ds.
  destruct (run_many a2_cf a2_s0 a2_ds) as [s7| |] eqn:E7; [|vm_compute in E7; discriminate|vm_compute in E7; discriminate].
  exists s7. split; [vm_compute; reflexivity|]. split; [vm_compute; reflexivity|]. split; [reflexivity|]. split; [vm_compute; reflexivity|].
  assert (I0 : Idx a2_s0) by (apply idx2_b_sound; vm_compute; reflexivity).
  split; [|split; [|exact (proj2 (run_many_trackers2 a2_cf _ _ _ I0 E7))]].
  - vm_compute in E7. injection E7 as <-. vm_compute. reflexivity.
  - vm_compute. reflexivity.
Qed.

(* F-02a, NodeClassMatrix.  Three classes (0 has priority over 1 and 2); at node 1 a class 1 customer becomes class 2 when its
   service ends.  Customer 2 (class 1) finishes (previous_class 1, customer_class 2), is blocked, is pre-empted by customer 3,
   is served again and finishes again: change_customer_class overwrites previous_class with 2.  When node 2 lets it in,
   change_state_release subtracts at previous_class = 2, but the customer was added at class 1: node 1 is empty and the tracker
   holds (0, 1, -1) for it. *)
Definition a3_cf : config :=
  mkCfg 3
    [ mkNcfg None (Some [[8;0;0];[0;0;8];[0;0;8]]) 0 SFixed 1 false [false; false; false] 0;
      mkNcfg (Some 1) None 0 SFixed 0 false [false; false; false] 0 ]
    [0; 1; 1] 2 None [ RtNR [RLeave; RLeave]; RtNR [RDirect 2; RLeave]; RtNR [RDirect 2; RLeave] ]
    [ [None; None]; [None; None]; [None; None] ] false [ [false; false; false]; [false; false; false]; [false; false; false] ].
Definition a3_s0 : sim :=
  mkSim 0 0 (mkArr 0 0 [[Some 6; Some 1; None]; [None; None; None]] 1 1 (Some 1)) [x_node 1 2 [x_srv 1] 1; x_node 2 2 [x_srv 1] 1] [] 0 0 [] x_nd []
        [[0; 0]; [0; 0]; [0; 0]].
Definition a3_ds : list draws :=
  [ mkDraws [2] [1] [1] [0;0] [] []; mkDraws [] [] [100] [0;0] [] []; mkDraws [100] [1] [1] [0;0] [] []; mkDraws [] [] [] [0;0] [] [];
    mkDraws [100] [1] [2] [0;0] [] []; mkDraws [] [] [] [0;0] [] []; mkDraws [] [] [] [0;0] [] []; mkDraws [] [] [50] [0;0] [] [] ].
Theorem class_matrix_refuted_F02a :
  exists cf s0 ds s8,
    wfx2_b s0 = true /\ cm_true 3 s0 = [[0; 0; 0]; [0; 0; 0]] /\ run_many cf s0 ds = Ok s8 /\
    calls_many cf s0 ds = [Acc 1 1; Rel 1 2 1 1 false; Acc 2 2; Acc 1 1; Blk 1 2 2 1; Acc 1 0; Rel 1 0 3 0 false; Blk 1 2 2 2;
                           Rel 2 0 1 2 false; Rel 1 2 2 2 true; Acc 2 2] /\
    map all_individuals (nodes s8) = [[]; [2]] /\
    cm_true 3 s8 = [[0; 0; 0]; [0; 0; 1]] /\ orun cm_step (calls_many cf s0 ds) (cm_true 3 s0) = Some [[0; 1; -1]; [0; 0; 1]] /\
    Tracked1 (calls_many cf s0 ds) s0 s8.
Proof.
  exists a3_cf, a3_s0, a3_ds.
  destruct (run_many a3_cf a3_s0 a3_ds) as [s8| |] eqn:E8; [|vm_compute in E8; discriminate|vm_compute in E8; discriminate].
  exists s8. split; [vm_compute; reflexivity|]. split; [vm_compute; reflexivity|]. split; [reflexivity|]. split; [vm_compute; reflexivity|].
  assert (I0 : Idx a3_s0) by (apply idx2_b_sound; vm_compute; reflexivity).
  split; [|split; [|split; [|exact (proj2 (run_many_trackers2 a3_cf _ _ _ I0 E8))]]].
  - vm_compute in E8. injection E8 as <-. vm_compute. reflexivity.
  - vm_compute in E8. injection E8 as <-. vm_compute. reflexivity.
  - vm_compute. reflexivity.
Qed.

(* NaiveBlocking inside the scope: a tandem, node 2 has room for one customer (arrivals every 2 ticks, services of 3): customers
   are blocked at node 1 again and again; every hypothesis of the theorem is checked by computation along 30 events *)
Definition b2_cf : config :=
  mkCfg 1
    [ mkNcfg None None 0 SFixed 0 false [false] 0;
      mkNcfg (Some 1) None 0 SFixed 0 false [false] 0 ]
    [0] 1 None [ RtNR [RDirect 2; RLeave] ] [ [None; None] ] false [ [false] ].
Definition b2_s0 : sim :=
  mkSim 1 0 (mkArr 0 0 [[Some 1]; [None]] 1 0 (Some 1)) [x_node 1 1 [x_srv 1] 1; x_node 2 1 [x_srv 1] 1] [] 0 0 [] x_nd [] [[0; 0]].
Definition b2_d : draws := mkDraws [2] [1] [3; 3] [0; 0] [] [].
Example b2_hyps : scope_int b2_cf = true /\ wfx2_b b2_s0 = true /\ noint2_b b2_s0 = true /\ nextunbl_run_b b2_cf b2_s0 (repeat b2_d 30) = true.
Proof. vm_compute. repeat split; reflexivity. Qed.
Example b2_blocked6 : exists s6, run_many b2_cf b2_s0 (repeat b2_d 6) = Ok s6 /\ nb_true s6 = [[2; 1]; [1; 0]] /\
  calls_many b2_cf b2_s0 (repeat b2_d 6) = [Acc 1 0; Acc 1 0; Rel 1 2 1 0 false; Acc 2 0; Acc 1 0; Acc 1 0; Blk 1 2 2 0].
Proof. eexists. split; [vm_compute; reflexivity|]. vm_compute. split; reflexivity. Qed.
Example b2_run30 : exists s', run_many b2_cf b2_s0 (repeat b2_d 30) = Ok s' /\
  orun nb_step (calls_many b2_cf b2_s0 (repeat b2_d 30)) (nb_true b2_s0) = Some (nb_true s').
Proof.
  destruct (run_many b2_cf b2_s0 (repeat b2_d 30)) as [s'| |] eqn:E; [|vm_compute in E; discriminate|vm_compute in E; discriminate].
  exists s'. split; [reflexivity|]. destruct b2_hyps as (H1 & H2 & H3 & H4).
  exact (proj2 (proj2 (run_many_naive_blocking2_partial b2_cf H1 _ _ _ (wfx2_b_sound _ H2) (noint2_b_sound _ H3) (nextunbl_run_b_sound _ _ _ H4) E))).
Qed.
(* the two refutations above are outside: F-02b violates scope_int, F-02a violates NextUnbl before its last event *)
Example refutations_outside : scope_int r4_cf = false /\ scope_int a2_cf = true /\ nextunbl_run_b a2_cf a2_s0 a2_ds = false.
Proof. vm_compute. repeat split; reflexivity. Qed.

(* the first example (reneging, priority pre-emption `reroute`) is inside the scope as well: 40 events *)
Example tk_nb40 : exists s', run_many tk_cf tk_s0 (repeat tk_d 40) = Ok s' /\
  orun nb_step (calls_many tk_cf tk_s0 (repeat tk_d 40)) (nb_true tk_s0) = Some (nb_true s').
Proof.
  destruct (run_many tk_cf tk_s0 (repeat tk_d 40)) as [s'| |] eqn:E; [|vm_compute in E; discriminate|vm_compute in E; discriminate].
  exists s'. split; [reflexivity|].
  assert (H1 : scope_int tk_cf = true) by (vm_compute; reflexivity).
  assert (H2 : wfx2_b tk_s0 = true) by (vm_compute; reflexivity).
  assert (H3 : noint2_b tk_s0 = true) by (vm_compute; reflexivity).
  assert (H4 : nextunbl_run_b tk_cf tk_s0 (repeat tk_d 40) = true) by (vm_compute; reflexivity).
  exact (proj2 (proj2 (run_many_naive_blocking2_partial tk_cf H1 _ _ _ (wfx2_b_sound _ H2) (noint2_b_sound _ H3) (nextunbl_run_b_sound _ _ _ H4) E))).
Qed.

Print Assumptions er_event_step.
Print Assumptions event_step_trackers2.
Print Assumptions run_many_trackers2.
Print Assumptions never_negative2.
Print Assumptions idx2_b_sound.
Print Assumptions tk_fold16.
Print Assumptions tk_run40.
Print Assumptions naive_blocking_refuted_F02b.
Print Assumptions naive_blocking_refuted_F02a.
Print Assumptions class_matrix_refuted_F02a.
Print Assumptions event_step_naive_blocking2_partial.
Print Assumptions run_many_naive_blocking2_partial.
Print Assumptions nextunbl_run_b_sound.
Print Assumptions noint2_b_sound.
Print Assumptions b2_run30.
Print Assumptions refutations_outside.
Print Assumptions run_many_subset_grouped2.
Print Assumptions run_many_rowsums2.
Print Assumptions naive_blocking_never_negative2.
Print Assumptions tk_nb40.

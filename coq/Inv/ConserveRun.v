(* ConserveRun.v -- T2 for C01 over whole runs of the engine model, what the invariant means in the words of the property,
   and an executable test of the invariant (so that the hypothesis of the theorem can be evaluated on the real engine's
   initial snapshot by the correspondence check). *)
From Coq Require Import ZArith List Bool Lia Permutation.
From RecordUpdate Require Import RecordUpdate.
From CiwV Require Import Sx Prelude Routing.
From CiwV.Engine Require Import State Engine Codec.
From CiwV.Inv Require Import Frame Conserve.
Import ListNotations.
Open Scope Z_scope.

(* any number of events, each with its own draws (= any seed, any distributions, any tie-breaks) *)
Theorem run_many_conserves cf : forall ds s s', WFx [] s -> run_many cf s ds = Ok s' -> WFx [] s'.
Proof.
  induction ds as [|d r IH]; intros s s' HW H; cbn [run_many] in H; [inversion H; subst; exact HW|].
  destruct (event_step cf (s <| dr := d |>)) as [[u s1]| |] eqn:E; try discriminate. destruct u.
  eapply IH; [|exact H]. eapply event_step_conserves; [|exact E].
  eapply WFx_shape; [|exact HW]. reflexivity.
Qed.

(* the invariant in the words of C01 *)
Definition ids_of (s : sim) : list Z := concat (map all_individuals (nodes s)) ++ exit_ids s.
Theorem WFx_means s : WFx [] s ->
  (* every customer created so far is in exactly one place: a queue of exactly one service node, or the exit *)
  Permutation (ids_of s) (zseq 1 (Z.to_nat (a_created (arr s)))) /\ NoDup (ids_of s) /\
  (* every node's reported population is the number of customers actually there; likewise the exit *)
  (forall nd, In nd (nodes s) -> n_pop nd = zlen (all_individuals nd)) /\ exit_n s = zlen (exit_ids s) /\
  (* arrivals = customers in nodes + customers at the exit *)
  a_created (arr s) = zsum (map n_pop (nodes s)) + exit_n s.
Proof.
  intros (HI & (HC & HE) & H0 & HP). unfold shp in *. cbn [sh_ids sh_created] in *. rewrite app_nil_r in HP.
  assert (Eids : concat (map (fun t : Z * Z * list (list Z) => concat (snd t)) (map nshape (nodes s))) = concat (map all_individuals (nodes s))).
  { rewrite map_map. reflexivity. }
  rewrite Eids in HP. fold (ids_of s) in HP.
  assert (Hpop : forall nd, In nd (nodes s) -> n_pop nd = zlen (all_individuals nd)).
  { intros nd Hin. rewrite Forall_forall in HC. apply (HC (nshape nd)). apply in_map. exact Hin. }
  split; [exact HP|]. split; [eapply Permutation_NoDup; [symmetry; exact HP|apply zseq_NoDup]|].
  split; [exact Hpop|]. split; [exact HE|].
  assert (Hlen : zlen (ids_of s) = a_created (arr s)).
  { unfold zlen. rewrite (Permutation_length HP), zseq_length. lia. }
  unfold ids_of in Hlen. unfold zlen in Hlen. rewrite app_length, Nat2Z.inj_add in Hlen.
  fold (zlen (exit_ids s)) in Hlen. rewrite <- HE in Hlen. rewrite <- Hlen. f_equal.
  clear -Hpop. induction (nodes s) as [|nd r IH]; [reflexivity|].
  cbn [map concat]. rewrite app_length, Nat2Z.inj_add. unfold zsum in *. cbn [map fold_right].
  rewrite (Hpop nd (or_introl eq_refl)). unfold zlen. rewrite IH; [reflexivity|]. intros x Hx. apply Hpop. right. exact Hx.
Qed.

(* ---- an executable test of WFx [] ---- *)
Fixpoint idx_b (k : Z) (l : list node) : bool :=
  match l with [] => true | nd :: r => (n_id nd =? k) && idx_b (k + 1) r end.
Definition wfx_b (s : sim) : bool :=
  idx_b 1 (nodes s)
  && forallb (fun nd => n_pop nd =? zlen (all_individuals nd)) (nodes s)
  && (exit_n s =? zlen (exit_ids s))
  && (0 <=? a_created (arr s))
  && list_eqb (isort (ids_of s)) (zseq 1 (Z.to_nat (a_created (arr s)))).

Lemma idx_b_spec : forall l k0, idx_b k0 l = true -> forall k nd, nth_error l k = Some nd -> n_id nd = Z.of_nat k + k0.
Proof.
  induction l as [|x r IH]; intros k0 H k nd Hk; [destruct k; discriminate|].
  cbn in H. apply andb_true_iff in H as [H1 H2]. apply Z.eqb_eq in H1. destruct k as [|k]; cbn in Hk.
  - injection Hk as <-. lia.
  - specialize (IH _ H2 k nd Hk). lia.
Qed.

Theorem wfx_b_sound s : wfx_b s = true -> WFx [] s.
Proof.
  unfold wfx_b. intros H.
  apply andb_true_iff in H as [H H5]. apply andb_true_iff in H as [H H4]. apply andb_true_iff in H as [H H3].
  apply andb_true_iff in H as [H1 H2].
  apply Z.eqb_eq in H3. apply Z.leb_le in H4. apply list_eqb_eq in H5.
  unfold WFx, WFsh, shp. cbn [sh_idx sh_counts sh_created sh_ids].
  split; [|split; [|split]].
  - intros k t Hk. rewrite nth_error_map in Hk. destruct (nth_error (nodes s) k) as [nd|] eqn:E; [|discriminate].
    cbn in Hk. injection Hk as <-. cbn. rewrite (idx_b_spec _ _ H1 k nd E). lia.
  - split; [|exact H3]. rewrite Forall_forall. intros t Ht. apply in_map_iff in Ht. destruct Ht as [nd [<- Hin]].
    rewrite forallb_forall in H2. specialize (H2 _ Hin). apply Z.eqb_eq in H2. exact H2.
  - exact H4.
  - rewrite app_nil_r, map_map. change (concat (map (fun x => concat (snd (nshape x))) (nodes s)) ++ exit_ids s) with (ids_of s).
    rewrite <- H5. symmetry. apply isort_perm.
Qed.

(* L [state] -> A 1 when the snapshot satisfies the invariant, A 0 otherwise *)
Definition run_wfx (inp : sx) : sx :=
  match dec_sim inp (L [L []; L []; L []; L []]) with
  | Some st => A (if wfx_b st then 1 else 0)
  | None => A (-1)
  end.

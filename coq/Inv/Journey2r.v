(* Journey2r.v -- T2 for C03 (journey continuity) on the STAGE-2 engine model (Engine2.v), extended to the `reroute` option of
   PRIORITY PRE-EMPTION (nc_preempt = 4).  Journey2.v proves the journey invariant Jrn2 in a scope (Journey2.scope2) that excludes
   rerouting.  Here the victim of a pre-emption at a node with option `reroute` gets an interruption record WITH a destination d
   chosen by the routing object (type 1, r_dest = Some d: a CLOSING record of Journey2's vocabulary), leaves its queue and its
   server and is handed to Node.accept at d (or to the exit) by release(..., reroute=True): no service record, nobody is started
   on the freed server (the pre-emptor takes it afterwards), no blocked customer is released.  The record is written BEFORE the
   customer leaves its queue, so the journey invariant is false for one instant in the middle of `preempt`; the proof goes
   through a ghost state in which the two steps are exchanged (reroute_St).
   History h, ghost `an`, closing / cont / link / lastok / JH / Lq / NoInt / SrvInv / PickOK / Jrn2 / jrn2_b / run_hist are
   Journey2's (Required and Imported): THE INVARIANT IS THE SAME PROP Journey2.Jrn2, so Journey2.Jrn2_means (the six clauses
   of C03) and Journey2.jrn2_b_sound (executable test) apply unchanged (Jrn2r_means, jrn2r_b_sound).

   Main results, for every configuration in scope2r, every state satisfying Jrn2, every oracle of draws (no hypothesis on the
   draws) and any number of events (partial correctness: nothing is said about runs that return Err / OutOfFuel):
     event_step_jrn2r, run_hist_jrn2r, run_many_jrn2r, engine_journey2r, Jrn2r_means.

   Scope (scope2r cf = true, executable; scope2_scope2r: it contains Journey2.scope2):
     - per node, as Journey2.scope2 WITHOUT "nc_preempt <> 4": no pre-emptive Schedule, no pre-emptive capacitated slot, a
       slotted node has neither reneging nor priority pre-emption;
     - if some node has priority pre-emption (resume / restart / resample / REROUTE) then no node has a capacity and there are
       no class-change times (Journey2's clause; so nobody is ever blocked where a reroute option is present);
     - rt_ok: at a node j with option reroute, every destination d the class's NetworkRouting router of node j can name is
       written -1 (exit) or 1 <= d with node d configured, NOT slotted and itself WITHOUT reroute pre-emption (it may pre-empt
       by resume / restart / resample); with a ProcessBased / FlexibleProcessBased routing object no node has option reroute.
   Why rt_ok: a victim rerouted into its own node j (finding F-11a), or sent on by a chain of reroute nodes back to j, is
   accepted at j while the server it left is free and the pre-emptor still waits: the re-acceptance starts a waiting customer
   on that server, and preempt() then attaches the pre-emptor to the same server (started twice, or - with SIRO - a customer
   left with a server that does not hold it).  That breaks what the proof needs about servers (the pre-emptor must still be waiting
   when preempt() attaches it), not visibly the journey clauses: f11a_not_a_witness (the F-11a network of Order2.v) and
   reroute_cycle_not_a_witness (two reroute nodes routed into each other: the double start through a cycle) run such networks and
   the whole executable invariant jrn2_b still holds after the double start and afterwards.  Not refuted, scoped out.
   Part B (pre-emptive capacitated slots) is covered at FUNCTION LEVEL only (section 7): slotted_service_journey_partial -- a slot
   event of any table with sl_pre <> 4 keeps conservation + the journey invariant proper + the blocked-queue invariant from every
   state, no scope; jrn2_not_kept_by_preemptive_slot -- closed witness (Slot2's network) that Journey2's invariant Jrn2 itself is
   NOT kept by such a slot (its clause NoInt is false while an interrupted customer waits on the list; known region), which is
   why a run theorem needs a new invariant for the interrupted lists of slotted nodes (what exactly: section 7).

   Method: Journey2's walk, forked where the scope hypothesis is used (the proof text of accept / release / finish_service /
   renege / arrival is Journey2's, re-checked against the new scope); new: the router lemma next_node_for_rr, preempt_stay_St
   (Journey2's preempt_St), accept_St_gen (accept, parametric in what preempt guarantees), accept_keeps_Waits (from
   Preempt2r.accept_local: an accept at d <> j leaves a customer waiting at j alone), reroute_St, preempt_St (both options).
   Example: rx_* -- two nodes, priorities, reroute at node 1: customer 1 (low priority) in service at node 1 is pre-empted by
   customer 2, rerouted to node 2, served there and leaves; its records (interruption at 1 naming 2, service at 2) chain. *)
From Coq Require Import ZArith List Bool Lia Permutation.
From RecordUpdate Require Import RecordUpdate.
From CiwV Require Import Sx Prelude Routing Sched.
From CiwV.Engine Require Import State2 Engine2 Codec2.
From CiwV.Inv Require Conserve2 Preempt2 Preempt2r Order2 Journey2s Slot2.
From CiwV.Inv Require Import Journey2.
Import ListNotations.
Open Scope Z_scope.

Local Arguments Z.mul : simpl never.
Local Arguments Z.add : simpl never.
Local Arguments Z.sub : simpl never.
Local Arguments Z.ltb : simpl never.
Local Arguments Z.leb : simpl never.
Local Arguments Z.eqb : simpl never.
Local Arguments Z.to_nat : simpl never.
Local Arguments Z.of_nat : simpl never.
Local Arguments nth_error : simpl never.

(* ====================================================================================================================
   1. The scope
   ==================================================================================================================== *)
Definition scope_nc (nc : ncfg) : bool :=
  match nc_srv nc with
  | SFixed => true
  | SSched sc => sc_pre sc =? 0
  | SSlot sl => negb (sl_cap sl && negb (sl_pre sl =? 0)) && negb (nc_reneging nc) && (nc_preempt nc =? 0)
  end.
(* the raw destinations a node router can name (besides -1) *)
Definition rdests (r : nrouter) : list Z :=
  match r with
  | RDirect to => [to] | RJockey to _ => [to] | RLeave => [] | RProb ds _ => ds | RJsq _ ds _ => ds | RCycle cy => cy
  end.
(* a destination for a rerouted victim: the exit, or a configured, non-slotted node without reroute pre-emption of its own *)
Definition rr_ok (cf : config) (d : Z) : bool :=
  (d =? -1) || ((1 <=? d) && match nthZ (cf_nodes cf) (d - 1) with
                             | Some ncd => negb (nc_preempt ncd =? 4) && negb (nc_slotted ncd)
                             | None => false end).
Fixpoint rs_ok (cf : config) (ncs : list ncfg) (rs : list nrouter) : bool :=
  match ncs, rs with
  | nc :: ncs', r :: rs' => (if nc_preempt nc =? 4 then forallb (rr_ok cf) (rdests r) else true) && rs_ok cf ncs' rs'
  | _, _ => true
  end.
Definition reroutes (cf : config) : bool := existsb (fun nc => nc_preempt nc =? 4) (cf_nodes cf).
Definition rt_ok (cf : config) (rt : routing) : bool :=
  match rt with RtNR rs => rs_ok cf (cf_nodes cf) rs | _ => negb (reroutes cf) end.
Definition scope2r (cf : config) : bool :=
  forallb scope_nc (cf_nodes cf) && forallb (rt_ok cf) (cf_routing cf) &&
  (if preempts cf then forallb nocap (cf_nodes cf) && negb (cf_dyn cf) else true).
(* in the proof text taken over from Journey2.v the scope is called scope2 *)
Local Notation scope2 := scope2r (only parsing).

Lemma scope2_nc cf j nc : scope2 cf = true -> nthZ (cf_nodes cf) (j - 1) = Some nc -> scope_nc nc = true.
Proof.
  unfold scope2r. intros H Hn. apply andb_true_iff in H as [H _]. apply andb_true_iff in H as [H _].
  rewrite forallb_forall in H. apply H. eapply nthZ_In; eauto.
Qed.
Lemma scope2_pre cf : scope2 cf = true -> preempts cf = true ->
  (forall j nc, nthZ (cf_nodes cf) (j - 1) = Some nc -> nc_cap nc = None) /\ cf_dyn cf = false.
Proof.
  unfold scope2r. intros H Hp. rewrite Hp in H. apply andb_true_iff in H as [_ H]. apply andb_true_iff in H as [H1 H2]. apply negb_true_iff in H2.
  split; [|exact H2]. intros j nc Hn. rewrite forallb_forall in H1. specialize (H1 nc (nthZ_In _ _ _ Hn)). unfold nocap in H1. destruct (nc_cap nc); [discriminate|reflexivity].
Qed.
Lemma scope2_rt cf c rt : scope2 cf = true -> nthZ (cf_routing cf) c = Some rt -> rt_ok cf rt = true.
Proof.
  unfold scope2r. intros H Hn. apply andb_true_iff in H as [H _]. apply andb_true_iff in H as [_ H].
  rewrite forallb_forall in H. apply H. eapply nthZ_In; eauto.
Qed.

Lemma rs_ok_nth cf : forall ncs rs k nc r, rs_ok cf ncs rs = true -> nth_error ncs k = Some nc -> nth_error rs k = Some r ->
  nc_preempt nc = 4 -> forallb (rr_ok cf) (rdests r) = true.
Proof.
  induction ncs as [|nc0 ncs IH]; intros rs k nc r H Hn Hr H4; [destruct k; discriminate Hn|].
  destruct rs as [|r0 rs]; [destruct k; discriminate Hr|]. cbn [rs_ok] in H. apply andb_true_iff in H as [H1 H2].
  destruct k as [|k].
  - cbn in Hn, Hr. injection Hn as ->. injection Hr as ->. apply Z.eqb_eq in H4. rewrite H4 in H1. exact H1.
  - cbn in Hn, Hr. exact (IH rs k nc r H2 Hn Hr H4).
Qed.
Lemma rs_ok_none cf : forall ncs rs, (forall nc, In nc ncs -> (nc_preempt nc =? 4) = false) -> rs_ok cf ncs rs = true.
Proof.
  induction ncs as [|nc0 ncs IH]; intros rs H; [reflexivity|]. destruct rs as [|r0 rs]; [reflexivity|]. cbn [rs_ok].
  rewrite (H nc0 (or_introl eq_refl)). cbn. apply IH. intros nc Hin. apply H. right. exact Hin.
Qed.
(* Journey2's scope is contained *)
Lemma scope2_scope2r cf : Journey2.scope2 cf = true -> scope2r cf = true.
Proof.
  unfold Journey2.scope2, scope2r. intros H. apply andb_true_iff in H as [H1 H2]. rewrite H2, andb_true_r.
  rewrite forallb_forall in H1.
  assert (H4 : forall nc, In nc (cf_nodes cf) -> (nc_preempt nc =? 4) = false).
  { intros nc Hin. specialize (H1 nc Hin). unfold Journey2.scope_nc in H1. apply andb_true_iff in H1 as [H1 _]. apply negb_true_iff in H1. exact H1. }
  apply andb_true_iff. split.
  - apply forallb_forall. intros nc Hin. specialize (H1 nc Hin). unfold Journey2.scope_nc in H1. apply andb_true_iff in H1 as [_ H1]. exact H1.
  - apply forallb_forall. intros rt _. destruct rt as [rs| |]; cbn [rt_ok].
    + apply (rs_ok_none cf). exact H4.
    + apply negb_true_iff. unfold reroutes. destruct (existsb _ _) eqn:E; [|reflexivity]. apply existsb_exists in E as (nc & Hin & E). rewrite (H4 nc Hin) in E. discriminate E.
    + apply negb_true_iff. unfold reroutes. destruct (existsb _ _) eqn:E; [|reflexivity]. apply existsb_exists in E as (nc & Hin & E). rewrite (H4 nc Hin) in E. discriminate E.
Qed.

(* ====================================================================================================================
   2. What a node router can answer; the destination of a rerouted victim
   ==================================================================================================================== *)
Lemma jsq_loop_in lb : forall ds best acc s c s', jsq_loop lb ds best acc s = Ok (c, s') ->
  forall x, In x c -> In x acc \/ In x ds.
Proof.
  induction ds as [|d r IH]; intros best acc s c s' H x Hx; cbn [jsq_loop] in H.
  - apply ret_spec in H as [-> _]. left. exact Hx.
  - mstep H as nd. destruct (date_eqb _ best).
    + destruct (IH _ _ _ _ _ H x Hx) as [Hin|Hin]; [|right; right; exact Hin].
      apply in_app_or in Hin as [Hin|[<-|[]]]; [left; exact Hin|right; left; reflexivity].
    + destruct (date_lt _ best).
      * destruct (IH _ _ _ _ _ H x Hx) as [[<-|[]]|Hin]; [right; left; reflexivity|right; right; exact Hin].
      * destruct (IH _ _ _ _ _ H x Hx) as [Hin|Hin]; [left; exact Hin|right; right; exact Hin].
Qed.
Lemma jsq_next_in lb ds order s x s' : jsq_next lb ds order s = Ok (x, s') -> In x ds.
Proof.
  unfold jsq_next. intros H. mstep H as c.
  assert (Hc : forall y, In y c -> In y ds) by (intros y Hy; destruct (jsq_loop_in lb ds None [] s c s0 E y Hy) as [[]|Hin]; exact Hin).
  destruct order.
  - apply lift_spec in H as [_ H]. destruct c as [|c0 cr]; [discriminate H|]. injection H as <-. apply Hc. left. reflexivity.
  - apply choice_uniform_spec in H as (Hin & _). apply Hc. exact Hin.
Qed.
Lemma node_router_next_in r c j s raw s' : node_router_next r c j s = Ok (raw, s') -> raw = -1 \/ In raw (rdests r).
Proof.
  destruct r as [to| |ds ps|lb ds order|cy|to jk]; cbn [node_router_next rdests]; intros H.
  - apply ret_spec in H as [-> _]. right. left. reflexivity.
  - apply ret_spec in H as [-> _]. left. reflexivity.
  - mstep H as k. apply lift_spec in H as [_ H]. apply nth_error_In in H. apply in_app_or in H as [H|[<-|[]]]; [right; exact H|left; reflexivity].
  - right. eapply jsq_next_in; eauto.
  - mstep H as p. mstep H as u0. mstep H as u1. apply lift_spec in H as [_ H]. right. eapply nth_error_In; eauto.
  - apply ret_spec in H as [-> _]. right. left. reflexivity.
Qed.
Lemma rr_ok_exit cf : rr_ok cf (-1) = true.
Proof. unfold rr_ok. rewrite Z.eqb_refl. reflexivity. Qed.
Lemma valid_dest_rr cf raw s d s' : rr_ok cf raw = true -> valid_dest raw s = Ok (d, s') -> rr_ok cf d = true /\ s' = s.
Proof.
  intros Hr H. unfold valid_dest in H. mstep H as n.
  destruct ((1 <=? raw) && (raw <=? Z.of_nat (length (nodes s)))); [apply ret_spec in H as [-> ->]; auto|].
  destruct ((raw =? -1) || (raw =? Z.of_nat (length (nodes s)) + 1)); [apply ret_spec in H as [-> ->]; split; [apply rr_ok_exit|reflexivity]|].
  destruct ((- (Z.of_nat (length (nodes s)) + 1) <=? raw) && (raw <=? -2)) eqn:E3; [|discriminate H].
  exfalso. apply andb_true_iff in E3 as [_ E3]. apply Z.leb_le in E3. unfold rr_ok in Hr. apply orb_true_iff in Hr as [Hr|Hr].
  - apply Z.eqb_eq in Hr. lia.
  - apply andb_true_iff in Hr as [Hr _]. apply Z.leb_le in Hr. lia.
Qed.
Lemma reroutes_at cf j nc : nthZ (cf_nodes cf) (j - 1) = Some nc -> nc_preempt nc = 4 -> reroutes cf = true.
Proof. intros Hn H4. unfold reroutes. apply existsb_exists. exists nc. split; [eapply nthZ_In; eauto|]. apply Z.eqb_eq. exact H4. Qed.

(* the destination named for a victim rerouted from node j *)
Lemma next_node_for_rr cf j v s d s' nc : scope2 cf = true -> nthZ (cf_nodes cf) (j - 1) = Some nc -> nc_preempt nc = 4 ->
  next_node_for cf 1 j v s = Ok (d, s') -> rr_ok cf d = true.
Proof.
  intros Hsc Hnc H4 H. unfold next_node_for in H. mstep H as x. mstep H as rt. pose proof (scope2_rt cf _ rt Hsc Hl) as Hrt.
  mstep H as raw. destruct rt as [rs|rts|rts al ch]; cbn [rt_ok] in Hrt.
  - mstep E as r. change (1 =? 2) with false in E. cbv iota in E.
    destruct (Conserve2.nthZ_nat _ _ _ Hnc) as (k & Hk & Hnk). destruct (Conserve2.nthZ_nat _ _ _ Hl0) as (k' & Hk' & Hrk).
    assert (k' = k) by lia. subst k'.
    pose proof (rs_ok_nth cf _ _ k nc r Hrt Hnk Hrk H4) as Hall. rewrite forallb_forall in Hall.
    apply node_router_next_in in E as [->|Hin].
    + eapply valid_dest_rr; [apply rr_ok_exit|exact H].
    + eapply valid_dest_rr; [exact (Hall raw Hin)|exact H].
  - exfalso. rewrite (reroutes_at cf j nc Hnc H4) in Hrt. discriminate Hrt.
  - exfalso. rewrite (reroutes_at cf j nc Hnc H4) in Hrt. discriminate Hrt.
Qed.
(* it is not node j itself *)
Lemma rr_ok_other cf j nc d : nthZ (cf_nodes cf) (j - 1) = Some nc -> nc_preempt nc = 4 -> rr_ok cf d = true -> d <> j.
Proof.
  intros Hnc H4 Hr ->. unfold rr_ok in Hr. rewrite Hnc in Hr. apply orb_true_iff in Hr as [Hr|Hr].
  - apply Z.eqb_eq in Hr. destruct (Conserve2.nthZ_nat _ _ _ Hnc) as (k & Hk & _). lia.
  - apply andb_true_iff in Hr as [_ Hr]. apply andb_true_iff in Hr as [Hr _]. apply negb_true_iff in Hr. apply Z.eqb_neq in Hr. contradiction.
Qed.

(* ====================================================================================================================
   3. Journey2's lemmas that depend on the scope, re-checked against scope2r (proof text of Journey2.v)
   ==================================================================================================================== *)
Section FrameJr.
  Variable cf : config.
  Notation PJ m := (keepJ KT m).
  Notation PN m := (keepJ NoIntV m).

  Lemma kj_change_shift j : scope2 cf = true -> PN (change_shift cf j).
  Proof.
    intros Hsc. unfold change_shift. unfold ncfg_of. apply kv_lift_bind. intros nc Hnc.
    pose proof (scope2_nc _ _ _ Hsc Hnc) as Hs. unfold scope_nc in Hs.
    destruct (nc_srv nc) as [|sc|sl]; try apply kv_fail. apply Z.eqb_eq in Hs. rewrite Hs.
    kv using first [(apply kv_T; apply kj_take_off_duty0) | (apply kv_T; apply kj_add_new_servers) | (eapply kv_weak; [apply kj_bsip_change_shift|kconj]) | kjb].
  Qed.
  Lemma kj_slotted_service j : scope2 cf = true -> PN (slotted_service cf j).
  Proof.
    intros Hsc. unfold slotted_service. unfold ncfg_of. apply kv_lift_bind. intros nc Hnc.
    pose proof (scope2_nc _ _ _ Hsc Hnc) as Hs. unfold scope_nc in Hs.
    destruct (nc_srv nc) as [|sc|sl]; try apply kv_fail. apply andb_true_iff in Hs as [Hs _]. apply andb_true_iff in Hs as [Hs _]. apply negb_true_iff in Hs. rewrite Hs.
    kv using first [(eapply kv_weak; [apply kj_slot_loop|kconj]) | kjb].
  Qed.
End FrameJr.

Section SrvWalkR.
  Variable cf : config.
  Local Notation srv_take_off_duty0 := (Journey2.srv_take_off_duty0 cf).
  Local Notation srv_forM_serve := (Journey2.srv_forM_serve cf).
  Local Notation srv_slot_loop := (Journey2.srv_slot_loop cf).

  Lemma srv_change_shift fl j s s' : scope2 cf = true -> Ctx fl s -> SrvInv cf fl s -> change_shift cf j s = Ok (tt, s') ->
    Ctx fl s' /\ SrvInv cf fl s' /\ VJ s' = VJ s /\ (forall i, Outside s i -> NoOwner cf i s -> NoOwner cf i s').
  Proof.
    intros Hsc HC HS H. unfold change_shift in H. mstep H as nc.
    pose proof (scope2_nc _ _ _ Hsc Hc) as Hs. unfold scope_nc in Hs.
    destruct (nc_srv nc) as [|sc|sl] eqn:Esrv; try discriminate H. apply Z.eqb_eq in Hs.
    assert (Hsch : sched_of cf j = true) by (unfold sched_of; rewrite Hc, Esrv; reflexivity).
    mstep H as nd. mstep H as u0.
    assert (s0 = s) by (destruct (sc_b sc); [discriminate E|apply ret_spec in E as [_ ->]; reflexivity]). subst s0. clear E.
    mstep H as u1. rename s0 into s1.
    match type of E with put_node ?n _ = _ => set (nd' := n) in * end.
    assert (Hnn : nodeZ s (n_id nd') = Some nd) by (change (n_id nd') with (n_id nd); rewrite (Ctx_Idx _ _ HC _ _ Hn); exact Hn).
    pose proof (sn_sch _ _ _ (si_n _ _ _ HS j nd Hn) Hsch) as Hinf.
    destruct (carry_put_node cf fl s s1 tt nd nd' Hnn eq_refl) as (HC1 & HS1 & ES1 & EJ1); [|exact HC|exact HS|exact E|].
    { unfold fnS. change (n_servers nd') with (n_servers nd). change (n_highest nd') with (n_highest nd). rewrite Hinf. reflexivity. }
    clear E. mstep H as fl0. mstep H as u2. rewrite Hs in E.
    destruct (srv_take_off_duty0 fl _ j s1 s0 HC1 HS1 E) as (HC2 & HS2 & EJ2 & HO2). clear E.
    mstep H as u3.
    match type of E with add_new_servers ?k _ _ = _ =>
      destruct (srv_add_new_servers cf fl k j s0 s2 (Ctx_Idx _ _ HC2) HS2) as (HS3 & HO3 & _); [|exact E|] end.
    { intros n Hnn2. exact (sn_sch _ _ _ (si_n _ _ _ HS2 j n Hnn2) Hsch). }
    destruct (carryJ fl _ s0 _ s2 (kv_T _ _ _ _ _ (kj_add_new_servers _ j)) HC2 E) as (HC3 & EJ3). clear E.
    unfold begin_service_if_possible_change_shift in H. mstep H as nd2.
    destruct (srv_forM_serve fl j _ s2 s' HC3 HS3 H) as (HC4 & HS4 & EJ4 & HO4).
    assert (EJ : VJ s2 = VJ s) by congruence.
    split; [exact HC4|]. split; [exact HS4|]. split; [congruence|]. intros i Hout HN. apply HO4; [eapply Outside_VJ; eauto|].
    apply HO3, HO2. exact (NoOwner_VS cf i s s1 ES1 HN).
  Qed.

  Lemma srv_slotted_service fl j s s' : scope2 cf = true -> Ctx fl s -> SrvInv cf fl s -> slotted_service cf j s = Ok (tt, s') ->
    Ctx fl s' /\ SrvInv cf fl s' /\ VJ s' = VJ s /\ (forall i, NoOwner cf i s -> NoOwner cf i s').
  Proof.
    intros Hsc HC HS H. unfold slotted_service in H. mstep H as nc.
    pose proof (scope2_nc _ _ _ Hsc Hc) as Hs. unfold scope_nc in Hs.
    destruct (nc_srv nc) as [|sc|sl] eqn:Esrv; try discriminate H. apply andb_true_iff in Hs as [Hs _]. apply andb_true_iff in Hs as [Hs _]. apply negb_true_iff in Hs.
    assert (Hsl : slot_of cf j = true) by (unfold slot_of, nc_slotted; rewrite Hc, Esrv; reflexivity).
    mstep H as nd. mstep H as u0.
    assert (s0 = s) by (destruct (sl_b sl); [discriminate E|apply ret_spec in E as [_ ->]; reflexivity]). subst s0. clear E.
    rewrite Hs in H. mstep H as u1. mstep H as u2.
    destruct (srv_slot_loop fl j Hsl _ s s0 HC HS E) as (HC1 & HS1 & EJ1 & HO1).
    match type of H with ?m _ = _ => destruct (carryB cf fl m s0 _ s' ltac:(kv using kb_lem) HC1 HS1 H) as (HC2 & HS2 & ES2 & EJ2) end.
    split; [exact HC2|]. split; [exact HS2|]. split; [congruence|]. intros i HN. apply (NoOwner_VS cf i s0 s' ES2). apply HO1, HN.
  Qed.
End SrvWalkR.

(* ====================================================================================================================
   4. The walk, in scope2r
   ==================================================================================================================== *)
(* Journey2's mstep with the name of the new state given *)
Ltac mstepN H a s1 :=
  match type of H with
  | bind ?m ?f ?s = Ok _ =>
    let E := fresh "E" in
    unfold bind in H at 1; destruct (m s) as [[a s1]| |] eqn:E; [|discriminate H|discriminate H];
    lazymatch m with
    | ret _ => apply ret_spec in E as [-> ->]
    | gets _ => apply gets_spec in E as [-> ->]
    | tnow => apply gets_spec in E as [-> ->]
    | lift _ _ => let Hl := fresh "Hl" in apply lift_spec in E as [-> Hl]
    | get_node _ => let Hn := fresh "Hn" in apply get_node_spec in E as [-> Hn]
    | get_ind _ => let Hf := fresh "Hf" in apply get_ind_spec in E as [-> Hf]
    | ncfg_of _ _ => let Hc := fresh "Hc" in apply ncfg_of_spec in E as [-> Hc]
    | _ => try (match type of a with unit => destruct a end)
    end
  end.
Lemma Waits_other s s' j c : at_node s' j c -> find_ind c (inds s') = find_ind c (inds s) -> Waits s j c -> Waits s' j c.
Proof. intros Hat Hf (_ & x & Hx & Hs). split; [exact Hat|]. exists x. rewrite Hf. auto. Qed.
Lemma Waits_put_other s s' j c x' : nodes s' = nodes s -> inds s' = put_ind_l x' (inds s) -> i_id x' <> c -> Waits s j c -> Waits s' j c.
Proof.
  intros En Ei Hne HW. apply (Waits_other s s' j c); [|rewrite Ei, find_put_other by congruence; reflexivity|exact HW].
  apply (at_node_nodes s s'); [exact En|exact (proj1 HW)].
Qed.
Lemma Waits_VJS s s' j c : VJ s' = VJ s -> VS s' = VS s -> Waits s j c -> Waits s' j c.
Proof.
  intros EJ ES (Hat & x & Hx & Hs). split; [exact (VJ_at s' s j c (eq_sym EJ) Hat)|].
  destruct (rec_VJS s s' c x EJ ES Hx) as (x' & Hx' & _ & PS). exists x'. split; [exact Hx'|]. unfold fiS in PS. injection PS as PS _ _. congruence.
Qed.

Section WalkR.
  Variable cf : config.
  Variable an : Z -> option Z.
  Variable h : list rec.             (* the history before the current event *)
  Hypothesis Hsc : scope2 cf = true.
  Local Notation St := (Journey2.St cf an h).
  Local Notation St_Ctx := (Journey2.St_Ctx cf an h).
  Local Notation St_VJS := (Journey2.St_VJS cf an h).
  Local Notation St_of := (Journey2.St_of cf an h).
  Local Notation St_carryB := (Journey2.St_carryB cf an h).
  Local Notation exit_accept_St := (Journey2.exit_accept_St cf an h).
  Local Notation leave_queue := (Journey2.leave_queue cf an h).
  Local Notation St_requeue := (Journey2.St_requeue cf an h).
  Local Notation ccww_St := (Journey2.ccww_St cf an h).
  Local Notation preempt_victim_same := (Journey2.preempt_victim_same cf).
  Local Notation preempt_victim_spec := (Journey2.preempt_victim_spec cf).
  Local Notation wint_spec := (Journey2.wint_spec cf).
  Local Notation wir_spec := (Journey2.wir_spec cf).
  Local Notation set_next_end_post := (Journey2.set_next_end_post cf).
  Local Notation route_of_same := (Journey2.route_of_same cf).
  Local Notation Jst_log_inplace := (Journey2.Jst_log_inplace an h).
  Local Notation Jst_put_same := (Journey2.Jst_put_same an h).

  Lemma unblocked_NoEntry s i y : Lq s -> find_ind i (inds s) = Some y -> i_blocked y = false -> NoEntry s i.
  Proof. intros HL Hf Hb d fr He. destruct (l_ent _ HL d fr i He) as (x & Hx & _ & Hbx). congruence. Qed.

  (* ---------- priority pre-emption without rerouting: the victim stays in its node (Journey2.preempt_St) ---------- *)
  Lemma preempt_stay_St f j v c s s' : St [] s -> Waits s j c ->
    (exists nd sv, nodeZ s j = Some nd /\ In sv (n_servers nd) /\ sv_cust sv = Some v) -> slot_of cf j = false -> preempts cf = true ->
    (forall nc, nthZ (cf_nodes cf) (j - 1) = Some nc -> (nc_preempt nc =? 4) = false) ->
    preempt cf (S f) j v c s = Ok (tt, s') -> St [] s'.
  Proof.
    intros [HJ HS] HW (ndv & svv & Hnv & Hsvv & Hcv) Hslot Hp Hn4 H. rewrite preempt_S in H. unfold preempt_body in H.
    mstep H as t0. mstep H as vx. mstep H as nc.
    pose proof (Hn4 nc Hc) as Hs. rewrite Hs in H.
    (* the victim is in node j, served by the server that names it *)
    destruct (si_own _ _ _ HS j ndv svv v Hnv Hslot Hsvv Hcv) as (x0 & Hx0 & Hsrv & Hnode & _). assert (x0 = vx) by congruence. subst x0. clear Hx0.
    assert (Hatv : at_node s j v).
    { destruct (WFx2_rec_place _ _ _ _ (proj1 HJ) Hf) as [[k Hk]|[]]. destruct (j_node _ _ _ (proj1 (proj2 HJ)) k v Hk) as (x0 & Hx0 & Gk & _).
      assert (x0 = vx) by congruence. subst x0. assert (k = j) by congruence. subst k. exact Hk. }
    assert (Hvc : v <> c) by (intros ->; destruct HW as (_ & xc & Hxc & Hxs); congruence).
    pose proof (find_ind_id _ _ _ Hf) as Hidv.
    (* original service time remembered *)
    mstep H as u0. match type of E with put_ind ?x' _ = _ => set (v1 := x') in * end.
    destruct (carry_put_ind cf [] s s0 tt vx v1 ltac:(change (i_id v1) with (i_id vx); rewrite Hidv; exact Hf) eq_refl (Jst_Ctx an h _ _ HJ) HS E) as (_ & S0 & ES0 & EJ0).
    assert (J0 : Jst an h [] s0) by (eapply Jst_VJ; eauto).
    destruct (put_ind_facts _ _ _ _ E) as (Ei0 & En0 & _). clear E.
    assert (Hf0 : find_ind v (inds s0) = Some v1) by (rewrite Ei0; rewrite <- Hidv at 1; change (i_id vx) with (i_id v1); apply find_put_same).
    assert (Hat0 : at_node s0 j v) by (apply (at_node_nodes s s0); assumption).
    (* the interruption record *)
    mstep H as u1. mstep E as u2.
    destruct (wint_spec j v None s0 s2 E0) as (xw & r & Hxw & R1 & R2 & R3 & R4 & R5 & R6 & Ei2 & En2 & Ee2 & Een2 & Ea2 & El2 & Et2).
    assert (xw = v1) by congruence. subst xw. clear Hxw.
    assert (J2 : Jst an h [] s2).
    { apply (Jst_log_inplace s0 s2 j v v1 _ r J0 Hat0 Hf0 ltac:(rewrite R1; exact Hidv) (conj R2 R6) R3 R4 eq_refl Ei2 En2 Ee2 Een2 Ea2 El2). }
    assert (S2 : SrvInv cf [] s2) by (exact (proj1 (SrvInv_keepS cf [] _ s0 tt s2 (ks_write_interruption_record cf j v None) (WFx2_Idx _ _ (proj1 J0)) S0 E0))).
    set (v2 := v1 <| i_nrec := i_nrec v1 + 1 |>) in *.
    assert (Hf2 : find_ind v (inds s2) = Some v2) by (rewrite Ei2; rewrite <- Hidv at 1; change (i_id vx) with (i_id v2); apply find_put_same).
    clear E0 J0 S0.
    (* its service is suspended *)
    mstep E as u3. destruct (upd_ind_full _ _ _ _ _ E0) as (z & Hz & Ei3 & En3 & _). assert (z = v2) by congruence. subst z.
    match type of Ei3 with _ = put_ind_l ?x' _ => set (v3 := x') in * end.
    destruct (carry_put_ind cf [] s2 s3 tt v2 v3 ltac:(change (i_id v3) with (i_id vx); rewrite Hidv; exact Hf2) eq_refl (Jst_Ctx an h _ _ J2) S2) as (_ & S3 & ES3 & EJ3).
    { unfold upd_ind in E0. mstep E0 as zz. assert (zz = v2) by congruence. subst zz. exact E0. }
    assert (J3 : Jst an h [] s3) by (eapply Jst_VJ; eauto).
    assert (Hf3 : find_ind v (inds s3) = Some v3) by (rewrite Ei3; rewrite <- Hidv at 1; change (i_id vx) with (i_id v3); apply find_put_same).
    clear E0 J2 S2.
    (* it gives up its server *)
    mstep E as sid. mstep E as u4.
    assert (Hnb : i_blocked v3 = false).
    { destruct (i_blocked v3) eqn:Eb; [|reflexivity]. exfalso.
      pose proof (si_nb _ _ _ S3 Hp v v3 Hf3). congruence. }
    assert (Hsrv3 : i_server v3 = Some sid) by (change (i_server v3) with (i_server vx); congruence).
    destruct (srv_detatch cf [] j sid v s3 s4 v3 (WFx2_Idx _ _ (proj1 J3)) S3 (or_intror Hnb) Hf3 Hnode Hsrv3 E0) as (S4 & O4 & _ & Hfo4).
    destruct (carryJ [] _ s3 _ s4 (kv_T _ _ _ _ _ (kj_detatch_server j sid v)) (Jst_Ctx an h _ _ J3) E0) as (_ & EJ4).
    assert (J4 : Jst an h [] s4) by (eapply Jst_VJ; eauto). clear E0.
    destruct (St_carryB [] (decide_class_change cf j v) s4 tt s1 (kb_decide_class_change cf j v) (conj J4 S4) E) as (St1 & EJ1 & ES1).
    clear E. mstep H as sid2.
    (* the pre-emptor still waits in node j *)
    assert (HW1 : Waits s1 j c).
    { destruct HW as ((ndc & Hnc & Hinc) & xc & Hxc & Hxs). split.
      - apply (VJ_at s1 s4 j c (eq_sym EJ1)). apply (VJ_at s4 s3 j c (eq_sym EJ4)). apply (at_node_nodes s2 s3); [exact En3|].
        apply (at_node_nodes s0 s2); [exact En2|]. apply (at_node_nodes s s0); [exact En0|]. exists ndc. auto.
      - assert (Hc3 : find_ind c (inds s3) = Some xc).
        { rewrite Ei3, find_put_other by (change (i_id v3) with (i_id vx); congruence). rewrite Ei2, find_put_other by (change (i_id v2) with (i_id vx); congruence).
          rewrite Ei0, find_put_other by (change (i_id v1) with (i_id vx); congruence). exact Hxc. }
        assert (Hc4 : find_ind c (inds s4) = Some xc) by (rewrite Hfo4 by congruence; exact Hc3).
        destruct (rec_VJS s4 s1 c xc EJ1 ES1 Hc4) as (xc1 & Hxc1 & _ & PS1). exists xc1. split; [exact Hxc1|].
        unfold fiS in PS1. injection PS1 as PS1 _ _. congruence. }
    destruct (srv_start_preemptor cf [] j c sid2 s1 s' (St_Ctx _ _ St1) (proj2 St1) HW1 H) as (_ & S5 & EJ5 & _).
    split; [eapply Jst_VJ; [exact EJ5|exact (proj1 St1)]|exact S5].
  Qed.

  (* ---------- Node.accept, parametric in what `preempt` guarantees (Journey2.accept_St) ---------- *)
  Lemma accept_St_gen f j i s s' : St [i] s -> NoEntry s i -> NoOwner cf i s ->
    (forall vi c s5 s6, St [] s5 -> Waits s5 j c -> (exists nd sv, nodeZ s5 j = Some nd /\ In sv (n_servers nd) /\ sv_cust sv = Some vi) ->
       slot_of cf j = false -> preempts cf = true -> preempt cf f j vi c s5 = Ok (tt, s6) -> St [] s6) ->
    (forall x, find_ind i (inds s) = Some x ->
       lastok j (Some (now s)) (last_of i (h ++ log s)) /\ i_nrec x = zlen (recs_of i (h ++ log s)) /\
       (recs_of i (h ++ log s) = [] -> an i = Some j)) ->
    accept cf (S f) j i s = Ok (tt, s') -> St [] s'.
  Proof.
    intros HSt HN HO Hpre Hgood H. rewrite accept_S in H. unfold accept_body in H.
    mstep H as x. mstep H as nd. destruct (Hgood x Hf) as (Hlast & Hnrec & Han). clear Hgood.
    pose proof (find_ind_id _ _ _ Hf) as Hidx. destruct HSt as [HJ HS]. pose proof (WFx2_Idx _ _ (proj1 HJ)) as HI. pose proof (HI _ _ Hn) as Hidn.
    (* the record is stamped with the node *)
    mstep H as u1. destruct (put_ind_facts _ _ _ _ E) as (Ei1 & En1 & Ea1 & El1 & Et1 & Ee1 & Een1).
    match type of E with put_ind ?x' _ = _ => set (x1 := x') in * end.
    assert (J1 : Jst an h [i] s0) by (apply (Jst_put_away an h [i] s s0 i x x1 HJ (or_introl eq_refl) HN Hf Hidx Ei1 En1 Ee1 Een1 Ea1 El1)).
    assert (S1 : SrvInv cf [] s0).
    { apply (SrvInv_put_ind cf [i] [] s s0 i x x1 HS Hf Hidx En1 Ei1).
      - intros y Hy [Hin|[]]. congruence.
      - intros j0 n0 sv A1 A2 A3 A4. exfalso. exact (HO j0 n0 sv A1 A2 A3 A4).
      - intros _ Hb. discriminate Hb.
      - intros _. reflexivity. }
    clear E.
    (* it joins the queue of its priority class *)
    mstep H as qs. destruct (nthZ (n_queues nd) (i_prio x)) as [q|] eqn:Eq; [injection Hl as Hqs|discriminate Hl].
    mstep H as u2. match type of E with put_node ?n _ = _ => set (nd1 := n) in * end.
    assert (Hn0 : nodeZ s0 j = Some nd) by (rewrite (nodeZ_same s s0 j En1); exact Hn).
    assert (W2 : Conserve2.WFx2 [] s1).
    { assert (Hok : Conserve2.okn (Conserve2.shp s0) nd) by (apply (Conserve2.get_node_okn j); [exact (Conserve2.WFx2_idx _ _ (proj1 J1))|exact Hn0]).
      apply (Conserve2.trK_put_node_add (fun sh => Conserve2.okn sh nd) [] i nd1) with (s := s0) (a := tt); [|exact Hok|exact (proj1 J1)|exact E].
      intros sh Hsh. exists nd, (i_prio x), q. split; [exact Hsh|]. split; [exact Eq|]. split; [reflexivity|]. split; [reflexivity|]. cbn. symmetry. exact Hqs. }
    destruct (put_node_facts _ _ _ _ E) as (Es1 & Ei2 & Ea2 & El2 & Et2 & Ee2 & Een2).
    assert (En2 : nodes s1 = updZ (nodes s0) (n_id nd1 - 1) nd1) by (rewrite Es1; reflexivity).
    assert (Hn0' : nodeZ s0 (n_id nd1) = Some nd) by (change (n_id nd1) with (n_id nd); rewrite Hidn; exact Hn0).
    assert (HZ : forall k, nodeZ s1 k = if k =? j then Some nd1 else nodeZ s0 k).
    { intros k. rewrite (nodeZ_upd s0 s1 nd1 nd k En2 Hn0'). change (n_id nd1) with (n_id nd). rewrite Hidn. reflexivity. }
    clear E Es1.
    (* the arrival date *)
    mstep H as t0. mstep H as u3. destruct (upd_ind_spec _ _ _ _ _ E) as (xr & Hxr & Ei3 & En3).
    assert (xr = x1) by (rewrite Ei2, Ei1 in Hxr; rewrite <- Hidx in Hxr at 1; change (i_id x) with (i_id x1) in Hxr; rewrite find_put_same in Hxr; congruence). subst xr.
    set (x3 := x1 <| i_arr := Some (now s1) |>) in *.
    assert (EG3 : fgJ s2 = fgJ s1 /\ now s2 = now s1 /\ log s2 = log s1 /\ exit_ids s2 = exit_ids s1 /\ exit_n s2 = exit_n s1 /\ arr s2 = arr s1).
    { unfold upd_ind in E. mstep E as xx. destruct (put_ind_facts _ _ _ _ E) as (_ & _ & Q1 & Q2 & Q3 & Q4 & Q5). unfold fgJ. rewrite Q1, Q2, Q3, Q4, Q5. auto 6. }
    destruct EG3 as (_ & Et3 & El3 & Ee3 & Een3 & Ea3). clear E.
    assert (Hf3 : find_ind i (inds s2) = Some x3) by (rewrite Ei3; rewrite <- Hidx at 1; change (i_id x) with (i_id x3); apply find_put_same).
    assert (Hfo : forall y, y <> i -> find_ind y (inds s2) = find_ind y (inds s)).
    { intros y Hy. rewrite Ei3, Ei2, Ei1. rewrite find_put_other by (change (i_id x3) with (i_id x); congruence).
      rewrite find_put_other by (change (i_id x1) with (i_id x); congruence). reflexivity. }
    assert (HZ2 : forall k, nodeZ s2 k = if k =? j then Some nd1 else nodeZ s k).
    { intros k. rewrite (nodeZ_same s1 s2 k En3), HZ. destruct (k =? j); [reflexivity|apply nodeZ_same; exact En1]. }
    destruct (Jst_away an h [i] s i HJ (or_introl eq_refl)) as [Aw1 Aw2].
    assert (Hnow : now s2 = now s) by congruence. assert (Hlog : log s2 = log s) by congruence.
    assert (J3 : Jst an h [] s2).
    { destruct HJ as (A & B & C & D). split; [|split; [|split]].
      - eapply Conserve2.WFx2_shape; [|exact W2]. unfold Conserve2.shp. rewrite En3, Ee3, Een3, Ea3, Ei3. f_equal.
        apply Conserve2.put_ind_l_ids_in. change (i_id x3) with (i_id x). rewrite Hidx. rewrite Ei2, Ei1.
        apply Conserve2.find_ind_In with (x := x1). rewrite <- Hidx at 1. change (i_id x) with (i_id x1). apply find_put_same.
      - unfold JI in *. rewrite Hlog. apply (JH_land an _ s s2 i j x3 B (conj Aw1 Aw2)).
        + intros k y (n & Hnn & Hin). rewrite HZ2 in Hnn. destruct (Z.eqb_spec k j) as [->|Hne].
          * injection Hnn as <-. unfold all_individuals, nd1 in Hin. cbn in Hin. rewrite <- Hqs in Hin.
            destruct (Conserve2.nthZ_nat _ _ _ Eq) as (kp & Hkp & Hqk). rewrite Hkp, Conserve2.updZ_nat in Hin.
            eapply Permutation_in in Hin; [|apply (Conserve2.concat_upd_add (n_queues nd) kp q (q ++ [i]) i Hqk); rewrite Permutation_app_comm; reflexivity].
            destruct Hin as [<-|Hin]; [left; auto|right; exists nd; auto].
          * right. exists n. auto.
        + intros y Hy. rewrite (Hfo y Hy). reflexivity.
        + exact Hf3.
        + split; [reflexivity|]. split; [cbn; rewrite Et2, Et1; exact Hlast|]. split; [exact Hnrec|exact Han].
        + congruence.
        + rewrite Ea3, Ea2, Ea1. lia.
      - destruct C as [C1 C2]. constructor.
        + intros d fr y (n & Hnn & Hin). rewrite HZ2 in Hnn.
          assert (He : entry s d fr y) by (destruct (Z.eqb_spec d j) as [->|Hne]; [injection Hnn as <-; exists nd; auto|exists n; auto]).
          destruct (C1 d fr y He) as (xy & Hxy & P). exists xy. rewrite Hfo; [auto|]. intros ->. exact (HN d fr He).
        + intros d n Hnn. rewrite HZ2 in Hnn. destruct (Z.eqb_spec d j) as [->|Hne]; [injection Hnn as <-; exact (C2 j nd Hn)|exact (C2 d n Hnn)].
      - intros k n Hnn. rewrite HZ2 in Hnn. destruct (Z.eqb_spec k j) as [->|Hne]; [injection Hnn as <-; exact (D j nd Hn)|exact (D k n Hnn)]. }
    assert (S3 : SrvInv cf [] s2).
    { assert (ES : VS s2 = VS s0).
      { unfold VW. f_equal.
        - rewrite En3, En2. destruct (Conserve2.nthZ_nat _ _ _ Hn0') as (kk & Hkk & Hnk). rewrite Hkk, Conserve2.updZ_nat, Conserve2.upd_map.
          apply Conserve2.upd_same. rewrite nth_error_map, Hnk. reflexivity.
        - rewrite Ei3, Ei2. rewrite (map_iv_put fiS). apply aput_same. cbn [fst snd iv]. rewrite (afind_iv fiS).
          change (i_id x3) with (i_id x1). rewrite Ei1, find_put_same. reflexivity. }
      exact (SrvInv_VS cf [] s0 s2 ES S1). }
    clear J1 S1 HJ HS.
    (* reneging date, class-change date: nothing either view sees *)
    assert (HC3 : Ctx [] s2) by (eapply Jst_Ctx; eauto).
    mstep H as nc. bstep H HC3 S3 as ES4 EJ4. bstep H HC3 S3 as ES5 EJ5.
    mstep H as nd2. mstep H as cand.
    assert (Hc6 : Ctx [] s5 /\ SrvInv cf [] s5 /\ VJ s5 = VJ s4 /\ (nd_inf nd2 = false -> forall c, cand = Some c -> Waits s5 j c)).
    { destruct (nd_inf nd2).
      - apply ret_spec in E as [_ ->]. split; [exact HC3|]. split; [exact S3|]. split; [reflexivity|]. intros Hx. discriminate Hx.
      - destruct (carryB cf [] _ s4 _ s5 (kb_choose_next_customer cf j) HC3 S3 E) as (A1 & A2 & A3 & A4).
        split; [exact A1|]. split; [exact A2|]. split; [exact A4|]. intros _ c ->. destruct (cnc_spec cf j c s4 s5 E) as (B1 & B2 & B3 & B4).
        apply (Waits_same s4 s5 j c B3 B4). split; assumption. }
    destruct Hc6 as (HC6 & S6 & EJ6 & HW6). clear E HC3 S3.
    assert (EJ26 : VJ s5 = VJ s2) by congruence.
    assert (Hend : forall s6, VJ s6 = VJ s5 -> SrvInv cf [] s6 -> St [] s6).
    { intros s6 EJ HS6. assert (EJ' : VJ s6 = VJ s2) by congruence. split; [eapply Jst_VJ; eauto|exact HS6]. }
    destruct cand as [c|]; [|apply ret_spec in H as [_ ->]; apply Hend; [reflexivity|exact S6]].
    destruct (nd_inf nd2) eqn:Einf.
    - destruct (srv_start_fresh cf [] j c None true s5 s' HC6 S6 ltac:(intros Hx; exfalso; apply Hx; reflexivity) H) as (_ & HS7 & EJ7 & _). apply Hend; assumption.
    - mstep H as cx. destruct (find_free_server_for (nc_spf nc) (i_cls cx) (n_servers nd2)) as [sv|].
      + destruct (srv_start_fresh cf [] j c (Some (sv_id sv)) true s5 s' HC6 S6 ltac:(intros _; exact (HW6 eq_refl c eq_refl)) H) as (_ & HS7 & EJ7 & _). apply Hend; assumption.
      + destruct (0 <? numo (n_c nd2)); [|apply ret_spec in H as [_ ->]; apply Hend; [reflexivity|exact S6]].
        mstep H as v. pose proof (preempt_victim_same j c v s5 s6 E) as Es6. subst s6.
        destruct v as [vi|]; [|apply ret_spec in H as [_ ->]; apply Hend; [reflexivity|exact S6]].
        destruct (preempt_victim_spec j c vi s5 s5 E) as (_ & Hvic & nc1 & Hc1 & Hpre1).
        assert (Hp : preempts cf = true).
        { unfold preempts. apply existsb_exists. exists nc1. split; [eapply nthZ_In; eauto|]. apply negb_true_iff. apply Z.eqb_neq. exact Hpre1. }
        assert (Hslot : slot_of cf j = false).
        { unfold slot_of. rewrite Hc1. pose proof (scope2_nc _ _ _ Hsc Hc1) as Hs. unfold scope_nc in Hs.
          unfold nc_slotted. destruct (nc_srv nc1); [reflexivity|reflexivity|]. apply andb_true_iff in Hs as [_ Hs]. apply Z.eqb_eq in Hs. contradiction. }
        apply (Hpre vi c s5 s' (Hend s5 eq_refl S6) (HW6 eq_refl c eq_refl) Hvic Hslot Hp H).
  Qed.

  (* ---------- Node.accept at a node without reroute pre-emption: its own pre-emptions keep the victim in the node ---------- *)
  Lemma accept_nr_St f j i s s' : St [i] s -> NoEntry s i -> NoOwner cf i s ->
    (forall nc, nthZ (cf_nodes cf) (j - 1) = Some nc -> (nc_preempt nc =? 4) = false) ->
    (forall x, find_ind i (inds s) = Some x ->
       lastok j (Some (now s)) (last_of i (h ++ log s)) /\ i_nrec x = zlen (recs_of i (h ++ log s)) /\
       (recs_of i (h ++ log s) = [] -> an i = Some j)) ->
    accept cf f j i s = Ok (tt, s') -> St [] s'.
  Proof.
    intros A B C Hn4 D H. destruct f as [|f]; [discriminate H|].
    apply (accept_St_gen f j i s s' A B C); [|exact D|exact H].
    intros vi c s5 s6 P1 P2 P3 P4 P5 P6. destruct f as [|f0]; [discriminate P6|].
    exact (preempt_stay_St f0 j vi c s5 s6 P1 P2 P3 P4 P5 Hn4 P6).
  Qed.

  (* an accept at another node d leaves a customer that waits at node j alone (Preempt2r.accept_local) *)
  Lemma node_at_nodeZ s k : Preempt2.node_at s k = nodeZ s k.
  Proof.
    unfold Preempt2.node_at, nodeZ, nthZ. destruct (k <? 1) eqn:E; [|reflexivity]. apply Z.ltb_lt in E.
    destruct (k - 1 <? 0) eqn:E2; [reflexivity|apply Z.ltb_ge in E2; lia].
  Qed.
  Lemma accept_keeps_Waits f j d v c s s' : Jst an h [v] s -> SrvInv cf [v] s -> Waits s j c -> c <> v -> d <> j ->
    rr_ok cf d = true -> d <> -1 -> accept cf f d v s = Ok (tt, s') -> Waits s' j c.
  Proof.
    intros HJ HS HW Hcv Hdj Hrr Hd1 H.
    unfold rr_ok in Hrr. apply orb_true_iff in Hrr as [Hrr|Hrr]; [apply Z.eqb_eq in Hrr; contradiction|].
    apply andb_true_iff in Hrr as [_ Hrr]. destruct (nthZ (cf_nodes cf) (d - 1)) as [ncd|] eqn:Hncd; [|discriminate Hrr].
    apply andb_true_iff in Hrr as [Hr4 Hrs]. apply negb_true_iff in Hr4, Hrs. apply Z.eqb_neq in Hr4.
    pose proof (Jst_Ctx an h _ _ HJ) as HC. pose proof (Ctx_Idx _ _ HC) as HI.
    assert (Hnd : exists ndd, nodeZ s d = Some ndd).
    { destruct f as [|f0]; [discriminate H|]. pose proof H as H0. rewrite accept_S in H0. unfold accept_body in H0.
      mstep H0 as x. mstep H0 as nd. eauto. }
    destruct Hnd as (ndd & Hndd).
    assert (HI2 : Preempt2.Idx s) by (intros k nd Hk; rewrite node_at_nodeZ in Hk; exact (HI k nd Hk)).
    assert (Hndd2 : Preempt2.node_at s d = Some ndd) by (rewrite node_at_nodeZ; exact Hndd).
    destruct (Preempt2r.accept_local cf f d v s tt s' ncd ndd HI2 Hncd Hr4 Hndd2 H) as (_ & F2 & F3).
    destruct HW as (Hat & xc & Hxc & Hsrv).
    apply (Waits_other s s' j c); [| |split; [exact Hat|eauto]].
    - destruct Hat as (ndj & Hnj & Hin). exists ndj. split; [|exact Hin].
      rewrite <- node_at_nodeZ, (F2 j ltac:(congruence)), node_at_nodeZ. exact Hnj.
    - apply F3. intros HA. cbv beta in HA. unfold Preempt2r.at_node in HA. destruct HA as [E|[Hin|(sv & Hsv & Hc)]].
      + contradiction.
      + destruct HC as (_ & HNO & _). destruct (HNO j c Hat) as (x1 & Hx1 & N1).
        destruct (HNO d c (ex_intro _ ndd (conj Hndd Hin))) as (x2 & Hx2 & N2). congruence.
      + assert (Hsl : slot_of cf d = false) by (unfold slot_of; rewrite Hncd; exact Hrs).
        destruct (si_own _ _ _ HS d ndd sv c Hndd Hsl Hsv Hc) as (x1 & Hx1 & Hs1 & _). congruence.
  Qed.

  (* ---------- pre-emption by rerouting: the interruption record WITH destination d, then release(..., reroute = True) ----------
     The record is written while the victim is still in its queue; sa is the ghost state in which it has left first. *)
  Lemma reroute_St f j v c d s s' : St [] s -> Waits s j c -> v <> c -> at_node s j v -> preempts cf = true -> d <> j -> rr_ok cf d = true ->
    (write_interruption_record cf j v (Some d) ;;; release cf (S f) j v d true) s = Ok (tt, s') -> St [] s' /\ Waits s' j c.
  Proof.
    intros [HJ HS] HW Hvc Hat Hp Hdj Hrr H.
    mstepN H u0 sw. rename E into Ew.
    destruct (wint_spec j v (Some d) s sw Ew) as (xw & r & Hxw & R1 & R2 & R3 & R4 & R5 & R6 & Eiw & Enw & Eew & Eenw & Eaw & Elw & Etw).
    pose proof (find_ind_id _ _ _ Hxw) as Hidx.
    destruct (j_node _ _ _ (proj1 (proj2 HJ)) j v Hat) as (x0 & Hx0 & Gnode & Glast & Gnrec & Gan).
    assert (x0 = xw) by congruence. subst x0. clear Hx0.
    assert (HN : NoEntry s v) by (apply (unblocked_NoEntry s v xw (proj1 (proj2 (proj2 HJ))) Hxw); exact (si_nb _ _ _ HS Hp v xw Hxw)).
    set (x2 := xw <| i_nrec := i_nrec xw + 1 |>) in *.
    assert (Sw : SrvInv cf [] sw) by (exact (proj1 (SrvInv_keepS cf [] _ s tt sw (ks_write_interruption_record cf j v (Some d)) (WFx2_Idx _ _ (proj1 HJ)) HS Ew))).
    assert (Hfw : find_ind v (inds sw) = Some x2) by (rewrite Eiw; rewrite <- Hidx at 1; change (i_id xw) with (i_id x2); apply find_put_same).
    assert (HWw : Waits sw j c) by (apply (Waits_put_other s sw j c x2 Enw Eiw); [change (i_id x2) with (i_id xw); congruence|exact HW]).
    assert (Hrid : r_id r = v) by (rewrite R1; exact Hidx).
    assert (Hcl : closing r) by (right; right; split; [exact R2|rewrite R6; discriminate]).
    clear Ew.
    rewrite release_S in H. unfold release_body in H.
    mstep H as t0. mstep H as x. assert (x = x2) by congruence. subst x. clear Hf.
    mstep H as nd. mstep H as nc. mstep H as q. rename Hl into Hq. mstep H as q'. rename Hl into Hq'.
    assert (Hns : nodeZ s j = Some nd) by (rewrite <- (nodeZ_same s sw j Enw); exact Hn).
    pose proof (WFx2_Idx _ _ (proj1 HJ)) as HI. pose proof (HI _ _ Hns) as Hidn.
    change (i_pprio x2) with (i_pprio xw) in *.
    (* the victim leaves its queue *)
    mstepN H u1 sq. match type of E with put_node ?n _ = _ => set (nd1 := n) in * end.
    destruct (put_node_facts _ _ _ _ E) as (Esq & Eiq & Eaq & Elq & Etq & Eeq & Eenq).
    assert (Enq : nodes sq = updZ (nodes sw) (n_id nd1 - 1) nd1) by (rewrite Esq; reflexivity).
    clear E Esq.
    set (sa := s <| nodes := updZ (nodes s) (n_id nd1 - 1) nd1 |>).
    assert (Ea : put_node nd1 s = Ok (tt, sa)) by reflexivity.
    assert (Hn' : nodeZ s (n_id nd1) = Some nd) by (change (n_id nd1) with (n_id nd); rewrite Hidn; exact Hns).
    assert (HZa : forall k, nodeZ sa k = if k =? j then Some nd1 else nodeZ s k).
    { intros k. rewrite (nodeZ_upd s sa nd1 nd k eq_refl Hn'). change (n_id nd1) with (n_id nd). rewrite Hidn. reflexivity. }
    assert (Wa : Conserve2.WFx2 [v] sa).
    { assert (Hok : Conserve2.okn (Conserve2.shp s) nd) by (apply (Conserve2.get_node_okn j); [exact (Conserve2.WFx2_idx _ _ (proj1 HJ))|exact Hns]).
      apply (Conserve2.trK_put_node_rm (fun sh => Conserve2.okn sh nd) [] v nd1) with (s := s) (a := tt); [|exact Hok|exact (proj1 HJ)|exact Ea].
      intros sh Hsh. exists nd, (i_pprio xw), q, q'. repeat split; assumption || reflexivity. }
    assert (Hrm : forall y, In y (all_individuals nd) -> y = v \/ In y (all_individuals nd1)).
    { intros y Hy. unfold all_individuals, nd1 in *. cbn.
      destruct (Conserve2.nthZ_nat _ _ _ Hq) as (kp & Hkp & Hqk). rewrite Hkp, Conserve2.updZ_nat.
      apply (Permutation_in _ (Permutation_sym (Conserve2.concat_upd_rm (n_queues nd) kp q q' v Hqk (Conserve2.remove_first_perm _ _ _ Hq')))) in Hy.
      destruct Hy as [<-|Hy]; auto. }
    assert (Hsub : forall k y, at_node sa k y -> at_node s k y).
    { intros k y (n & Hnn & Hin). rewrite HZa in Hnn. destruct (Z.eqb_spec k j) as [->|Hne]; [|exists n; auto].
      injection Hnn as <-. exists nd. split; [exact Hns|]. unfold all_individuals, nd1 in *. cbn in Hin.
      destruct (Conserve2.nthZ_nat _ _ _ Hq) as (kp & Hkp & Hqk). rewrite Hkp, Conserve2.updZ_nat in Hin.
      apply (Permutation_in _ (Conserve2.concat_upd_rm (n_queues nd) kp q q' v Hqk (Conserve2.remove_first_perm _ _ _ Hq'))). right. exact Hin. }
    assert (Ja : Jst an h [v] sa).
    { destruct HJ as (A & B & C & D). split; [exact Wa|]. split; [|split].
      - unfold JI in *. change (log sa) with (log s). apply (JH_mono an _ s sa B Hsub); [intros k y _; reflexivity|reflexivity|cbn; lia].
      - destruct C as [C1 C2]. constructor.
        + intros d0 fr y (n & Hnn & Hin). rewrite HZa in Hnn. change (inds sa) with (inds s). apply (C1 d0 fr y).
          destruct (Z.eqb_spec d0 j) as [->|Hne]; [injection Hnn as <-; exists nd; auto|exists n; auto].
        + intros d0 n Hnn. rewrite HZa in Hnn. destruct (Z.eqb_spec d0 j) as [->|Hne]; [injection Hnn as <-; exact (C2 j nd Hns)|exact (C2 d0 n Hnn)].
      - intros k n Hnn. rewrite HZa in Hnn. destruct (Z.eqb_spec k j) as [->|Hne]; [injection Hnn as <-; exact (D j nd Hns)|exact (D k n Hnn)]. }
    assert (Na : NoEntry sa v).
    { intros d0 fr (n & Hnn & Hin). rewrite HZa in Hnn. apply (HN d0 fr). destruct (Z.eqb_spec d0 j) as [->|Hne]; [injection Hnn as <-; exists nd; auto|exists n; auto]. }
    assert (Enqa : nodes sq = nodes sa) by (rewrite Enq, Enw; reflexivity).
    assert (Jq : Jst an h [v] sq).
    { apply (Jst_log_away an h [v] sa sq v xw x2 r Ja (or_introl eq_refl) Na Hxw Hidx Hrid).
      - change (log sa) with (log s). intros r1 Hr1. unfold lastok in Glast. rewrite Hr1 in Glast. split; [right; left; exact R2|].
        destruct Glast as [(G1 & G2 & G3)|(G1 & G2 & G3)]; [left|right].
        + split; [exact G1|]. split; [rewrite R3; exact G2|rewrite R4; exact G3].
        + split; [exact G1|]. split; [rewrite R3; symmetry; exact G2|rewrite R4; symmetry; exact G3].
      - change (log sa) with (log s). rewrite R3. exact Gan.
      - rewrite Eiq, Eiw. reflexivity.
      - exact Enqa.
      - rewrite Eeq, Eew. reflexivity.
      - rewrite Eenq, Eenw. reflexivity.
      - rewrite Eaq, Eaw. reflexivity.
      - rewrite Elq, Elw. reflexivity. }
    assert (Hnw' : nodeZ sw (n_id nd1) = Some nd) by (change (n_id nd1) with (n_id nd); rewrite Hidn; exact Hn).
    assert (Sq : SrvInv cf [v] sq).
    { apply (SrvInv_VS cf [v] sw sq (VS_put_node sw sq nd nd1 Hnw' eq_refl eq_refl Enq Eiq)). eapply SrvInv_fl_weaken; [|exact Sw]. intros y []. }
    assert (Nq : NoEntry sq v) by (intros d0 fr He; apply (entry_nodes sa sq) in He; [exact (Na d0 fr He)|exact Enqa]).
    assert (Hfq : find_ind v (inds sq) = Some x2) by (rewrite Eiq; exact Hfw).
    assert (HZq : forall k, nodeZ sq k = if k =? j then Some nd1 else nodeZ s k) by (intros k; rewrite (nodeZ_same sa sq k Enqa); apply HZa).
    assert (HWq : Waits sq j c).
    { apply (Waits_other sw sq j c); [|rewrite Eiq; reflexivity|exact HWw]. exists nd1. split; [rewrite HZq, Z.eqb_refl; reflexivity|].
      destruct HW as ((ndc & Hndc & Hinc) & _). assert (ndc = nd) by congruence. subst ndc. destruct (Hrm c Hinc) as [E|Hin]; [congruence|exact Hin]. }
    assert (Hrecs : recs_of v (h ++ log sq) = recs_of v (h ++ log s) ++ [r]) by (rewrite Elq, Elw, app_assoc; apply recs_of_snoc_same; exact Hrid).
    assert (Hlast : last_of v (h ++ log sq) = Some r) by (unfold last_of; rewrite Hrecs; apply last_opt_snoc).
    assert (Hnowq : now sq = now s) by congruence.
    clear Ja Na Wa HJ HS Sw.
    (* its exit date *)
    mstepN H u2 sxd. match type of E with put_ind ?x' _ = _ => set (x3 := x') in * end.
    assert (Hfq' : find_ind (i_id x3) (inds sq) = Some x2) by (change (i_id x3) with (i_id xw); rewrite Hidx; exact Hfq).
    destruct (carry_put_ind cf [v] sq sxd tt x2 x3 Hfq' eq_refl (Jst_Ctx an h _ _ Jq) Sq E) as (_ & Sx & ESx & EJx).
    assert (Jx : Jst an h [v] sxd) by (eapply Jst_VJ; eauto).
    destruct (put_ind_facts _ _ _ _ E) as (Eix & Enx & Eax & Elx & Etx & Eex & Eenx). clear E.
    assert (Hfx : find_ind v (inds sxd) = Some x3) by (rewrite Eix; rewrite <- Hidx at 1; change (i_id xw) with (i_id x3); apply find_put_same).
    assert (Nx : NoEntry sxd v) by (eapply NoEntry_VJ; eauto).
    assert (HWx : Waits sxd j c) by (apply (Waits_put_other sq sxd j c x3 Enx Eix); [change (i_id x3) with (i_id xw); congruence|exact HWq]).
    clear Jq Sq Nq.
    (* no service record *)
    mstep H as u3.
    (* its server is freed *)
    mstepN H freed sf.
    assert (F3 : Jst an h [v] sf /\ SrvInv cf [v] sf /\ NoOwner cf v sf /\ VJ sf = VJ sxd /\ Waits sf j c).
    { destruct (negb (nd_inf nd) && negb (nc_slotted nc)) eqn:Ec.
      - mstep E as xr. assert (xr = x3) by congruence. subst xr. mstep E as sid. mstep E as u4. apply ret_spec in E as [_ <-].
        destruct (srv_detatch cf [v] j sid v sxd sf x3 (WFx2_Idx _ _ (proj1 Jx)) Sx (or_introl (or_introl eq_refl)) Hfx Gnode Hl E0) as (A1 & A2 & _ & A4).
        destruct (carryJ [v] _ sxd _ sf (kv_T _ _ _ _ _ (kj_detatch_server j sid v)) (Jst_Ctx an h _ _ Jx) E0) as (_ & EJ).
        split; [eapply Jst_VJ; eauto|]. split; [exact A1|]. split; [exact A2|]. split; [exact EJ|].
        apply (Waits_other sxd sf j c); [exact (VJ_at sf sxd j c (eq_sym EJ) (proj1 HWx))|apply A4; congruence|exact HWx].
      - apply ret_spec in E as [_ ->]. split; [exact Jx|]. split; [exact Sx|]. split; [|split; [reflexivity|exact HWx]].
        intros j0 n0 sv A1 A2 A3 A4. destruct (si_own _ _ _ Sx j0 n0 sv v A1 A2 A3 A4) as (y & Hy & _ & P2 & _).
        assert (y = x3) by congruence. subst y. assert (j0 = j) by (change (i_node x3) with (i_node xw) in P2; congruence). subst j0.
        assert (n0 = nd1) by (rewrite (nodeZ_same sq sxd j Enx), HZq, Z.eqb_refl in A1; congruence). subst n0.
        apply andb_false_iff in Ec as [Ec|Ec]; apply negb_false_iff in Ec.
        + pose proof (sn_inf _ _ _ (si_n _ _ _ Sx j nd1 A1) Ec) as Hnil. rewrite Hnil in A3. destruct A3.
        + unfold slot_of in A2. rewrite Hc in A2. congruence. }
    destruct F3 as (Jf & Sf & Of & EJf & HWf). clear E.
    assert (Hnrf : forall y, find_ind v (inds sf) = Some y -> i_nrec y = i_nrec xw + 1).
    { intros y Hy. pose proof (VJ_find sxd sf v EJf) as Hv. rewrite Hy, Hfx in Hv. cbn in Hv. unfold fiJ in Hv. injection Hv as _ _ Hv _ _. rewrite Hv. reflexivity. }
    assert (Nf : NoEntry sf v) by (eapply NoEntry_VJ; eauto).
    (* a slotted service has no server object *)
    mstepN H u5 sg.
    assert (F4 : Jst an h [v] sg /\ SrvInv cf [v] sg /\ NoOwner cf v sg /\ VJ sg = VJ sf /\ Waits sg j c).
    { destruct (nc_slotted nc); [|apply ret_spec in E as [_ ->]; auto 6].
      destruct (upd_ind_full _ _ _ _ _ E) as (y & Hy & Eig & Eng & _).
      assert (Hidg : i_id (y <| i_server := None |>) = v) by (exact (find_ind_id _ _ _ Hy)).
      destruct (carryJ_put_ind [v] sf sg tt y (y <| i_server := None |>) ltac:(rewrite Hidg; exact Hy) eq_refl (Jst_Ctx an h _ _ Jf)) as (_ & EJg).
      { unfold upd_ind in E. mstep E as yy. assert (yy = y) by congruence. subst yy. exact E. }
      split; [eapply Jst_VJ; eauto|]. split; [|split; [exact (NoOwner_nodes cf v sf sg Eng Of)|split; [exact EJg|]]].
      - apply (SrvInv_put_ind cf [v] [v] sf sg v y (y <| i_server := None |>) Sf Hy Hidg Eng Eig); [auto| | |].
        + intros j0 n0 sv A1 A2 A3 A4. exfalso. exact (Of j0 n0 sv A1 A2 A3 A4).
        + intros Hx. exfalso. apply Hx. left. reflexivity.
        + intros Hp0. exact (si_nb _ _ _ Sf Hp0 v y Hy).
      - apply (Waits_put_other sf sg j c _ Eng Eig); [rewrite Hidg; exact Hvc|exact HWf]. }
    destruct F4 as (Jg & Sg & Og & EJg & HWg). clear E Jf Sf Of.
    assert (Ng : NoEntry sg v) by (eapply NoEntry_VJ; eauto).
    (* its attributes are reset *)
    mstepN H u6 sr. unfold reset_individual_attributes in E.
    destruct (upd_ind_full _ _ _ _ _ E) as (y4 & Hy4 & Eir & Enr & Ear & Elr & Etr & Eer & Eenr).
    match type of Eir with _ = put_ind_l ?x' _ => set (y5 := x') in * end.
    assert (Hidr : i_id y5 = v) by (exact (find_ind_id _ _ _ Hy4)).
    assert (Jr : Jst an h [v] sr) by (apply (Jst_put_away an h [v] sg sr v y4 y5 Jg (or_introl eq_refl) Ng Hy4 Hidr Eir Enr Eer Eenr Ear Elr)).
    assert (Sr : SrvInv cf [v] sr).
    { apply (SrvInv_VS cf [v] sg sr); [|exact Sg]. apply (VS_put_ind sg sr y4 y5); [rewrite Hidr; exact Hy4|reflexivity|exact Eir|exact Enr]. }
    assert (Or : NoOwner cf v sr) by (exact (NoOwner_nodes cf v sg sr Enr Og)).
    assert (Nr : NoEntry sr v) by (intros d0 fr He; apply (entry_nodes sg sr) in He; [exact (Ng d0 fr He)|exact Enr]).
    assert (HWr : Waits sr j c) by (apply (Waits_put_other sg sr j c y5 Enr Eir); [rewrite Hidr; exact Hvc|exact HWg]).
    assert (Hnrr : forall y, find_ind v (inds sr) = Some y -> i_nrec y = i_nrec xw + 1).
    { intros y Hy. rewrite Eir in Hy. rewrite <- Hidr in Hy at 1. rewrite find_put_same in Hy. injection Hy as <-.
      change (i_nrec y5) with (i_nrec y4). pose proof (VJ_find sf sg v EJg) as Hv. rewrite Hy4 in Hv.
      destruct (find_ind v (inds sf)) as [y3|] eqn:E3; [|discriminate Hv]. cbn in Hv. unfold fiJ in Hv. injection Hv as _ _ Hv _ _.
      rewrite Hv. apply Hnrf. reflexivity. }
    assert (Hglob : now sr = now s /\ log sr = log sq).
    { destruct (VJ_glob _ _ EJg) as (_ & _ & _ & P4 & P5). destruct (VJ_glob _ _ EJf) as (_ & _ & _ & Q4 & Q5). split; congruence. }
    destruct Hglob as [Hnowr Hlogr].
    clear E Jg Sg Og Ng.
    (* nobody is started on the freed server *)
    mstep H as u7.
    (* the victim lands at d *)
    mstepN H u8 sl.
    assert (L : St [] sl /\ Waits sl j c).
    { destruct (d =? -1) eqn:Ed.
      - apply Z.eqb_eq in Ed. destruct (exit_accept_St v true sr sl (conj Jr Sr) Nr Or) as (A1 & _); [|exact E|].
        + rewrite Hlogr. exists r. split; [exact Hlast|]. left. split; [exact Hcl|]. rewrite R6, Ed. reflexivity.
        + split; [exact A1|]. unfold exit_accept, bind, del_ind, modify in E. injection E as <-.
          apply (Waits_other sr _ j c); [exact (proj1 HWr)|cbn; apply find_del_other; congruence|exact HWr].
      - apply Z.eqb_neq in Ed. split.
        + apply (accept_nr_St f d v sr sl (conj Jr Sr) Nr Or); [| |exact E].
          * intros ncd Hncd. unfold rr_ok in Hrr. rewrite Hncd in Hrr. apply orb_true_iff in Hrr as [Hrr|Hrr]; [apply Z.eqb_eq in Hrr; contradiction|].
            apply andb_true_iff in Hrr as [_ Hrr]. apply andb_true_iff in Hrr as [Hrr _]. apply negb_true_iff in Hrr. exact Hrr.
          * intros y Hy. rewrite Hlogr, Hlast, Hrecs. split; [|split].
            -- left. split; [exact Hcl|]. split; [exact R6|]. rewrite R5, Hnowr. reflexivity.
            -- rewrite (Hnrr y Hy), Gnrec. unfold zlen. rewrite app_length, Nat2Z.inj_add. reflexivity.
            -- intros E0. destruct (recs_of v (h ++ log s)); discriminate E0.
        + apply (accept_keeps_Waits f j d v c sr sl Jr Sr HWr); [congruence|exact Hdj|exact Hrr|exact Ed|exact E]. }
    apply ret_spec in H as [_ ->]. exact L.
  Qed.

  (* ---------- priority pre-emption, every option ---------- *)
  Lemma preempt_St f j v c s s' : St [] s -> Waits s j c ->
    (exists nd sv, nodeZ s j = Some nd /\ In sv (n_servers nd) /\ sv_cust sv = Some v) -> slot_of cf j = false -> preempts cf = true ->
    preempt cf f j v c s = Ok (tt, s') -> St [] s'.
  Proof.
    intros HSt HW Hvic Hslot Hp H. destruct f as [|f]; [discriminate H|].
    pose proof H as H0. rewrite preempt_S in H0. unfold preempt_body in H0.
    mstep H0 as t0. mstep H0 as vx. mstep H0 as nc.
    destruct (nc_preempt nc =? 4) eqn:E4.
    2:{ apply (preempt_stay_St f j v c s s' HSt HW Hvic Hslot Hp); [|exact H]. intros nc0 Hc0. assert (nc0 = nc) by congruence. subst nc0. exact E4. }
    clear H. rename H0 into H. pose proof (proj1 (Z.eqb_eq _ _) E4) as H4.
    destruct HSt as [HJ HS]. destruct Hvic as (ndv & svv & Hnv & Hsvv & Hcv).
    destruct (si_own _ _ _ HS j ndv svv v Hnv Hslot Hsvv Hcv) as (x0 & Hx0 & Hsrv & Hnode & _). assert (x0 = vx) by congruence. subst x0. clear Hx0.
    assert (Hatv : at_node s j v).
    { destruct (WFx2_rec_place _ _ _ _ (proj1 HJ) Hf) as [[k Hk]|[]]. destruct (j_node _ _ _ (proj1 (proj2 HJ)) k v Hk) as (x0 & Hx0 & Gk & _).
      assert (x0 = vx) by congruence. subst x0. assert (k = j) by congruence. subst k. exact Hk. }
    assert (Hvc : v <> c) by (intros ->; destruct HW as (_ & xc & Hxc & Hxs); congruence).
    pose proof (find_ind_id _ _ _ Hf) as Hidv.
    (* original service time remembered *)
    mstepN H u0 sp. match type of E with put_ind ?x' _ = _ => set (v1 := x') in * end.
    destruct (carry_put_ind cf [] s sp tt vx v1 ltac:(change (i_id v1) with (i_id vx); rewrite Hidv; exact Hf) eq_refl (Jst_Ctx an h _ _ HJ) HS E) as (_ & S0 & ES0 & EJ0).
    assert (J0 : Jst an h [] sp) by (eapply Jst_VJ; eauto).
    destruct (put_ind_facts _ _ _ _ E) as (Ei0 & En0 & _). clear E.
    assert (HW0 : Waits sp j c) by (apply (Waits_put_other s sp j c v1 En0 Ei0); [change (i_id v1) with (i_id vx); congruence|exact HW]).
    assert (Hat0 : at_node sp j v) by (apply (at_node_nodes s sp); assumption).
    (* the routing object names the destination; record; release(reroute = True) *)
    mstepN H u1 s2. mstepN E d sn.
    pose proof (next_node_for_rr cf j v sp d sn nc Hsc Hc H4 E0) as Hrr.
    destruct (St_carryB [] _ sp d sn (kb_next_node_for cf 1 j v) (conj J0 S0) E0) as (Stn & EJn & ESn).
    assert (HWn : Waits sn j c) by (exact (Waits_VJS sp sn j c EJn ESn HW0)).
    assert (Hatn : at_node sn j v) by (exact (VJ_at sn sp j v (eq_sym EJn) Hat0)).
    destruct f as [|f0]; [mstep E as u9; discriminate E|].
    destruct (reroute_St f0 j v c d sn s2 Stn HWn Hvc Hatn Hp (rr_ok_other cf j nc d Hc H4 Hrr) Hrr E) as (St2 & HW2).
    (* the pre-emptor takes the victim's server *)
    mstep H as sid2.
    destruct (srv_start_preemptor cf [] j c sid2 s2 s' (St_Ctx _ _ St2) (proj2 St2) HW2 H) as (_ & S5 & EJ5 & _).
    split; [eapply Jst_VJ; [exact EJ5|exact (proj1 St2)]|exact S5].
  Qed.

  (* ---------- Node.accept: the customer in flight lands in node j; its arrival date there is the clock ---------- *)
  Lemma accept_St f j i s s' : St [i] s -> NoEntry s i -> NoOwner cf i s ->
    (forall x, find_ind i (inds s) = Some x ->
       lastok j (Some (now s)) (last_of i (h ++ log s)) /\ i_nrec x = zlen (recs_of i (h ++ log s)) /\
       (recs_of i (h ++ log s) = [] -> an i = Some j)) ->
    accept cf (S f) j i s = Ok (tt, s') -> St [] s'.
  Proof.
    intros A B C D H. apply (accept_St_gen f j i s s' A B C); [|exact D|exact H].
    intros vi c s5 s6. apply preempt_St.
  Qed.

  (* ---------- from here on: the proof text of Journey2.v, re-checked in scope2r ---------- *)
  (* ---------- release (a service is over) and the unblocking cascade ---------- *)
  Lemma core_St : forall f,
    (forall j i d s s', St [] s -> NoEntry s i -> (exists x, find_ind i (inds s) = Some x /\ i_dest x = Some d) ->
       release cf f j i d false s = Ok (tt, s') -> St [] s') /\
    (forall j s s', St [] s -> release_blocked_individual cf f j s = Ok (tt, s') -> St [] s').
  Proof.
    induction f as [|f [IHr IHb]]; [split; intros; discriminate|]. split.
    - (* release *)
      intros j i d s s' [HJ HS] HN0 (xd & Hxd & Hdest) H. rewrite release_S in H. unfold release_body in H.
      mstep H as t0. mstep H as x. assert (xd = x) by congruence. subst xd. clear Hxd.
      mstep H as nd. mstep H as nc. mstep H as q. rename Hl into Hq. mstep H as q'. rename Hl into Hq'.
      pose proof (WFx2_Idx _ _ (proj1 HJ)) as HI. pose proof (HI _ _ Hn) as Hidn. pose proof (find_ind_id _ _ _ Hf) as Hidx.
      assert (Hiq : In i q) by (apply (Permutation_in _ (Permutation_sym (Conserve2.remove_first_perm _ _ _ Hq'))); left; reflexivity).
      assert (Hat : at_node s j i).
      { exists nd. split; [exact Hn|]. unfold all_individuals. apply in_concat. exists q. split; [|exact Hiq]. eapply nthZ_In; eauto. }
      destruct (j_node _ _ _ (proj1 (proj2 HJ)) j i Hat) as (x0 & Hx0 & Gnode & Glast & Gnrec & Gan).
      assert (x0 = x) by congruence. subst x0. clear Hx0.
      (* the customer leaves its queue *)
      mstep H as u0. match type of E with put_node ?n _ = _ => set (nd1 := n) in * end.
      destruct (put_node_facts _ _ _ _ E) as (Es0 & Ei0 & Ea0 & El0 & Et0 & Ee0 & Een0).
      assert (En0 : nodes s0 = updZ (nodes s) (n_id nd1 - 1) nd1) by (rewrite Es0; reflexivity).
      assert (Hn' : nodeZ s (n_id nd1) = Some nd) by (change (n_id nd1) with (n_id nd); rewrite Hidn; exact Hn).
      assert (HZ0 : forall k, nodeZ s0 k = if k =? j then Some nd1 else nodeZ s k).
      { intros k. rewrite (nodeZ_upd s s0 nd1 nd k En0 Hn'). change (n_id nd1) with (n_id nd). rewrite Hidn. reflexivity. }
      assert (W0 : Conserve2.WFx2 [i] s0).
      { assert (Hok : Conserve2.okn (Conserve2.shp s) nd) by (apply (Conserve2.get_node_okn j); [exact (Conserve2.WFx2_idx _ _ (proj1 HJ))|exact Hn]).
        apply (Conserve2.trK_put_node_rm (fun sh => Conserve2.okn sh nd) [] i nd1) with (s := s) (a := tt); [|exact Hok|exact (proj1 HJ)|exact E].
        intros sh Hsh. exists nd, (i_pprio x), q, q'. repeat split; assumption || reflexivity. }
      assert (Hsub : forall k y, at_node s0 k y -> at_node s k y).
      { intros k y (n & Hnn & Hin). rewrite HZ0 in Hnn. destruct (Z.eqb_spec k j) as [->|Hne]; [|exists n; auto].
        injection Hnn as <-. exists nd. split; [exact Hn|]. unfold all_individuals, nd1 in *. cbn in Hin.
        destruct (Conserve2.nthZ_nat _ _ _ Hq) as (kp & Hkp & Hqk). rewrite Hkp, Conserve2.updZ_nat in Hin.
        apply (Permutation_in _ (Conserve2.concat_upd_rm (n_queues nd) kp q q' i Hqk (Conserve2.remove_first_perm _ _ _ Hq'))). right. exact Hin. }
      assert (J0 : Jst an h [i] s0).
      { destruct HJ as (A & B & C & D). split; [exact W0|]. split; [|split].
        - unfold JI in *. rewrite El0. apply (JH_mono an _ s s0 B Hsub); [intros k y _; rewrite Ei0; reflexivity|exact Ee0|rewrite Ea0; lia].
        - destruct C as [C1 C2]. constructor.
          + intros d0 fr y (n & Hnn & Hin). rewrite HZ0 in Hnn. rewrite Ei0. apply (C1 d0 fr y).
            destruct (Z.eqb_spec d0 j) as [->|Hne]; [injection Hnn as <-; exists nd; auto|exists n; auto].
          + intros d0 n Hnn. rewrite HZ0 in Hnn. destruct (Z.eqb_spec d0 j) as [->|Hne]; [injection Hnn as <-; exact (C2 j nd Hn)|exact (C2 d0 n Hnn)].
        - intros k n Hnn. rewrite HZ0 in Hnn. destruct (Z.eqb_spec k j) as [->|Hne]; [injection Hnn as <-; exact (D j nd Hn)|exact (D k n Hnn)]. }
      assert (S0 : SrvInv cf [i] s0).
      { apply (SrvInv_VS cf [i] s s0 (VS_put_node s s0 nd nd1 Hn' eq_refl eq_refl En0 Ei0)). eapply SrvInv_fl_weaken; [|exact HS]. intros y []. }
      assert (N0 : NoEntry s0 i).
      { intros d0 fr (n & Hnn & Hin). rewrite HZ0 in Hnn. apply (HN0 d0 fr). destruct (Z.eqb_spec d0 j) as [->|Hne]; [injection Hnn as <-; exists nd; auto|exists n; auto]. }
      clear E Es0 HJ HS.
      (* its exit date *)
      mstep H as u1. match type of E with put_ind ?x' _ = _ => set (x1 := x') in * end.
      assert (Hf0 : find_ind (i_id x1) (inds s0) = Some x) by (change (i_id x1) with (i_id x); rewrite Hidx, Ei0; exact Hf).
      destruct (carry_put_ind cf [i] s0 s1 tt x x1 Hf0 eq_refl (Jst_Ctx an h _ _ J0) S0 E) as (_ & S1 & ES1 & EJ1).
      assert (J1 : Jst an h [i] s1) by (eapply Jst_VJ; eauto).
      destruct (put_ind_facts _ _ _ _ E) as (Ei1 & En1 & Ea1 & El1 & Et1 & Ee1 & Een1). clear E.
      assert (Hf1 : find_ind i (inds s1) = Some x1) by (rewrite Ei1; rewrite <- Hidx at 1; change (i_id x) with (i_id x1); apply find_put_same).
      assert (N1 : NoEntry s1 i) by (eapply NoEntry_VJ; eauto).
      (* its record *)
      mstep H as u2. change ((if false then ret tt else write_individual_record cf j i) s1 = Ok (tt, s2)) in E. cbv iota in E.
      destruct (wir_spec j i s1 s2 E) as (xw & r & Hxw & R1 & R2 & R3 & R4 & R5 & R6 & Ei2 & En2 & Ee2 & Een2 & Ea2 & El2 & Et2).
      assert (xw = x1) by congruence. subst xw. clear Hxw.
      set (x2 := x1 <| i_nrec := i_nrec x1 + 1 |>) in *.
      assert (Hrid : r_id r = i) by (rewrite R1; exact Hidx).
      assert (Hlog1 : log s1 = log s) by congruence.
      assert (Hcl : closing r) by (left; exact R2).
      assert (J2 : Jst an h [i] s2).
      { apply (Jst_log_away an h [i] s1 s2 i x1 x2 r J1 (or_introl eq_refl) N1 Hf1 Hidx Hrid); try assumption.
        - rewrite Hlog1. intros r1 Hr1. unfold lastok in Glast. rewrite Hr1 in Glast. split; [left; exact R2|].
          destruct Glast as [(G1 & G2 & G3)|(G1 & G2 & G3)]; [left|right].
          + split; [exact G1|]. split; [rewrite R3; exact G2|rewrite R4; exact G3].
          + split; [exact G1|]. split; [rewrite R3; symmetry; exact G2|rewrite R4; symmetry; exact G3].
        - rewrite Hlog1, R3. exact Gan. }
      assert (S2 : SrvInv cf [i] s2) by (exact (proj1 (SrvInv_keepS cf [i] _ s1 tt s2 (ks_write_individual_record cf j i) (WFx2_Idx _ _ (proj1 J1)) S1 E))).
      assert (N2 : NoEntry s2 i) by (intros d0 fr He; apply (entry_nodes s1 s2) in He; [exact (N1 d0 fr He)|exact En2]).
      assert (Hf2 : find_ind i (inds s2) = Some x2) by (rewrite Ei2; rewrite <- Hidx at 1; change (i_id x) with (i_id x2); apply find_put_same).
      assert (Hrecs2 : recs_of i (h ++ log s2) = recs_of i (h ++ log s) ++ [r]) by (rewrite El2, Hlog1, app_assoc; apply recs_of_snoc_same; exact Hrid).
      assert (Hlast2 : last_of i (h ++ log s2) = Some r) by (unfold last_of; rewrite Hrecs2; apply last_opt_snoc).
      assert (Hnow2 : now s2 = now s) by congruence.
      clear E J1 S1 N1 J0 S0 N0.
      (* its server is freed *)
      mstep H as freed.
      assert (F3 : Jst an h [i] s3 /\ SrvInv cf [i] s3 /\ NoOwner cf i s3 /\ VJ s3 = VJ s2).
      { destruct (negb (nd_inf nd) && negb (nc_slotted nc)) eqn:Ec.
        - mstep E as xr. assert (xr = x2) by congruence. subst xr. mstep E as sid. mstep E as u3. apply ret_spec in E as [_ ->].
          destruct (srv_detatch cf [i] j sid i s2 s4 x2 (WFx2_Idx _ _ (proj1 J2)) S2 (or_introl (or_introl eq_refl)) Hf2 Gnode Hl E0) as (A1 & A2 & _ & _).
          destruct (carryJ [i] _ s2 _ s4 (kv_T _ _ _ _ _ (kj_detatch_server j sid i)) (Jst_Ctx an h _ _ J2) E0) as (_ & EJ).
          split; [eapply Jst_VJ; eauto|]. auto.
        - apply ret_spec in E as [_ ->]. split; [exact J2|]. split; [exact S2|]. split; [|reflexivity].
          intros j0 n0 sv A1 A2 A3 A4. destruct (si_own _ _ _ S2 j0 n0 sv i A1 A2 A3 A4) as (y & Hy & _ & P2 & _).
          assert (y = x2) by congruence. subst y. assert (j0 = j) by (change (i_node x2) with (i_node x) in P2; congruence). subst j0.
          assert (n0 = nd1) by (rewrite (nodeZ_same s1 s2 j En2), (nodeZ_same s0 s1 j En1), HZ0, Z.eqb_refl in A1; congruence). subst n0.
          apply andb_false_iff in Ec as [Ec|Ec]; apply negb_false_iff in Ec.
          + pose proof (sn_inf _ _ _ (si_n _ _ _ S2 j nd1 A1) Ec) as Hnil. rewrite Hnil in A3. destruct A3.
          + unfold slot_of in A2. rewrite Hc in A2. congruence. }
      destruct F3 as (J3 & S3 & O3 & EJ3). clear E.
      assert (Hf3 : forall y, find_ind i (inds s3) = Some y -> i_nrec y = i_nrec x + 1).
      { intros y Hy. pose proof (VJ_find s2 s3 i EJ3) as Hv. rewrite Hy, Hf2 in Hv. cbn in Hv. unfold fiJ in Hv. injection Hv as _ _ Hv _ _. rewrite Hv. reflexivity. }
      assert (N3 : NoEntry s3 i) by (eapply NoEntry_VJ; eauto).
      (* a slotted service has no server object *)
      mstep H as u4.
      assert (F4 : Jst an h [i] s4 /\ SrvInv cf [i] s4 /\ NoOwner cf i s4 /\ VJ s4 = VJ s3).
      { destruct (nc_slotted nc); [|apply ret_spec in E as [_ ->]; auto].
        destruct (upd_ind_full _ _ _ _ _ E) as (y & Hy & Ei4 & En4 & _).
        assert (Hid4 : i_id (y <| i_server := None |>) = i) by (exact (find_ind_id _ _ _ Hy)).
        destruct (carryJ_put_ind [i] s3 s4 tt y (y <| i_server := None |>) ltac:(rewrite Hid4; exact Hy) eq_refl (Jst_Ctx an h _ _ J3)) as (_ & EJ4).
        { unfold upd_ind in E. mstep E as yy. assert (yy = y) by congruence. subst yy. exact E. }
        split; [eapply Jst_VJ; eauto|]. split; [|split; [exact (NoOwner_nodes cf i s3 s4 En4 O3)|exact EJ4]].
        apply (SrvInv_put_ind cf [i] [i] s3 s4 i y (y <| i_server := None |>) S3 Hy Hid4 En4 Ei4); [auto| | |].
        - intros j0 n0 sv A1 A2 A3 A4. exfalso. exact (O3 j0 n0 sv A1 A2 A3 A4).
        - intros Hx. exfalso. apply Hx. left. reflexivity.
        - intros Hp. exact (si_nb _ _ _ S3 Hp i y Hy). }
      destruct F4 as (J4 & S4 & O4 & EJ4). clear E J3 S3 O3.
      assert (N4 : NoEntry s4 i) by (eapply NoEntry_VJ; eauto).
      (* its attributes are reset *)
      mstep H as u5. unfold reset_individual_attributes in E.
      destruct (upd_ind_full _ _ _ _ _ E) as (y4 & Hy4 & Ei5 & En5 & Ea5 & El5 & Et5 & Ee5 & Een5).
      match type of Ei5 with _ = put_ind_l ?x' _ => set (y5 := x') in * end.
      assert (Hid5 : i_id y5 = i) by (exact (find_ind_id _ _ _ Hy4)).
      assert (J5 : Jst an h [i] s5) by (apply (Jst_put_away an h [i] s4 s5 i y4 y5 J4 (or_introl eq_refl) N4 Hy4 Hid5 Ei5 En5 Ee5 Een5 Ea5 El5)).
      assert (S5 : SrvInv cf [i] s5).
      { apply (SrvInv_VS cf [i] s4 s5); [|exact S4]. apply (VS_put_ind s4 s5 y4 y5); [rewrite Hid5; exact Hy4|reflexivity|exact Ei5|exact En5]. }
      assert (O5 : NoOwner cf i s5) by (exact (NoOwner_nodes cf i s4 s5 En5 O4)).
      assert (N5 : NoEntry s5 i) by (intros d0 fr He; apply (entry_nodes s4 s5) in He; [exact (N4 d0 fr He)|exact En5]).
      assert (Hf5 : forall y, find_ind i (inds s5) = Some y -> i_nrec y = i_nrec x + 1).
      { intros y Hy. rewrite Ei5 in Hy. rewrite <- Hid5 in Hy at 1. rewrite find_put_same in Hy. injection Hy as <-.
        change (i_nrec y5) with (i_nrec y4). pose proof (VJ_find s3 s4 i EJ4) as Hv. rewrite Hy4 in Hv.
        destruct (find_ind i (inds s3)) as [y3|] eqn:E3; [|discriminate Hv]. cbn in Hv. unfold fiJ in Hv. injection Hv as _ _ Hv _ _.
        rewrite Hv. apply Hf3. reflexivity. }
      clear E J4 S4 O4 N4.
      (* the freed server takes the next customer *)
      mstep H as u6. change ((if false then ret tt else begin_service_if_possible_release cf j freed) s5 = Ok (tt, s6)) in E. cbv iota in E.
      destruct (srv_bsipr cf [i] j freed s5 s6 (Jst_Ctx an h _ _ J5) S5 E) as (_ & S6 & EJ6 & HO6).
      assert (J6 : Jst an h [i] s6) by (eapply Jst_VJ; eauto).
      assert (O6 : NoOwner cf i s6) by (apply HO6; [exact (proj1 (Jst_away an h [i] s5 i J5 (or_introl eq_refl)))|exact O5]).
      assert (N6 : NoEntry s6 i) by (eapply NoEntry_VJ; eauto).
      assert (EJ26 : VJ s6 = VJ s5) by exact EJ6.
      assert (Hglob6 : now s6 = now s /\ log s6 = log s2).
      { destruct (VJ_glob _ _ EJ6) as (_ & _ & _ & Q4 & Q5). destruct (VJ_glob _ _ EJ4) as (_ & _ & _ & P4 & P5). destruct (VJ_glob _ _ EJ3) as (_ & _ & _ & R4' & R5').
        split; congruence. }
      destruct Hglob6 as [Hnow6 Hlog6].
      assert (Hf6 : forall y, find_ind i (inds s6) = Some y -> i_nrec y = i_nrec x + 1).
      { intros y Hy. pose proof (VJ_find s5 s6 i EJ6) as Hv. rewrite Hy in Hv. destruct (find_ind i (inds s5)) as [y0|] eqn:E5; [|discriminate Hv].
        cbn in Hv. unfold fiJ in Hv. injection Hv as _ _ Hv _ _. rewrite Hv. apply Hf5. reflexivity. }
      clear E J5 S5 O5 N5.
      (* the customer lands *)
      mstep H as u7.
      assert (L7 : St [] s7).
      { destruct (d =? -1) eqn:Ed.
        - apply Z.eqb_eq in Ed. destruct (exit_accept_St i true s6 s7 (conj J6 S6) N6 O6) as (A1 & _); [|exact E|exact A1].
          rewrite Hlog6. exists r. split; [exact Hlast2|]. left. split; [exact Hcl|]. rewrite R6. cbn. rewrite Hdest, Ed. reflexivity.
        - destruct f as [|f0]; [discriminate E|]. apply (accept_St f0 d i s6 s7 (conj J6 S6) N6 O6); [|exact E].
          intros y Hy. rewrite Hlog6, Hlast2, Hrecs2. split; [|split].
          + left. split; [exact Hcl|]. split; [rewrite R6; exact Hdest|]. rewrite R5, Hnow6. reflexivity.
          + rewrite (Hf6 y Hy), Gnrec. unfold zlen. rewrite app_length, Nat2Z.inj_add. reflexivity.
          + intros E0. destruct (recs_of i (h ++ log s)); discriminate E0. }
      (* the node lets a blocked customer in *)
      change ((if false then ret tt else release_blocked_individual cf f j) s7 = Ok (tt, s')) in H. cbv iota in H.
      exact (IHb j s7 s' L7 H).
    - (* release_blocked_individual *)
      intros j s s' [HJ HS] H. rewrite rbi_S in H. unfold rbi_body in H.
      mstep H as nd. mstep H as nc.
      match type of H with (if ?c then _ else _) _ = _ => destruct c end; [|apply ret_spec in H as [_ ->]; split; assumption].
      destruct (n_bq nd) as [|[from y] rest] eqn:Ebq; [discriminate H|].
      mstep H as fnd. mstep H as u0.
      assert (s0 = s) by (destruct (memZ y (all_individuals fnd)); [apply ret_spec in E as [_ ->]; reflexivity|discriminate E]). subst s0. clear E.
      pose proof (WFx2_Idx _ _ (proj1 HJ)) as HI. pose proof (HI _ _ Hn) as Hidn.
      destruct HJ as (A & B & C & D).
      assert (He : entry s j from y) by (exists nd; rewrite Ebq; split; [exact Hn|left; reflexivity]).
      destruct (l_ent _ C j from y He) as (xy & Hxy & Hdy & Hby).
      (* the entry is taken out of the blocked queue *)
      mstep H as u1. match type of E with put_node ?n _ = _ => set (nd1 := n) in * end.
      destruct (put_node_facts _ _ _ _ E) as (Es0 & Ei0 & Ea0 & El0 & Et0 & Ee0 & Een0).
      assert (En0 : nodes s0 = updZ (nodes s) (n_id nd1 - 1) nd1) by (rewrite Es0; reflexivity).
      assert (Hn' : nodeZ s (n_id nd1) = Some nd) by (change (n_id nd1) with (n_id nd); rewrite Hidn; exact Hn).
      assert (HZ0 : forall k, nodeZ s0 k = if k =? j then Some nd1 else nodeZ s k).
      { intros k. rewrite (nodeZ_upd s s0 nd1 nd k En0 Hn'). change (n_id nd1) with (n_id nd). rewrite Hidn. reflexivity. }
      assert (Hatn : forall k z, at_node s0 k z <-> at_node s k z).
      { intros k z. unfold at_node. rewrite HZ0. destruct (Z.eqb_spec k j) as [->|Hne]; [|reflexivity]. split.
        - intros (n & Hnn & Hin). injection Hnn as <-. exists nd. auto.
        - intros (n & Hnn & Hin). assert (n = nd) by congruence. subst n. exists nd1. auto. }
      assert (J0 : Jst an h [] s0).
      { split; [|split; [|split]].
        - eapply Conserve2.WFx2_shape; [|exact A]. unfold Conserve2.shp. rewrite Ee0, Een0, Ea0, Ei0. f_equal.
          rewrite En0. unfold nodeZ in Hn'. destruct (Conserve2.nthZ_nat _ _ _ Hn') as (kk & Hkk & Hnk). rewrite Hkk, Conserve2.updZ_nat, Conserve2.upd_map.
          apply Conserve2.upd_same. rewrite nth_error_map, Hnk. reflexivity.
        - unfold JI in *. rewrite El0. apply (JH_mono an _ s s0 B); [intros k z; apply Hatn|intros k z _; rewrite Ei0; reflexivity|exact Ee0|rewrite Ea0; lia].
        - constructor.
          + intros d0 fr z (n & Hnn & Hin). rewrite HZ0 in Hnn. rewrite Ei0. apply (l_ent _ C d0 fr z).
            destruct (Z.eqb_spec d0 j) as [->|Hne]; [injection Hnn as <-; exists nd; split; [exact Hn|rewrite Ebq; right; exact Hin]|exists n; auto].
          + intros d0 n Hnn. rewrite HZ0 in Hnn. destruct (Z.eqb_spec d0 j) as [->|Hne]; [|exact (l_nd _ C d0 n Hnn)].
            injection Hnn as <-. cbn. pose proof (l_nd _ C j nd Hn) as Hnd. rewrite Ebq in Hnd. cbn in Hnd. apply NoDup_cons_iff in Hnd as [_ Hnd]. exact Hnd.
        - intros k n Hnn. rewrite HZ0 in Hnn. destruct (Z.eqb_spec k j) as [->|Hne]; [injection Hnn as <-; exact (D j nd Hn)|exact (D k n Hnn)]. }
      assert (S0 : SrvInv cf [] s0) by (apply (SrvInv_VS cf [] s s0 (VS_put_node s s0 nd nd1 Hn' eq_refl eq_refl En0 Ei0)); exact HS).
      assert (N0 : NoEntry s0 y).
      { intros d0 fr (n & Hnn & Hin). rewrite HZ0 in Hnn. destruct (Z.eqb_spec d0 j) as [->|Hne].
        - injection Hnn as <-. cbn in Hin. pose proof (l_nd _ C j nd Hn) as Hnd. rewrite Ebq in Hnd. cbn in Hnd.
          apply NoDup_cons_iff in Hnd as [Hnd _]. apply Hnd. apply in_map_iff. exists (fr, y). auto.
        - destruct (l_ent _ C d0 fr y (ex_intro _ n (conj Hnn Hin))) as (xy' & Hxy' & Hdy' & _). congruence. }
      assert (Hxy0 : find_ind y (inds s0) = Some xy) by (rewrite Ei0; exact Hxy).
      clear E Es0 A B C D HS.
      (* an interrupted customer gets its service dates back *)
      mstep H as yx. assert (yx = xy) by congruence. subst yx. mstep H as u2.
      assert (F1 : St [] s1 /\ NoEntry s1 y /\ exists x1, find_ind y (inds s1) = Some x1 /\ i_dest x1 = Some j).
      { destruct (i_interrupted xy).
        - mstep E as os. mstep E as ot. mstep E as u3.
          match type of E0 with put_ind ?x' _ = _ => set (xy1 := x') in * end.
          pose proof (find_ind_id _ _ _ Hf) as Hidy.
          destruct (carry_put_ind cf [] s0 s2 tt xy xy1 ltac:(change (i_id xy1) with (i_id xy); rewrite Hidy; exact Hf) eq_refl (Jst_Ctx an h _ _ J0) S0 E0) as (_ & S2 & ES2 & EJ2).
          assert (J2 : Jst an h [] s2) by (eapply Jst_VJ; eauto).
          destruct (put_ind_facts _ _ _ _ E0) as (Ei2 & En2 & _). clear E0.
          mstep E as fnd2. match goal with Hx : nodeZ s2 from = Some fnd2 |- _ => rename Hx into Hnf2 end. mstep E as l'.
          match type of E with put_node ?n _ = _ => set (fn1 := n) in * end.
          destruct (put_node_facts _ _ _ _ E) as (Es1 & Ei1 & Ea1 & El1 & Et1 & Ee1 & Een1).
          assert (En1 : nodes s1 = updZ (nodes s2) (n_id fn1 - 1) fn1) by (rewrite Es1; reflexivity).
          pose proof (WFx2_Idx _ _ (proj1 J2) _ _ Hnf2) as Hidf.
          assert (Hnf : nodeZ s2 (n_id fn1) = Some fnd2) by (change (n_id fn1) with (n_id fnd2); rewrite Hidf; exact Hnf2).
          assert (HZ1 : forall k, nodeZ s1 k = if k =? from then Some fn1 else nodeZ s2 k).
          { intros k. rewrite (nodeZ_upd s2 s1 fn1 fnd2 k En1 Hnf). change (n_id fn1) with (n_id fnd2). rewrite Hidf. reflexivity. }
          assert (Hatn1 : forall k z, at_node s1 k z <-> at_node s2 k z).
          { intros k z. unfold at_node. rewrite HZ1. destruct (Z.eqb_spec k from) as [->|Hne]; [|reflexivity]. split.
            - intros (n & Hnn & Hin). injection Hnn as <-. exists fnd2. auto.
            - intros (n & Hnn & Hin). assert (n = fnd2) by congruence. subst n. exists fn1. auto. }
          assert (Hent1 : forall d0 fr z, entry s1 d0 fr z <-> entry s2 d0 fr z).
          { intros d0 fr z. unfold entry. rewrite HZ1. destruct (Z.eqb_spec d0 from) as [->|Hne]; [|reflexivity]. split.
            - intros (n & Hnn & Hin). injection Hnn as <-. exists fnd2. auto.
            - intros (n & Hnn & Hin). assert (n = fnd2) by congruence. subst n. exists fn1. auto. }
          destruct J2 as (A2 & B2 & C2 & D2).
          assert (J1 : Jst an h [] s1).
          { split; [|split; [|split]].
            - eapply Conserve2.WFx2_shape; [|exact A2]. unfold Conserve2.shp. rewrite Ee1, Een1, Ea1, Ei1. f_equal.
              rewrite En1. unfold nodeZ in Hnf. destruct (Conserve2.nthZ_nat _ _ _ Hnf) as (kk & Hkk & Hnk). rewrite Hkk, Conserve2.updZ_nat, Conserve2.upd_map.
              apply Conserve2.upd_same. rewrite nth_error_map, Hnk. reflexivity.
            - unfold JI in *. rewrite El1. apply (JH_mono an _ s2 s1 B2); [intros k z; apply Hatn1|intros k z _; rewrite Ei1; reflexivity|exact Ee1|rewrite Ea1; lia].
            - constructor.
              + intros d0 fr z Hez. rewrite Ei1. apply (l_ent _ C2 d0 fr z). apply Hent1. exact Hez.
              + intros d0 n Hnn. rewrite HZ1 in Hnn. destruct (Z.eqb_spec d0 from) as [->|Hne]; [injection Hnn as <-; exact (l_nd _ C2 from fnd2 Hnf2)|exact (l_nd _ C2 d0 n Hnn)].
            - intros k n Hnn. rewrite HZ1 in Hnn. destruct (Z.eqb_spec k from) as [->|Hne]; [|exact (D2 k n Hnn)].
              injection Hnn as <-. cbn. pose proof (D2 from fnd2 Hnf2). lia. }
          split; [split; [exact J1|]|split].
          + apply (SrvInv_VS cf [] s2 s1 (VS_put_node s2 s1 fnd2 fn1 Hnf eq_refl eq_refl En1 Ei1)). exact S2.
          + intros d0 fr Hez. apply Hent1 in Hez. exact (NoEntry_VJ s0 s2 y EJ2 N0 d0 fr Hez).
          + exists xy1. split; [rewrite Ei1, Ei2; rewrite <- Hidy at 1; change (i_id xy) with (i_id xy1); apply find_put_same|exact Hdy].
        - apply ret_spec in E as [_ ->]. split; [split; assumption|]. split; [exact N0|]. exists xy. auto. }
      destruct F1 as (St1 & N1 & Hd1).
      exact (IHr from y j s1 s' St1 N1 Hd1 H).
  Qed.

  Lemma release_St f j i d s s' : St [] s -> NoEntry s i -> (exists x, find_ind i (inds s) = Some x /\ i_dest x = Some d) ->
    release cf f j i d false s = Ok (tt, s') -> St [] s'.
  Proof. apply core_St. Qed.
  Lemma rbi_St f j s s' : St [] s -> release_blocked_individual cf f j s = Ok (tt, s') -> St [] s'.
  Proof. apply core_St. Qed.
  Lemma accept_St' f j i s s' : St [i] s -> NoEntry s i -> NoOwner cf i s ->
    (forall x, find_ind i (inds s) = Some x ->
       lastok j (Some (now s)) (last_of i (h ++ log s)) /\ i_nrec x = zlen (recs_of i (h ++ log s)) /\
       (recs_of i (h ++ log s) = [] -> an i = Some j)) ->
    accept cf f j i s = Ok (tt, s') -> St [] s'.
  Proof. intros A B C D H. destruct f as [|f]; [discriminate H|]. exact (accept_St f j i s s' A B C D H). Qed.
  Lemma has_space_pre d s b s' : preempts cf = true -> has_space cf d s = Ok (b, s') -> b = true.
  Proof.
    intros Hp H. unfold has_space in H. destruct (d =? -1); [apply ret_spec in H as [-> _]; reflexivity|].
    mstep H as dn. mstep H as dc. apply ret_spec in H as [-> _]. rewrite (proj1 (scope2_pre cf Hsc Hp) d dc Hc). reflexivity.
  Qed.

  (* ---------- finish_service ---------- *)
  Lemma finish_service_St j s s' : St [] s ->
    (forall nd i x, nodeZ s j = Some nd -> In i (n_next_inds nd) -> find_ind i (inds s) = Some x -> i_blocked x = false /\ i_node x = Some j) ->
    finish_service cf j s = Ok (tt, s') -> St [] s'.
  Proof.
    intros [HJ HS] Hpick H. unfold finish_service in H. mstep H as nd.
    pose proof (Jst_Ctx an h _ _ HJ) as HC. rename HS into HS0.
    mstep H as i. pose proof (decide_between_spec _ _ _ _ E) as Hi.
    destruct (carryB cf [] _ s _ s0 (kb_decide_between _) HC HS0 E) as (HC1 & HS1 & ES1 & EJ1). clear E.
    bstep H HC1 HS1 as ES2 EJ2. bstep H HC1 HS1 as ES3 EJ3. rename a into d.
    assert (EJ03 : VJ s2 = VJ s) by congruence. assert (ES03 : VS s2 = VS s) by congruence.
    assert (J3 : Jst an h [] s2) by (eapply Jst_VJ; eauto).
    (* the destination is stamped on the customer *)
    mstep H as u0. destruct (upd_ind_full _ _ _ _ _ E) as (y & Hy & Ei4 & En4 & Ea4 & El4 & Et4 & Ee4 & Een4). clear E.
    set (y4 := y <| i_dest := Some d |>) in *. pose proof (find_ind_id _ _ _ Hy) as Hidy.
    assert (Hy0 : exists y0, find_ind i (inds s) = Some y0 /\ fiJ y = fiJ y0 /\ fiS y = fiS y0).
    { destruct (find_ind i (inds s)) as [y0|] eqn:E0.
      - destruct (rec_VJS s s2 i y0 EJ03 ES03 E0) as (y' & Hy' & P1 & P2). assert (y' = y) by congruence. subst y'. eauto.
      - exfalso. pose proof (VJ_find s s2 i EJ03) as Hv. rewrite E0, Hy in Hv. discriminate Hv. }
    destruct Hy0 as (y0 & Hy0 & PJ & PS). destruct (Hpick nd i y0 Hn Hi Hy0) as [Hb0 Hnode0].
    assert (Hb : i_blocked y = false) by (unfold fiS in PS; injection PS as _ _ PS; congruence).
    assert (Hnode : i_node y = Some j) by (unfold fiS in PS; injection PS as _ PS _; congruence).
    assert (N3 : NoEntry s2 i) by (eapply unblocked_NoEntry; [exact (proj1 (proj2 (proj2 J3)))|exact Hy|exact Hb]).
    assert (J4 : Jst an h [] s3) by (apply (Jst_put_same [] s2 s3 i y y4 J3 N3 Hy Hidy eq_refl Ei4 En4 Ee4 Een4 Ea4 El4)).
    assert (S4 : SrvInv cf [] s3) by (apply (SrvInv_VS cf [] s2 s3); [apply (VS_put_ind s2 s3 y y4); [change (i_id y4) with (i_id y); rewrite Hidy; exact Hy|reflexivity|exact Ei4|exact En4]|exact HS1]).
    assert (Hy4 : find_ind i (inds s3) = Some y4) by (rewrite Ei4; rewrite <- Hidy at 1; change (i_id y) with (i_id y4); apply find_put_same).
    assert (N4 : NoEntry s3 i) by (intros d0 fr He; apply (entry_nodes s2 s3) in He; [exact (N3 d0 fr He)|exact En4]).
    clear HC1 HS1 J3 N3.
    (* the server has no end-of-service date any more *)
    mstep H as nc. mstep H as u1.
    assert (F5 : Jst an h [] s4 /\ SrvInv cf [] s4 /\ VJ s4 = VJ s3 /\ find_ind i (inds s4) = Some y4 /\
                 (forall j0 n0 sv, nodeZ s4 j0 = Some n0 -> slot_of cf j0 = false -> In sv (n_servers n0) -> sv_cust sv = Some i -> sv_next_end sv = None) /\
                 (i_server y4 = None -> exists n0, nodeZ s4 j = Some n0 /\ (nd_inf n0 = true \/ slot_of cf j = true))).
    { destruct (negb (nd_inf nd) && negb (nc_slotted nc)) eqn:Ec.
      - mstep E as xr. assert (xr = y4) by congruence. subst xr. mstep E as sid.
        destruct (srv_set_next_end cf [] j sid None s3 s4 (WFx2_Idx _ _ (proj1 J4)) S4 ltac:(intros Hx; exfalso; apply Hx; reflexivity) E) as (A1 & _).
        destruct (carryJ [] _ s3 _ s4 (kv_T _ _ _ _ _ (kj_set_next_end j sid None)) (Jst_Ctx an h _ _ J4) E) as (_ & EJ).
        assert (Ei5 : inds s4 = inds s3) by (unfold set_next_end in E; destruct (upd_server_spec _ _ _ _ _ _ E) as (? & _ & A & _); exact A).
        split; [eapply Jst_VJ; eauto|]. split; [exact A1|]. split; [exact EJ|]. split; [rewrite Ei5; exact Hy4|]. split.
        + intros j0 n0 sv B1 B2 B3 B4. destruct (si_own _ _ _ A1 j0 n0 sv i B1 B2 B3 B4) as (z & Hz & P1 & P2 & _).
          rewrite Ei5, Hy4 in Hz. injection Hz as <-. assert (j0 = j) by (change (i_node y4) with (i_node y) in P2; congruence). subst j0.
          apply (set_next_end_post j sid None s3 s4 (WFx2_Idx _ _ (proj1 J4)) S4 E n0 sv B1 B3). change (i_server y4) with (i_server y) in *. congruence.
        + intros Hx. change (i_server y4) with (i_server y) in *. congruence.
      - apply ret_spec in E as [_ ->]. split; [exact J4|]. split; [exact S4|]. split; [reflexivity|]. split; [exact Hy4|].
        assert (Hnd3 : exists n3, nodeZ s3 j = Some n3 /\ nd_inf n3 = nd_inf nd).
        { assert (ES : VS s3 = VS s) by (rewrite <- ES03; apply (VS_put_ind s2 s3 y y4); [change (i_id y4) with (i_id y); rewrite Hidy; exact Hy|reflexivity|exact Ei4|exact En4]).
          pose proof (VW_node fnS fiS fgS s s3 j ES) as Hv. rewrite Hn in Hv. destruct (nodeZ s3 j) as [n3|]; [|discriminate Hv].
          cbn in Hv. unfold nv, fnS in Hv. injection Hv as _ _ _ Hv. eauto. }
        destruct Hnd3 as (n3 & Hn3 & Hinf3).
        assert (Hor : nd_inf n3 = true \/ slot_of cf j = true).
        { apply andb_false_iff in Ec as [Ec|Ec]; apply negb_false_iff in Ec; [left; congruence|right; unfold slot_of; rewrite Hc; exact Ec]. }
        split.
        + intros j0 n0 sv B1 B2 B3 B4. exfalso. destruct (si_own _ _ _ S4 j0 n0 sv i B1 B2 B3 B4) as (z & Hz & _ & P2 & _).
          rewrite Hy4 in Hz. injection Hz as <-. assert (j0 = j) by (change (i_node y4) with (i_node y) in P2; congruence). subst j0.
          assert (n0 = n3) by congruence. subst n0. destruct Hor as [Hor|Hor]; [|congruence].
          rewrite (sn_inf _ _ _ (si_n _ _ _ S4 j n3 Hn3) Hor) in B3. destruct B3.
        + intros _. exists n3. auto. }
    destruct F5 as (J5 & S5 & EJ5 & Hy5 & Hown5 & Hblk5). clear E J4 S4.
    assert (N5 : NoEntry s4 i) by (eapply NoEntry_VJ; eauto).
    (* is there room at the destination? *)
    pose proof (Jst_Ctx an h _ _ J5) as HC5. mstep H as space. rename E into Hsp.
    destruct (carryB cf [] _ s4 space s5 (kb_has_space cf d) HC5 S5 Hsp) as (HC5' & S5' & ES6 & EJ6).
    clear HC5 S5. rename HC5' into HC5. rename S5' into S5.
    assert (J6 : Jst an h [] s5) by (eapply Jst_VJ; eauto).
    destruct (rec_VJS s4 s5 i y4 EJ6 ES6 Hy5) as (y6 & Hy6 & PJ6 & PS6).
    assert (N6 : NoEntry s5 i) by (eapply NoEntry_VJ; eauto).
    assert (Hd6 : i_dest y6 = Some d) by (unfold fiJ in PJ6; injection PJ6 as _ _ _ PJ6 _; exact PJ6).
    destruct space.
    - mstep H as fl0. apply (release_St _ j i d s5 s' (conj J6 S5) N6 ltac:(eauto) H).
    - (* blocked *)
      unfold block_individual in H. mstep H as u2.
      destruct (upd_ind_full _ _ _ _ _ E) as (z & Hz & Ei7 & En7 & Ea7 & El7 & Et7 & Ee7 & Een7). clear E.
      assert (z = y6) by congruence. subst z. set (y7 := y6 <| i_blocked := true |>) in *. pose proof (find_ind_id _ _ _ Hy6) as Hid6.
      assert (J7 : Jst an h [] s6) by (apply (Jst_put_same [] s5 s6 i y6 y7 J6 N6 Hy6 Hid6 eq_refl Ei7 En7 Ee7 Een7 Ea7 El7)).
      assert (S7 : SrvInv cf [] s6).
      { apply (SrvInv_put_ind cf [] [] s5 s6 i y6 y7 S5 Hy6 Hid6 En7 Ei7); [auto| | |intros Hp; exfalso; pose proof (has_space_pre d s4 false s5 Hp Hsp); discriminate].
        - intros j0 n0 sv B1 B2 B3 B4. destruct (si_own _ _ _ S5 j0 n0 sv i B1 B2 B3 B4) as (z & Hz' & P1 & P2 & _).
          assert (z = y6) by congruence. subst z. split; [exact P1|]. split; [exact P2|]. intros Hne. exfalso. apply Hne.
          (* the server is seen from s4 *)
          destruct (VS_node s4 s5 j0 n0 ES6 B1) as (n4 & Hn4 & _ & E1 & _ & _). destruct (srv3_in _ _ _ E1 B3) as (sv4 & Hsv4 & E4).
          unfold srv3 in E4. injection E4 as E41 E42 E43. rewrite <- E43. apply (Hown5 j0 n4 sv4 Hn4 B2 Hsv4). congruence.
        - intros _ _ Hsv. change (i_server y7) with (i_server y6) in Hsv.
          assert (Hsv4 : i_server y4 = None) by (change (i_server y = None); unfold fiS in PS6; injection PS6 as Q1 _ _; congruence).
          destruct (Hblk5 Hsv4) as (n4 & Hn4 & Hor). pose proof (VW_node fnS fiS fgS s4 s5 j ES6) as Hv. rewrite Hn4 in Hv.
          destruct (nodeZ s5 j) as [n5|] eqn:En5; [|discriminate Hv]. cbn in Hv. unfold nv, fnS in Hv. injection Hv as _ _ _ Hv.
          exists j, n5. split; [|split; [exact En5|rewrite Hv; exact Hor]].
          change (i_node y7) with (i_node y6). unfold fiS in PS6. injection PS6 as _ PS6 _. rewrite PS6. exact Hnode. }
      assert (Hy7 : find_ind i (inds s6) = Some y7) by (rewrite Ei7; rewrite <- Hid6 at 1; change (i_id y6) with (i_id y7); apply find_put_same).
      assert (N7 : NoEntry s6 i) by (intros d0 fr He; apply (entry_nodes s5 s6) in He; [exact (N6 d0 fr He)|exact En7]).
      (* the entry in the blocked queue of the destination *)
      unfold upd_node in H. mstep H as dn. match type of H with put_node ?n _ = _ => set (dn1 := n) in * end.
      destruct (put_node_facts _ _ _ _ H) as (Es8 & Ei8 & Ea8 & El8 & Et8 & Ee8 & Een8).
      assert (En8 : nodes s' = updZ (nodes s6) (n_id dn1 - 1) dn1) by (rewrite Es8; reflexivity).
      pose proof (WFx2_Idx _ _ (proj1 J7) _ _ Hn0) as Hidd.
      assert (Hnd : nodeZ s6 (n_id dn1) = Some dn) by (change (n_id dn1) with (n_id dn); rewrite Hidd; exact Hn0).
      assert (HZ8 : forall k, nodeZ s' k = if k =? d then Some dn1 else nodeZ s6 k).
      { intros k. rewrite (nodeZ_upd s6 s' dn1 dn k En8 Hnd). change (n_id dn1) with (n_id dn). rewrite Hidd. reflexivity. }
      assert (Hatn : forall k z, at_node s' k z <-> at_node s6 k z).
      { intros k z. unfold at_node. rewrite HZ8. destruct (Z.eqb_spec k d) as [->|Hne]; [|reflexivity]. split.
        - intros (n & Hnn & Hin). injection Hnn as <-. exists dn. auto.
        - intros (n & Hnn & Hin). assert (n = dn) by congruence. subst n. exists dn1. auto. }
      destruct J7 as (A7 & B7 & C7 & D7). split.
      + split; [|split; [|split]].
        * eapply Conserve2.WFx2_shape; [|exact A7]. unfold Conserve2.shp. rewrite Ee8, Een8, Ea8, Ei8. f_equal.
          rewrite En8. unfold nodeZ in Hnd. destruct (Conserve2.nthZ_nat _ _ _ Hnd) as (kk & Hkk & Hnk). rewrite Hkk, Conserve2.updZ_nat, Conserve2.upd_map.
          apply Conserve2.upd_same. rewrite nth_error_map, Hnk. reflexivity.
        * unfold JI in *. rewrite El8. apply (JH_mono an _ s6 s' B7); [intros k z; apply Hatn|intros k z _; rewrite Ei8; reflexivity|exact Ee8|rewrite Ea8; lia].
        * constructor.
          -- intros d0 fr z (n & Hnn & Hin). rewrite HZ8 in Hnn. rewrite Ei8. destruct (Z.eqb_spec d0 d) as [->|Hne].
             ++ injection Hnn as <-. cbn in Hin. apply in_app_or in Hin as [Hin|[Hin|[]]].
                ** apply (l_ent _ C7 d fr z). exists dn. auto.
                ** injection Hin as <- <-. exists y7. split; [exact Hy7|]. split; [exact Hd6|reflexivity].
             ++ apply (l_ent _ C7 d0 fr z). exists n. auto.
          -- intros d0 n Hnn. rewrite HZ8 in Hnn. destruct (Z.eqb_spec d0 d) as [->|Hne]; [|exact (l_nd _ C7 d0 n Hnn)].
             injection Hnn as <-. cbn. rewrite map_app. cbn. apply NoDup_snoc; [exact (l_nd _ C7 d dn Hn0)|].
             intros Hin. apply in_map_iff in Hin as ([fr z] & Ez & Hin). cbn in Ez. subst z. exact (N7 d fr (ex_intro _ dn (conj Hn0 Hin))).
        * intros k n Hnn. rewrite HZ8 in Hnn. destruct (Z.eqb_spec k d) as [->|Hne]; [injection Hnn as <-; exact (D7 d dn Hn0)|exact (D7 k n Hnn)].
      + apply (SrvInv_VS cf [] s6 s' (VS_put_node s6 s' dn dn1 Hnd eq_refl eq_refl En8 Ei8)). exact S7.
  Qed.

  (* ---------- a customer is taken out of its queue ---------- *)
  Lemma renege_St j s s' : St [] s ->
    (forall nd i x, nodeZ s j = Some nd -> In i (n_next_inds nd) -> find_ind i (inds s) = Some x -> i_blocked x = false /\ i_server x = None) ->
    renege cf j s = Ok (tt, s') -> St [] s'.
  Proof.
    intros [HJ HS] Hpick H. unfold renege in H. mstep H as t0. mstep H as nd.
    pose proof (Jst_Ctx an h _ _ HJ) as HC.
    mstep H as i. pose proof (decide_between_spec _ _ _ _ E) as Hi.
    destruct (carryB cf [] _ s _ s0 (kb_decide_between _) HC HS E) as (HC1 & HS1 & ES1 & EJ1). clear E.
    bstep H HC1 HS1 as ES2 EJ2. bstep H HC1 HS1 as ES3 EJ3. rename a into d.
    assert (EJ03 : VJ s2 = VJ s) by congruence. assert (ES03 : VS s2 = VS s) by congruence.
    assert (J3 : Jst an h [] s2) by (eapply Jst_VJ; eauto).
    mstep H as x. mstep H as nd1. mstep H as q. rename Hl into Hq. mstep H as q'. rename Hl into Hq'.
    assert (Hx0 : exists y0, find_ind i (inds s) = Some y0 /\ fiJ x = fiJ y0 /\ fiS x = fiS y0).
    { destruct (find_ind i (inds s)) as [y0|] eqn:E0.
      - destruct (rec_VJS s s2 i y0 EJ03 ES03 E0) as (y' & Hy' & P1 & P2). assert (y' = x) by congruence. subst y'. eauto.
      - exfalso. pose proof (VJ_find s s2 i EJ03) as Hv. rewrite E0, Hf in Hv. discriminate Hv. }
    destruct Hx0 as (y0 & Hy0 & PJ & PS). destruct (Hpick nd i y0 Hn Hi Hy0) as [Hb0 Hsv0].
    assert (Hb : i_blocked x = false) by (unfold fiS in PS; injection PS as _ _ PS; congruence).
    assert (Hsv : i_server x = None) by (unfold fiS in PS; injection PS as PS _ _; congruence).
    assert (N3 : NoEntry s2 i) by (eapply unblocked_NoEntry; [exact (proj1 (proj2 (proj2 J3)))|exact Hf|exact Hb]).
    (* the customer leaves its queue *)
    mstep H as u0. match type of E with put_node ?n _ = _ => set (nd2 := n) in * end.
    destruct (leave_queue j i s2 s3 nd1 nd2 x (i_pprio x) q q' (conj J3 HS1) N3 Hn0 Hf Hq Hq' eq_refl eq_refl eq_refl eq_refl eq_refl eq_refl E)
      as ([J4 S4] & N4 & Ei4 & El4 & Et4 & Gnode & Glast & Gnrec & Gan).
    clear E HC1 HS1 J3 N3.
    pose proof (Jst_Ctx an h _ _ J4) as HC4. bstep H HC4 S4 as ES5 EJ5.
    assert (J5 : Jst an h [i] s4) by (eapply Jst_VJ; eauto).
    assert (N5 : NoEntry s4 i) by (eapply NoEntry_VJ; eauto).
    assert (Hf4 : find_ind i (inds s3) = Some x) by (rewrite Ei4; exact Hf).
    destruct (rec_VJS s3 s4 i x EJ5 ES5 Hf4) as (x5 & Hx5 & PJ5 & PS5).
    (* exit date and destination *)
    mstep H as u1. destruct (upd_ind_full _ _ _ _ _ E) as (z & Hz & Ei6 & En6 & Ea6 & El6 & Et6 & Ee6 & Een6). clear E.
    assert (z = x5) by congruence. subst z.
    match type of Ei6 with _ = put_ind_l ?x' _ => set (x6 := x') in * end.
    pose proof (find_ind_id _ _ _ Hx5) as Hid5.
    assert (J6 : Jst an h [i] s5) by (apply (Jst_put_away an h [i] s4 s5 i x5 x6 J5 (or_introl eq_refl) N5 Hx5 Hid5 Ei6 En6 Ee6 Een6 Ea6 El6)).
    assert (S6 : SrvInv cf [i] s5).
    { apply (SrvInv_VS cf [i] s4 s5); [|exact S4]. apply (VS_put_ind s4 s5 x5 x6); [change (i_id x6) with (i_id x5); rewrite Hid5; exact Hx5|reflexivity|exact Ei6|exact En6]. }
    assert (Hx6 : find_ind i (inds s5) = Some x6) by (rewrite Ei6; rewrite <- Hid5 at 1; change (i_id x5) with (i_id x6); apply find_put_same).
    assert (N6 : NoEntry s5 i) by (intros d0 fr He; apply (entry_nodes s4 s5) in He; [exact (N5 d0 fr He)|exact En6]).
    clear J4 J5 S4 N4 N5 HC4.
    (* the record *)
    mstep H as u2.
    destruct (wrr_spec j i s5 s6 E) as (xw & r & Hxw & R1 & R2 & R3 & R4 & R5 & R6 & Ei7 & En7 & Ee7 & Een7 & Ea7 & El7 & Et7).
    assert (xw = x6) by congruence. subst xw. clear Hxw.
    set (x7 := x6 <| i_nrec := i_nrec x6 + 1 |>) in *.
    assert (Hrid : r_id r = i) by (rewrite R1; exact Hid5).
    assert (Hlog5 : log s5 = log s2) by (destruct (VJ_glob _ _ EJ5) as (_ & _ & _ & _ & Q5); congruence).
    assert (Hnow5 : now s5 = now s) by (destruct (VJ_glob _ _ EJ5) as (_ & _ & _ & Q4 & _); destruct (VJ_glob _ _ EJ03) as (_ & _ & _ & Q4' & _); congruence).
    assert (Harr : i_arr x5 = i_arr x) by (unfold fiJ in PJ5; injection PJ5 as _ PJ5 _ _ _; exact PJ5).
    assert (Hcl : closing r) by (right; left; exact R2).
    assert (J7 : Jst an h [i] s6).
    { apply (Jst_log_away an h [i] s5 s6 i x6 x7 r J6 (or_introl eq_refl) N6 Hx6 Hid5 Hrid); try assumption.
      - rewrite Hlog5. intros r1 Hr1. unfold lastok in Glast. rewrite Hr1 in Glast. split; [right; right; exact R2|].
        change (i_arr x6) with (i_arr x5) in R4. rewrite Harr in R4.
        destruct Glast as [(G1 & G2 & G3)|(G1 & G2 & G3)]; [left|right].
        + split; [exact G1|]. split; [rewrite R3; exact G2|rewrite R4; exact G3].
        + split; [exact G1|]. split; [rewrite R3; symmetry; exact G2|rewrite R4; symmetry; exact G3].
      - rewrite Hlog5, R3. exact Gan. }
    assert (S7 : SrvInv cf [i] s6) by (exact (proj1 (SrvInv_keepS cf [i] _ s5 tt s6 (ks_write_reneging_record j i) (WFx2_Idx _ _ (proj1 J6)) S6 E))).
    assert (N7 : NoEntry s6 i) by (intros d0 fr He; apply (entry_nodes s5 s6) in He; [exact (N6 d0 fr He)|exact En7]).
    assert (Hx7 : find_ind i (inds s6) = Some x7) by (rewrite Ei7; rewrite <- Hid5 at 1; change (i_id x5) with (i_id x7); apply find_put_same).
    assert (Hrecs7 : recs_of i (h ++ log s6) = recs_of i (h ++ log s2) ++ [r]) by (rewrite El7, Hlog5, app_assoc; apply recs_of_snoc_same; exact Hrid).
    assert (Hlast7 : last_of i (h ++ log s6) = Some r) by (unfold last_of; rewrite Hrecs7; apply last_opt_snoc).
    clear E J6 S6 N6.
    (* attributes reset *)
    mstep H as u3. unfold reset_individual_attributes in E.
    destruct (upd_ind_full _ _ _ _ _ E) as (z & Hz' & Ei8 & En8 & Ea8 & El8 & Et8 & Ee8 & Een8). clear E.
    assert (z = x7) by congruence. subst z.
    match type of Ei8 with _ = put_ind_l ?x' _ => set (x8 := x') in * end.
    assert (J8 : Jst an h [i] s7) by (apply (Jst_put_away an h [i] s6 s7 i x7 x8 J7 (or_introl eq_refl) N7 Hx7 Hid5 Ei8 En8 Ee8 Een8 Ea8 El8)).
    assert (S8 : SrvInv cf [i] s7).
    { apply (SrvInv_VS cf [i] s6 s7); [|exact S7]. apply (VS_put_ind s6 s7 x7 x8); [change (i_id x8) with (i_id x5); rewrite Hid5; exact Hx7|reflexivity|exact Ei8|exact En8]. }
    assert (Hx8 : find_ind i (inds s7) = Some x8) by (rewrite Ei8; rewrite <- Hid5 at 1; change (i_id x5) with (i_id x8); apply find_put_same).
    assert (N8 : NoEntry s7 i) by (intros d0 fr He; apply (entry_nodes s6 s7) in He; [exact (N7 d0 fr He)|exact En8]).
    assert (O8 : NoOwner cf i s7).
    { apply (NoOwner_of cf [i] s7 i x8 S8 Hx8). change (i_server x8) with (i_server x5). unfold fiS in PS5. injection PS5 as PS5 _ _. congruence. }
    clear J7 S7 N7.
    (* the customer lands; the node lets a blocked customer in *)
    mstep H as fl0. mstep H as u4.
    assert (L9 : St [] s8).
    { destruct (d =? -1) eqn:Ed.
      - apply Z.eqb_eq in Ed. destruct (exit_accept_St i false s7 s8 (conj J8 S8) N8 O8) as (A1 & _); [|exact E|exact A1].
        rewrite El8. exists r. split; [exact Hlast7|]. left. split; [exact Hcl|]. rewrite R6. cbn. rewrite Ed. reflexivity.
      - refine (accept_St' _ d i s7 s8 (conj J8 S8) N8 O8 _ E).
        intros y Hy. assert (y = x8) by congruence. subst y. rewrite El8, Hlast7, Hrecs7. split; [|split].
        + left. split; [exact Hcl|]. split; [rewrite R6; reflexivity|]. rewrite R5. cbn. congruence.
        + change (i_nrec x8) with (i_nrec x5 + 1). assert (Hn5 : i_nrec x5 = i_nrec x) by (unfold fiJ in PJ5; injection PJ5 as _ _ PJ5 _ _; exact PJ5).
          rewrite Hn5, Gnrec. unfold zlen. rewrite app_length, Nat2Z.inj_add. reflexivity.
        + intros E0. destruct (recs_of i (h ++ log s2)); discriminate E0. }
    exact (rbi_St _ j s8 s' L9 H).
  Qed.

  (* ---------- schedules and slots (in scope: no interruption) ---------- *)
  Lemma change_shift_St j s s' : St [] s -> change_shift cf j s = Ok (tt, s') -> St [] s'.
  Proof.
    intros [HJ HS] H. destruct (Jst_keepJ an h [] _ s tt s' (kj_change_shift cf j Hsc) HJ H) as (HJ' & _).
    destruct (srv_change_shift cf [] j s s' Hsc (Jst_Ctx an h _ _ HJ) HS H) as (_ & HS' & _). split; assumption.
  Qed.
  Lemma slotted_service_St j s s' : St [] s -> slotted_service cf j s = Ok (tt, s') -> St [] s'.
  Proof.
    intros [HJ HS] H. destruct (Jst_keepJ an h [] _ s tt s' (kj_slotted_service cf j Hsc) HJ H) as (HJ' & _).
    destruct (srv_slotted_service cf [] j s s' Hsc (Jst_Ctx an h _ _ HJ) HS H) as (_ & HS' & _). split; assumption.
  Qed.
  Lemma release_individual_St j i s s' : St [i] s -> NoEntry s i -> NoOwner cf i s ->
    recs_of i (h ++ log s) = [] -> (forall x, find_ind i (inds s) = Some x -> i_nrec x = 0) -> an i = Some j ->
    release_individual cf j i s = Ok (tt, s') -> St [] s'.
  Proof.
    intros HSt HN HO Hfresh Hnrec Han H. unfold release_individual in H.
    mstep H as x. mstep H as nd. mstep H as nc. mstep H as sp.
    destruct (St_carryB [i] _ s sp s0 (kb_sys_population) HSt E) as (St0 & EJ0 & ES0). clear E.
    destruct (rec_VJS s s0 i x EJ0 ES0 Hf) as (x0 & Hx0 & PJ0 & PS0).
    assert (N0 : NoEntry s0 i) by (eapply NoEntry_VJ; eauto). assert (O0 : NoOwner cf i s0) by (eapply NoOwner_VS; eauto).
    assert (Hlog0 : log s0 = log s) by (destruct (VJ_glob _ _ EJ0) as (_ & _ & _ & _ & Q); exact Q).
    assert (Hnrec0 : forall y, find_ind i (inds s0) = Some y -> i_nrec y = 0).
    { intros y Hy. assert (y = x0) by congruence. subst y. unfold fiJ in PJ0. injection PJ0 as _ _ PJ0 _ _. rewrite PJ0. apply Hnrec. exact Hf. }
    clear HSt HN HO.
    (* a baulk / rejection record, then the exit *)
    assert (Hbr : forall ty sa sb sc, (ty = 3 \/ ty = 4) -> St [i] sa -> NoEntry sa i -> NoOwner cf i sa -> log sa = log s ->
              write_br_record j i ty sa = Ok (tt, sb) -> exit_accept i false sb = Ok (tt, sc) -> St [] sc).
    { intros ty sa sb sc Hty [Ja Sa] Na Oa Ela Ew Ex.
      destruct (wbr_spec j i ty sa sb Ew) as (xw & r & Hxw & R1 & R2 & R3 & Ei & En & Ee & Een & Ea & El & Et).
      pose proof (find_ind_id _ _ _ Hxw) as Hidw. assert (Hrid : r_id r = i) by congruence.
      assert (Hrecs : recs_of i (h ++ log sa) = []) by (rewrite Ela; exact Hfresh).
      assert (Jb : Jst an h [i] sb).
      { match type of Ei with _ = put_ind_l ?x' _ => set (xn := x') in * end.
        apply (Jst_log_away an h [i] sa sb i xw xn r Ja (or_introl eq_refl) Na Hxw Hidw Hrid); try assumption.
        - unfold last_of. rewrite Hrecs. discriminate.
        - rewrite R3. intros _. exact Han. }
      assert (Sb : SrvInv cf [i] sb) by (exact (proj1 (SrvInv_keepS cf [i] _ sa tt sb (ks_write_br_record j i ty) (WFx2_Idx _ _ (proj1 Ja)) Sa Ew))).
      assert (Nb : NoEntry sb i) by (intros d0 fr He; apply (entry_nodes sa sb) in He; [exact (Na d0 fr He)|exact En]).
      assert (Ob : NoOwner cf i sb) by (exact (NoOwner_nodes cf i sa sb En Oa)).
      destruct (exit_accept_St i false sb sc (conj Jb Sb) Nb Ob) as (A1 & _); [|exact Ex|exact A1].
      exists r. unfold last_of. rewrite El, app_assoc, (recs_of_snoc_same _ _ _ Hrid), Hrecs. split; [reflexivity|]. right. rewrite R2. exact Hty. }
    (* or the customer is accepted by its first node *)
    assert (Hacc : forall sa sc, St [i] sa -> NoEntry sa i -> NoOwner cf i sa -> log sa = log s -> (forall y, find_ind i (inds sa) = Some y -> i_nrec y = 0) ->
              send_individual cf j i sa = Ok (tt, sc) -> St [] sc).
    { intros sa sc Sta Na Oa Ela Hnr Hm. unfold send_individual in Hm. mstep Hm as u0.
      match type of E with ?m _ = _ => destruct (St_carryB [i] m sa tt s1 ltac:(kv using kb_lem) Sta E) as (St1 & EJ1 & ES1) end.
      mstep Hm as fl0.
      refine (accept_St' _ j i s1 sc St1 (NoEntry_VJ _ _ _ EJ1 Na) (NoOwner_VS cf i _ _ ES1 Oa) _ Hm).
      intros y Hy. assert (Hl1 : log s1 = log s) by (destruct (VJ_glob _ _ EJ1) as (_ & _ & _ & _ & Q); congruence).
      rewrite Hl1. unfold last_of. rewrite Hfresh. split; [exact I|]. split; [|intros _; exact Han].
      pose proof (VJ_find sa s1 i EJ1) as Hv. rewrite Hy in Hv. destruct (find_ind i (inds sa)) as [ya|] eqn:Ea; [|discriminate Hv].
      cbn [option_map] in Hv. unfold fiJ in Hv. injection Hv as _ _ Hv _ _. rewrite Hv. apply Hnr. reflexivity. }
    match type of H with (if ?b then _ else _) _ = _ => destruct b end.
    - mstep H as u1. match goal with E : write_br_record j i ?ty ?sa = Ok (tt, ?sb) |- _ => exact (Hbr ty sa sb s' ltac:(auto) St0 N0 O0 Hlog0 E H) end.
    - mstep H as tabs. mstep H as tab. destruct tab as [tb|].
      + mstep H as u.
        destruct (St_carryB [i] draw_unif s0 u s1 ltac:(kv0) St0 E) as (St1 & EJ1 & ES1). clear E.
        assert (N1 : NoEntry s1 i) by (eapply NoEntry_VJ; eauto). assert (O1 : NoOwner cf i s1) by (eapply NoOwner_VS; eauto).
        assert (Hlog1 : log s1 = log s) by (destruct (VJ_glob _ _ EJ1) as (_ & _ & _ & _ & Q); congruence).
        match type of H with (if ?b then _ else _) _ = _ => destruct b end.
        * mstep H as u1. match goal with E : write_br_record j i ?ty ?sa = Ok (tt, ?sb) |- _ => exact (Hbr ty sa sb s' ltac:(auto) St1 N1 O1 Hlog1 E H) end.
        * apply (Hacc s1 s' St1 N1 O1 Hlog1); [|exact H]. intros y Hy.
          pose proof (VJ_find s0 s1 i EJ1) as Hv. rewrite Hy in Hv. destruct (find_ind i (inds s0)) as [ya|] eqn:Ea; [|discriminate Hv].
          cbn [option_map] in Hv. unfold fiJ in Hv. injection Hv as _ _ Hv _ _. rewrite Hv. apply Hnrec0. reflexivity.
      + exact (Hacc s0 s' St0 N0 O0 Hlog0 Hnrec0 H).
  Qed.

  Lemma batch_loop_St : forall n j c p s s', St [] s -> (forall i, a_created (arr s) < i -> an i = Some j) ->
    batch_loop cf n j c p s = Ok (tt, s') -> St [] s'.
  Proof.
    induction n as [|n IH]; intros j c p s s' HSt Han H; cbn [batch_loop] in H; [apply ret_spec in H as [_ ->]; exact HSt|].
    mstep H as u0. unfold modify in E. injection E as <-.
    set (s1 := s <| arr := arr s <| a_created := a_created (arr s) + 1 |> |>) in *.
    mstep H as i0. change (a_created (arr s1)) with (a_created (arr s) + 1) in H. set (i := a_created (arr s) + 1) in *.
    mstep H as u1. assert (s0 = s1) by (destruct (1 <=? j); [apply ret_spec in E as [_ ->]; reflexivity|discriminate E]). subst s0. clear E.
    mstep H as nd. mstep H as r. apply route_of_same in E. subst s0.
    mstep H as u2. unfold put_ind in E. apply modify_spec in E. set (xn := new_ind i c p r) in *.
    destruct HSt as [(A & B & C & D) HS].
    assert (Hnone : find_ind i (inds s) = None).
    { destruct (find_ind i (inds s)) as [z|] eqn:Ez; [|reflexivity]. pose proof (WFx2_rec_le s i z A Ez). unfold i in *. lia. }
    destruct (Conserve2.spawn_spec s s1 xn A eq_refl eq_refl) as [W4 X4]. rewrite <- E in W4, X4. change (i_id xn) with i in W4.
    assert (Hfo : forall y, y <> i -> find_ind y (inds s0) = find_ind y (inds s)).
    { intros y Hy. rewrite E. cbn. rewrite find_put_other by (change (i_id xn) with i; exact Hy). reflexivity. }
    assert (Hfi : find_ind i (inds s0) = Some xn) by (rewrite E; cbn; change i with (i_id xn) at 1; apply find_put_same).
    assert (Hnodes : nodes s0 = nodes s) by (rewrite E; reflexivity).
    assert (Hlog : log s0 = log s) by (rewrite E; reflexivity).
    assert (St4 : St [i] s0).
    { split; [split; [exact W4|split; [|split]]|].
      - unfold JI in *. rewrite Hlog. apply (JH_mono an _ s s0 B); [intros k y; apply (at_node_nodes s s0); exact Hnodes| |rewrite E; reflexivity|rewrite E; cbn; lia].
        intros k y Hk. apply (at_node_nodes s s0) in Hk; [|exact Hnodes]. pose proof (WFx2_at_le s k y A Hk). rewrite Hfo; [reflexivity|unfold i; lia].
      - destruct C as [C1 C2]. constructor.
        + intros d0 fr y He. apply (entry_nodes s s0) in He; [|exact Hnodes]. destruct (C1 d0 fr y He) as (z & Hz & P). exists z.
          rewrite Hfo; [auto|]. intros ->. congruence.
        + intros d0 n0 Hnn. rewrite (nodeZ_same s s0 d0 Hnodes) in Hnn. exact (C2 d0 n0 Hnn).
      - exact (NoInt_same s s0 Hnodes D).
      - destruct HS as [S1 S2 S3 S4]. constructor; [| | |intros Hp y z Hy; destruct (Z.eq_dec y i) as [->|Hne];
          [assert (z = xn) by congruence; subst z; reflexivity|rewrite Hfo in Hy by exact Hne; exact (S4 Hp y z Hy)]].
        + intros k n0 Hnn. rewrite (nodeZ_same s s0 k Hnodes) in Hnn. exact (S1 k n0 Hnn).
        + intros k n0 sv c0 Hnn Hsl Hin Hc0. rewrite (nodeZ_same s s0 k Hnodes) in Hnn. destruct (S2 k n0 sv c0 Hnn Hsl Hin Hc0) as (z & Hz & P).
          exists z. rewrite Hfo; [auto|]. intros ->. congruence.
        + intros y z Hy Hny Hb Hsv. destruct (Z.eq_dec y i) as [->|Hne]; [exfalso; apply Hny; left; reflexivity|].
          rewrite Hfo in Hy by exact Hne. destruct (S3 y z Hy ltac:(intros []) Hb Hsv) as (k & n0 & P1 & P2 & P3). exists k, n0. rewrite (nodeZ_same s s0 k Hnodes). auto. }
    assert (N4 : NoEntry s0 i).
    { intros d0 fr He. apply (entry_nodes s s0) in He; [|exact Hnodes]. destruct (l_ent _ C d0 fr i He) as (z & Hz & _). congruence. }
    assert (O4 : NoOwner cf i s0).
    { intros k n0 sv Hnn Hsl Hin Hc0. rewrite (nodeZ_same s s0 k Hnodes) in Hnn. destruct (si_own _ _ _ HS k n0 sv i Hnn Hsl Hin Hc0) as (z & Hz & _). congruence. }
    clear E.
    mstep H as u3.
    assert (Hfresh : recs_of i (h ++ log s0) = []).
    { rewrite Hlog. apply recs_of_none. intros r0 Hr. pose proof (j_ids _ _ _ B r0 Hr). unfold i. lia. }
    assert (St5 : St [] s2).
    { apply (release_individual_St j i s0 s2 St4 N4 O4 Hfresh); [|apply Han; unfold i; lia|exact E].
      intros y Hy. assert (y = xn) by congruence. subst y. reflexivity. }
    destruct (Conserve2.tr_release_individual cf j i [] s0 tt s2 I W4 E) as [_ [_ Hle]].
    apply (IH j c p s2 s' St5); [|exact H]. intros i' Hi'. apply Han. destruct X4 as [_ Hle4]. cbn in Hle, Hle4. lia.
  Qed.

  Lemma arrival_have_event_St s s' : St [] s -> (forall i, a_created (arr s) < i -> an i = Some (a_next_node (arr s))) ->
    arrival_have_event cf s = Ok (tt, s') -> St [] s'.
  Proof.
    intros HSt Han H. unfold arrival_have_event in H. mstep H as a. mstep H as b.
    destruct (St_carryB [] draw_batch s b s0 ltac:(kv0) HSt E) as (St0 & EJ0 & _). clear E.
    mstep H as u0. assert (s1 = s0) by (destruct (b <? 0); [discriminate E|apply ret_spec in E as [_ ->]; reflexivity]). subst s1. clear E.
    mstep H as p. mstep H as u1.
    assert (St1 : St [] s1).
    { refine (batch_loop_St _ _ _ _ s0 s1 St0 _ E). intros i Hi. apply Han. destruct (VJ_glob _ _ EJ0) as (_ & _ & Q & _). lia. }
    clear E. mstep H as ia. destruct (St_carryB [] draw_arr s1 ia s2 ltac:(kv0) St1 E) as (St2 & _). clear E.
    mstep H as a'. mstep H as row. mstep H as old. mstep H as u2.
    match type of E with ?m _ = _ => destruct (St_carryB [] m s2 tt s3 ltac:(kv0) St2 E) as (St3 & _) end. clear E.
    exact (proj1 (St_carryB [] _ s3 tt s' kb_find_next_event_date St3 H)).
  Qed.
End WalkR.

Section Pick.
  Variable cf : config.
  Hypothesis Hsc : scope2 cf = true.

  Lemma une_pick j s s' : Ctx [] s -> SrvInv cf [] s -> update_next_event_date cf j s = Ok (tt, s') ->
    inds s' = inds s /\ (forall k, k <> j -> nodeZ s' k = nodeZ s k) /\ (forall nd', nodeZ s' j = Some nd' -> PickN cf s' j nd').
  Proof.
    intros HC HS H. unfold update_next_event_date in H. mstep H as nd. mstep H as nc. mstep H as t0. mstep H as il.
    pose proof (Ctx_Idx _ _ HC _ _ Hn) as Hidn.
    set (inf := nd_inf nd) in *.
    set (es := if nc_slotted nc || inf then scan_inds (now s) (all_individuals nd) (inds s) None [] else scan_servers (n_servers nd) None []) in *.
    mstep H as rn.
    assert (Hrn : s0 = s /\ forall c, In c (snd rn) -> exists x, find_ind c (inds s) = Some x /\ i_server x = None /\ i_blocked x = false).
    { destruct (negb inf && nc_reneging nc) eqn:Ec.
      - apply lift_spec in E as [-> Hl]. split; [reflexivity|]. intros c Hcin. destruct rn as [b l]. cbn in Hcin.
        destruct (scan_ren_in _ _ _ _ _ _ c Hl Hcin) as [[]|[Hq (x & Hx & Hsv)]]. exists x. split; [exact Hx|]. split; [exact Hsv|].
        destruct (i_blocked x) eqn:Eb; [|reflexivity]. exfalso.
        destruct (proj1 (proj2 HC) j c (ex_intro _ nd (conj Hn Hq))) as (x0 & Hx0 & Hk). assert (x0 = x) by congruence. subst x0.
        destruct (si_blk _ _ _ HS c x Hx ltac:(intros []) Eb Hsv) as (k & n & P1 & P2 & [P3|P3]).
        + assert (k = j) by congruence. subst k. assert (n = nd) by congruence. subst n. apply andb_true_iff in Ec as [Ec _]. apply negb_true_iff in Ec. unfold inf in Ec. congruence.
        + assert (k = j) by congruence. subst k. unfold slot_of in P3. rewrite Hc in P3.
          pose proof (scope2_nc _ _ _ Hsc Hc) as Hs. unfold scope_nc in Hs. unfold nc_slotted in P3.
          destruct (nc_srv nc); try discriminate P3. apply andb_true_iff in Hs as [Hs _]. apply andb_true_iff in Hs as [_ Hs]. apply negb_true_iff in Hs.
          apply andb_true_iff in Ec as [_ Ec]. congruence.
      - apply ret_spec in E as [-> ->]. split; [reflexivity|]. intros c []. }
    destruct Hrn as [-> Hrn]. clear E.
    assert (Hes : forall c, In c (snd es) -> forall x, find_ind c (inds s) = Some x -> i_blocked x = false /\ i_node x = Some j).
    { intros c Hcin x Hx. unfold es in Hcin. destruct (nc_slotted nc || inf) eqn:Ec.
      - destruct (scan_inds_in _ _ _ _ _ c Hcin) as [[]|[Hq (x0 & Hx0 & Hb)]]. assert (x0 = x) by congruence. subst x0. split; [exact Hb|].
        destruct (proj1 (proj2 HC) j c (ex_intro _ nd (conj Hn Hq))) as (x0 & Hx0' & Hk). congruence.
      - destruct (scan_servers_in _ _ _ c Hcin) as [[]|(sv & Hsv & Hcu & Hne)]. apply orb_false_iff in Ec as [Ec _].
        assert (Hsl : slot_of cf j = false) by (unfold slot_of; rewrite Hc; exact Ec).
        destruct (si_own _ _ _ HS j nd sv c Hn Hsl Hsv Hcu) as (x0 & Hx0 & _ & P2 & P3). assert (x0 = x) by congruence. subst x0. split; [apply P3; exact Hne|exact P2]. }
    (* the node that is written back *)
    assert (Hfin : forall d l ty, (ty = 0 -> l = snd es) -> (ty = 2 -> l = snd rn) -> (ty = 3 -> cf_dyn cf = true) ->
              put_node (nd <| n_next_date := d |> <| n_next_inds := l |> <| n_next_type := ty |>) s = Ok (tt, s') ->
              inds s' = inds s /\ (forall k, k <> j -> nodeZ s' k = nodeZ s k) /\ (forall nd', nodeZ s' j = Some nd' -> PickN cf s' j nd')).
    { intros d l ty H0 H2 H3 Hp. set (nd1 := nd <| n_next_date := d |> <| n_next_inds := l |> <| n_next_type := ty |>) in *.
      destruct (put_node_facts _ _ _ _ Hp) as (Es & Ei & _).
      assert (En : nodes s' = updZ (nodes s) (n_id nd1 - 1) nd1) by (rewrite Es; reflexivity).
      assert (Hn' : nodeZ s (n_id nd1) = Some nd) by (change (n_id nd1) with (n_id nd); rewrite Hidn; exact Hn).
      assert (HZ : forall k, nodeZ s' k = if k =? j then Some nd1 else nodeZ s k).
      { intros k. rewrite (nodeZ_upd s s' nd1 nd k En Hn'). change (n_id nd1) with (n_id nd). rewrite Hidn. reflexivity. }
      split; [exact Ei|]. split.
      - intros k Hk. rewrite HZ. apply Z.eqb_neq in Hk. rewrite Hk. reflexivity.
      - intros nd' Hnn. rewrite HZ, Z.eqb_refl in Hnn. injection Hnn as <-. split; [|intros Hty; cbn in Hty; exact (H3 Hty)].
        intros c x Hcin Hx. rewrite Ei in Hx. cbn in Hcin. split.
        + intros Hty. cbn in Hty. rewrite (H0 Hty) in Hcin. exact (Hes c Hcin x Hx).
        + intros Hty. cbn in Hty. rewrite (H2 Hty) in Hcin. destruct (Hrn c Hcin) as (x0 & Hx0 & P1 & P2). assert (x0 = x) by congruence. subst x0. auto. }
    destruct (nc_reneging nc || cf_dyn cf || nc_sched nc).
    - match type of H with context [decide_next_event ?cands ?best] => destruct (dne_in cands best) as [Hd|[Hd Hne]]; destruct (decide_next_event cands best) as [ty [d l]] end.
      + injection Hd as -> -> ->. apply (Hfin None [] 5); [intros Hx; discriminate Hx|intros Hx; discriminate Hx|intros Hx; discriminate Hx|exact H].
      + cbn in Hne. apply (fun A B C => Hfin d l ty A B C H).
        * intros ->. apply in_app_or in Hd as [Hd|Hd].
          -- destruct (nc_srv nc); cbn in Hd; [destruct Hd|destruct Hd as [Hd|[]]; discriminate Hd|destruct Hd as [Hd|[]]; discriminate Hd].
          -- destruct Hd as [Hd|[Hd|[Hd|[]]]]; [injection Hd as Hd; rewrite Hd; reflexivity|discriminate Hd|discriminate Hd].
        * intros ->. apply in_app_or in Hd as [Hd|Hd].
          -- destruct (nc_srv nc); cbn in Hd; [destruct Hd|destruct Hd as [Hd|[]]; discriminate Hd|destruct Hd as [Hd|[]]; discriminate Hd].
          -- destruct Hd as [Hd|[Hd|[Hd|[]]]]; [discriminate Hd|discriminate Hd|injection Hd as Hd; rewrite Hd; reflexivity].
        * intros ->. apply in_app_or in Hd as [Hd|Hd].
          -- destruct (nc_srv nc); cbn in Hd; [destruct Hd|destruct Hd as [Hd|[]]; discriminate Hd|destruct Hd as [Hd|[]]; discriminate Hd].
          -- destruct Hd as [Hd|[Hd|[Hd|[]]]]; [discriminate Hd| |discriminate Hd].
             destruct (cf_dyn cf); [reflexivity|]. cbn in Hd. injection Hd as Hd _. congruence.
    - apply (Hfin (fst es) (snd es) 0); [intros _; reflexivity|intros Hx; discriminate Hx|intros Hx; discriminate Hx|exact H].
  Qed.
End Pick.
Lemma update_all_pick cf : scope2 cf = true -> forall js s s', Ctx [] s -> SrvInv cf [] s -> update_all cf js s = Ok (tt, s') ->
  forall k, (In k js \/ PickAt cf s k) -> PickAt cf s' k.
Proof.
  intros Hsc. induction js as [|j r IH]; intros s s' HC HS H k Hk; cbn [update_all] in H.
  - apply ret_spec in H as [_ ->]. destruct Hk as [[]|Hk]. exact Hk.
  - mstep H as u0. destruct (une_pick cf Hsc j s s0 HC HS E) as (Ei & Hoth & Hj).
    destruct (carryB cf [] _ s tt s0 (kb_update_next_event_date cf j) HC HS E) as (HC0 & HS0 & _ & _).
    apply (IH s0 s' HC0 HS0 H k). destruct (Z.eq_dec k j) as [->|Hne]; [right; exact Hj|].
    destruct Hk as [[Hk|Hk]|Hk]; [congruence|left; exact Hk|right].
    intros nd Hn. rewrite (Hoth k Hne) in Hn. destruct (Hk nd Hn) as [Hk1 Hk2]. split; [|exact Hk2]. intros i x Hi Hx. rewrite Ei in Hx. exact (Hk1 i x Hi Hx).
Qed.

Section Event.
  Variable cf : config.
  Hypothesis Hsc : scope2 cf = true.

  Lemma node_have_event_St an h j s s' : St cf an h [] s -> PickOK cf s -> node_have_event cf j s = Ok (tt, s') -> St cf an h [] s'.
  Proof.
    intros HSt HP H. unfold node_have_event in H. mstep H as nd.
    destruct (n_next_type nd =? 0) eqn:E0.
    { apply Z.eqb_eq in E0. apply (finish_service_St cf an h Hsc j s s' HSt); [|exact H].
      intros nd0 i x Hn0 Hi Hx. assert (nd0 = nd) by congruence. subst nd0. exact (proj1 (proj1 (HP j nd Hn) i x Hi Hx) E0). }
    destruct (n_next_type nd =? 1); [exact (change_shift_St cf an h Hsc j s s' HSt H)|].
    destruct (n_next_type nd =? 2) eqn:E2.
    { apply Z.eqb_eq in E2. apply (renege_St cf an h Hsc j s s' HSt); [|exact H].
      intros nd0 i x Hn0 Hi Hx. assert (nd0 = nd) by congruence. subst nd0. exact (proj2 (proj1 (HP j nd Hn) i x Hi Hx) E2). }
    destruct (n_next_type nd =? 3) eqn:E3.
    { apply Z.eqb_eq in E3. pose proof (proj2 (HP j nd Hn) E3) as Hdyn.
      assert (Hnp : preempts cf = false) by (destruct (preempts cf) eqn:Ep; [|reflexivity]; pose proof (proj2 (scope2_pre cf Hsc Ep)); congruence).
      exact (ccww_St cf an h j s s' Hnp HSt H). }
    destruct (n_next_type nd =? 4); [exact (slotted_service_St cf an h Hsc j s s' HSt H)|].
    apply ret_spec in H as [_ ->]. exact HSt.
  Qed.

  (* one event: the history is extended by the records of the event *)
  Lemma event_step_Jrn2r an h s s' : Jrn2 cf an s h ->
    (next_active s = 0 -> forall i, a_created (arr s) < i -> an i = Some (a_next_node (arr s))) ->
    event_step cf s = Ok (tt, s') -> Jrn2 cf an s' (h ++ log s').
  Proof.
    intros HJ Han H. unfold event_step in H. mstep H as u0. unfold modify in E. injection E as <-.
    set (s0 := s <| log := [] |>) in *.
    assert (HJ0 : Jrn2 cf an s0 h) by (apply (Jrn2_same cf an s s0 h); try reflexivity; exact HJ).
    destruct HJ0 as (A & B & C & D & E & F).
    assert (St0 : St cf an h [] s0).
    { split; [split; [exact A|split; [|split; [exact C|exact D]]]|exact E]. unfold JI. change (log s0) with (@nil rec). rewrite app_nil_r. exact B. }
    mstep H as k. mstep H as u1.
    assert (St1 : St cf an h [] s1).
    { destruct (next_active s0 =? 0) eqn:Ek.
      - apply Z.eqb_eq in Ek. apply (arrival_have_event_St cf an h Hsc s0 s1 St0); [|exact E0]. exact (Han Ek).
      - exact (node_have_event_St an h _ s0 s1 St0 F E0). }
    clear E0. mstep H as ns. mstep H as u2.
    destruct (St_carryB cf an h [] _ s1 tt s2 (kb_update_all cf _) St1 E0) as (St2 & EJ2 & _).
    assert (P2 : PickOK cf s2).
    { intros j nd' Hn'. destruct (VJ_node _ _ _ _ EJ2 Hn') as (nd & Hn & Eid & _).
      pose proof (WFx2_Idx _ _ (proj1 (proj1 St1)) _ _ Hn) as Hidn.
      apply (update_all_pick cf Hsc _ s1 s2 (St_Ctx cf an h [] s1 St1) (proj2 St1) E0 j); [|exact Hn'].
      left. rewrite <- Hidn. apply in_map. eapply nthZ_In; exact Hn. }
    clear E0.
    destruct (fnan_spec _ _ H) as (En & Ei & El & Ee & Een & Ea).
    apply (Jrn2_same cf an s2 s' (h ++ log s')); [exact En|exact Ei|exact Ee|exact Een|rewrite Ea; reflexivity|].
    destruct St2 as [(A2 & B2 & C2 & D2) E2]. rewrite El. split; [exact A2|]. split; [exact B2|]. split; [exact C2|]. split; [exact D2|]. split; [exact E2|exact P2].
  Qed.
End Event.

Theorem event_step_jrn2r cf an s s' h : scope2 cf = true -> Jrn2 cf an s h -> event_step cf s = Ok (tt, s') ->
  Jrn2 cf (an_step s an) s' (h ++ log s').
Proof.
  intros Hsc (A & B & C & D & E & F) H.
  apply (event_step_Jrn2r cf Hsc (an_step s an) h s s'); [|intros H0 i Hi; apply an_step_new; assumption|exact H].
  split; [exact A|]. split; [|auto]. apply (JH_an_ext an _ _ _ A); [|exact B]. intros i Hi. apply an_step_old. exact Hi.
Qed.


Theorem run_hist_jrn2r cf : scope2 cf = true -> forall ds s h an s' h' an', Jrn2 cf an s h -> run_hist cf s h an ds = Ok (s', h', an') -> Jrn2 cf an' s' h'.
Proof.
  intros Hsc. induction ds as [|d r IH]; intros s h an s' h' an' HJ H; cbn [run_hist] in H; [injection H as <- <- <-; exact HJ|].
  destruct (event_step cf (s <| dr := d |>)) as [[u s1]| |] eqn:E; try discriminate. destruct u.
  eapply IH; [|exact H]. exact (event_step_jrn2r cf an _ s1 h Hsc (Jrn2_dr _ _ _ _ d HJ) E).
Qed.
(* the same for Codec2.run_many: the final state satisfies the invariant for the accumulated history *)
Theorem run_many_jrn2r cf ds s h an s' : scope2 cf = true -> Jrn2 cf an s h -> run_many cf s ds = Ok s' ->
  exists h' an', run_hist cf s h an ds = Ok (s', h', an') /\ Jrn2 cf an' s' h' /\ exists t, h' = h ++ t.
Proof.
  intros Hsc HJ H. destruct (run_many_hist cf ds s h an s' H) as (h' & an' & Hh). exists h', an'. split; [exact Hh|].
  split; [eapply run_hist_jrn2r; eauto|eapply run_hist_grows; eauto].
Qed.
Theorem engine_journey2r cf ds s h an s' h' an' : scope2 cf = true -> Jrn2 cf an s h -> run_hist cf s h an ds = Ok (s', h', an') ->
  run_many cf s ds = Ok s' /\ (exists t, h' = h ++ t) /\ Jrn2 cf an' s' h'.
Proof.
  intros Hsc HJ H. split; [eapply run_hist_many; eauto|]. split; [eapply run_hist_grows; eauto|eapply run_hist_jrn2r; eauto].
Qed.


(* ====================================================================================================================
   5. In the words of the property; the executable test
   ==================================================================================================================== *)
(* the invariant is Journey2's, so its reading (clauses (0)-(5) of C03) is Journey2.Jrn2_means, word for word *)
Theorem Jrn2r_means cf an s h : Jrn2 cf an s h ->
  ltac:(match type of (Jrn2_means cf an s h) with _ -> ?c => exact c end).
Proof. exact (Jrn2_means cf an s h). Qed.
(* what is new for rerouting: an interruption record that names a destination d is directly followed, in its customer's
   records, by a record AT d whose visit began at the instant of the interruption *)
Theorem reroute_record_followed cf an s h i l1 r1 r2 l2 d : Jrn2 cf an s h -> recs_of i h = l1 ++ r1 :: r2 :: l2 ->
  r_type r1 = 1 -> r_dest r1 = Some d -> visit r2 /\ r_node r2 = d /\ r_arr r2 = r_exit r1.
Proof.
  intros HJ Hr Ht Hd. destruct (Jrn2_means cf an s h HJ) as (_ & C1 & _).
  destruct (C1 i l1 r1 r2 l2 Hr) as (V & [(_ & D1 & D2)|((_ & D0) & _)]); [|congruence].
  split; [exact V|]. split; [congruence|auto].
Qed.
(* any run in scope, read in the words of C03 *)
Theorem engine_journey2r_means cf ds s h an s' h' an' : scope2r cf = true -> Jrn2 cf an s h -> run_hist cf s h an ds = Ok (s', h', an') ->
  ltac:(match type of (Jrn2_means cf an' s' h') with _ -> ?c => exact c end).
Proof. intros Hsc HJ H. exact (Jrn2_means cf an' s' h' (run_hist_jrn2r cf Hsc ds s h an s' h' an' HJ H)). Qed.

Definition jrn2r_b := jrn2_b.
Theorem jrn2r_b_sound cf an s h : jrn2r_b cf an s h = true -> Jrn2 cf an s h.
Proof. apply jrn2_b_sound. Qed.

(* ====================================================================================================================
   6. Examples
   Two nodes, one server each; class 0 has priority over class 1; node 1 pre-empts by REROUTING, node 2 does not pre-empt; both
   classes are routed 1 -> 2 -> exit.  Customer 1 (class 1) arrives at node 1 at t = 1 and starts a service of 30; customer 2
   (class 0) arrives at t = 2 and pre-empts it: customer 1 gets an interruption record at node 1 (type 1, arrival 1, exit 2)
   that names node 2, is accepted at node 2 at t = 2 and served there until 32, then leaves: service record at node 2 (arrival
   2 = the exit date of the interruption record, destination -1).  Customer 2 is served at node 1 until 42 and at node 2 until 72.
   ==================================================================================================================== *)
Definition rx_cf : config :=
  mkCfg 2 [ mkNcfg None None 0 SFixed 4 false [false; false] 0; mkNcfg None None 0 SFixed 0 false [false; false] 0 ]
    [0; 1] 2 None [ RtNR [RDirect 2; RLeave]; RtNR [RDirect 2; RLeave] ]
    [ [None; None]; [None; None] ] false [ [false; false]; [false; false] ].
Definition rx_s0 : sim :=
  mkSim 1 0 (mkArr 0 0 [[Some 2; Some 1]; [None; None]] 1 1 (Some 1)) [Conserve2.ex_node 1; Conserve2.ex_node 2] [] 0 0 []
        (mkDraws [] [] [] [] [] []) [] [[0; 0]; [0; 0]].
Definition rx_d : draws := mkDraws [1000] [1] [30; 40] [0; 0] [] [].

Example rx_scope : scope2r rx_cf = true /\ Journey2.scope2 rx_cf = false. Proof. vm_compute. auto. Qed.
Example rx_start : jrn2r_b rx_cf jx_an0 rx_s0 [] = true. Proof. vm_compute. reflexivity. Qed.
Example rx_Jrn2 : Jrn2 rx_cf jx_an0 rx_s0 []. Proof. apply jrn2r_b_sound. vm_compute. reflexivity. Qed.
(* (id, node, type, arrival, exit, destination) *)
Example rx_run : exists s h an, run_hist rx_cf rx_s0 [] jx_an0 (repeat rx_d 5) = Ok (s, h, an) /\
  map jx_view (recs_of 1 h) = [(1, 1, 1, Some 1, Some 2, Some 2); (1, 2, 0, Some 2, Some 32, Some (-1))] /\
  map jx_view (recs_of 2 h) = [(2, 1, 0, Some 2, Some 42, Some 2); (2, 2, 0, Some 42, Some 72, Some (-1))] /\
  exit_ids s = [1; 2] /\ jrn2r_b rx_cf an s h = true.
Proof. eexists. eexists. eexists. split; [vm_compute; reflexivity|]. vm_compute. auto 7. Qed.
(* the instant after the pre-emption: customer 1 is in node 2, its only record is the interruption record naming node 2 *)
Example rx_mid : exists s h an, run_hist rx_cf rx_s0 [] jx_an0 (repeat rx_d 2) = Ok (s, h, an) /\
  map jx_view h = [(1, 1, 1, Some 1, Some 2, Some 2)] /\ map all_individuals (nodes s) = [[2]; [1]] /\ jrn2r_b rx_cf an s h = true.
Proof. eexists. eexists. eexists. split; [vm_compute; reflexivity|]. vm_compute. auto. Qed.
(* the same by the theorem (not by computation), for any number of events *)
Example rx_thm : forall n s h an, run_hist rx_cf rx_s0 [] jx_an0 (repeat rx_d n) = Ok (s, h, an) -> Jrn2 rx_cf an s h.
Proof. intros n s h an H. exact (run_hist_jrn2r rx_cf (proj1 rx_scope) _ _ _ _ _ _ _ rx_Jrn2 H). Qed.
(* in particular the records of the rerouted customer chain, and its interruption record is followed by a record at node 2 *)
Example rx_chain : forall n s h an, run_hist rx_cf rx_s0 [] jx_an0 (repeat rx_d n) = Ok (s, h, an) -> forall i, chain (recs_of i h).
Proof. intros n s h an H i. destruct (rx_thm n s h an H) as (_ & HJ & _). exact (j_chain _ _ _ HJ i). Qed.
Example rx_many : exists s, run_many rx_cf rx_s0 (repeat rx_d 5) = Ok s /\ exit_ids s = [1; 2].
Proof. eexists. split; [vm_compute; reflexivity|]. reflexivity. Qed.
(* Journey2's networks are still in scope *)
Example jx_scope2r : scope2r jx_cf = true /\ scope2r Conserve2.ex_cf = true. Proof. vm_compute. auto. Qed.

(* Finding F-11a (reroute into the SAME node; Order2.f11_cf: one node, RDirect 1) is outside scope2r.  It is NOT a witness against
   the journey statement: on the F-11a run the pre-emptor is started twice (Preempt2r.reroute_same_node_refuted), yet the whole
   executable invariant - journey clauses, blocked queues, server invariant - holds after the double start and after the next three
   events (the victim's records: interruption at node 1 naming node 1, each followed by a record at node 1 beginning at that instant) *)
Definition f11_ds (k : nat) : list draws := mkDraws [1000] [1] [100] [] [] [] :: repeat (mkDraws [1000] [1] [30; 40; 50] [0; 0] [] []) k.
Example f11a_not_a_witness : scope2r Order2.f11_cf = false /\ jrn2r_b Order2.f11_cf jx_an0 Order2.f11_s0 [] = true /\
  forallb (fun k => match run_hist Order2.f11_cf Order2.f11_s0 [] jx_an0 (f11_ds k) with
                    | Ok (s, h, an) => jrn2r_b Order2.f11_cf an s h | _ => false end) [1; 2; 3; 4]%nat = true /\
  exists s h an, run_hist Order2.f11_cf Order2.f11_s0 [] jx_an0 (f11_ds 2) = Ok (s, h, an) /\
    map jx_view h = [(1, 1, 1, Some 1, Some 2, Some 1); (2, 1, 0, Some 2, Some 32, Some 1); (1, 1, 1, Some 2, Some 32, Some 1)].
Proof.
  split; [vm_compute; reflexivity|]. split; [vm_compute; reflexivity|]. split; [vm_compute; reflexivity|].
  eexists. eexists. eexists. split; vm_compute; reflexivity.
Qed.

(* ====================================================================================================================
   7. Part B (pre-emptive CAPACITATED SLOTS): function level only -- slotted_service_journey_partial.
   A slot event of ANY slot table with sl_pre <> 4 (pre-emptive capacitated tables included; Slotted.__init__ rejects `reroute`)
   keeps the JOURNEY part of the state, Journey2s.Jst = conservation (Conserve2.WFx2) + the journey invariant JH over the history
   extended by the event's log + the blocked-queue invariant Lq, from EVERY state that satisfies it: each interrupted customer is
   taken from the queues of the node, gets one continuation record (type 1, no destination) of its present visit, and nobody moves;
   the restarts in slot_loop write no record.  No scope, no hypothesis on the draws.
   What is MISSING for a run theorem (event_step / engine level) with pre-emptive capacitated slots: Journey2's invariant Jrn2
   contains NoInt (no interrupted customer anywhere), which such a slot falsifies (the interrupted customers stay on the node's list
   until a later slot has room), and the server part (SrvInv, PickOK) needs, for the customers on the list of a slotted node, "is a
   customer of that node" and "has no service start / end date" (so that update_next_event_date does not pick it and the restart,
   which sets the server mark -1, does not hit a customer held by a real server elsewhere): i_sst / i_send are outside the views of
   this proof family (every start block writes them), so that invariant needs its own walk through all engine functions.
   ==================================================================================================================== *)
Section SlotB.
  Variable cf : config.
  Variable an : Z -> option Z.
  Variable h : list rec.
  Notation JstB := (Journey2s.Jst an h []).
  Notation keepJb := (keepV Journey2s.fnJ fiJ fgJ).
  Notation VJb := (VW Journey2s.fnJ fiJ fgJ).

  Lemma JstB_keep {X} (m : M X) s a s' : keepJb KT m -> JstB s -> m s = Ok (a, s') -> JstB s' /\ VJb s' = VJb s.
  Proof.
    intros Hm HJ H. assert (E : VJb s' = VJb s) by (apply (Hm s a s'); [eapply WFx2_vidx; exact (proj1 HJ)|exact I|exact H]).
    split; [exact (Journey2s.Jst_VJ an h [] s s' E HJ)|exact E].
  Qed.
  Ltac jbstep E HJ Jn EJn :=
    match type of E with
    | ?m ?s0 = Ok (?a, ?s1) =>
      let Hm := fresh "Hm" in
      assert (Hm : keepV Journey2s.fnJ fiJ fgJ KT m) by kv0;
      destruct (JstB_keep m s0 a s1 Hm HJ E) as (Jn & EJn); clear Hm
    end.
  Lemma kjb_slot_loop k j : keepJb KT (slot_loop cf k j).
  Proof.
    induction k as [|k IH]; cbn [slot_loop]; [apply kv_ret|].
    kv using first [apply IH | (apply Journey2s.kb_kj; Journey2s.kb_lem)].
  Qed.

  (* one interruption (resume / restart / resample): a continuation record for a customer that stays in node j *)
  Lemma interrupt_service_JB fuel j i pre s s' : (pre =? 4) = false -> JstB s -> at_node s j i ->
    interrupt_service cf fuel j i pre s = Ok (tt, s') -> JstB s' /\ (forall y, at_node s j y -> at_node s' j y).
  Proof.
    intros Hpre HJ Hat H. unfold interrupt_service in H. rewrite Hpre in H.
    mstep H as t0. mstepN H u0 sa.
    jbstep E HJ Ja EJa. clear E.
    mstepN H u1 sb. jbstep E Ja Jb EJb. clear E.
    mstepN H u2 sc. jbstep E Jb Jc EJc. clear E.
    assert (EJ : VJb sc = VJb s) by congruence.
    assert (Hatc : forall y, at_node s j y -> at_node sc j y) by (intros y Hy; exact (Journey2s.VJ_at sc s j y (eq_sym EJ) Hy)).
    mstepN H u3 sd.
    destruct (Journey2.wint_spec cf j i None sc sd E) as (x & r & Hx & R1 & R2 & R3 & R4 & R5 & R6 & Ei & En & Ee & Een & Ea & El & Et).
    assert (Jd : JstB sd).
    { apply (Journey2s.Jst_log_inplace an h sc sd j i x _ r Jc (Hatc i Hat) Hx ltac:(rewrite R1; exact (find_ind_id _ _ _ Hx)) (conj R2 R6) R3 R4 eq_refl Ei En Ee Een Ea El). }
    clear E.
    mstepN H u4 se. jbstep E Jd Je EJe. clear E.
    jbstep H Je J' EJ'.
    split; [exact J'|]. intros y Hy. apply (Journey2s.VJ_at s' se j y (eq_sym EJ')). apply (Journey2s.VJ_at se sd j y (eq_sym EJe)).
    apply (at_node_nodes sc sd); [exact En|]. exact (Hatc y Hy).
  Qed.
  Lemma forM_interrupt_JB fuel j pre : (pre =? 4) = false -> forall l s s', JstB s -> (forall i, In i l -> at_node s j i) ->
    forM_ l (fun i => interrupt_service cf fuel j i pre) s = Ok (tt, s') -> JstB s'.
  Proof.
    intros Hpre. induction l as [|i r IH]; intros s s' HJ Hl H; cbn [forM_] in H; [apply ret_spec in H as [_ ->]; exact HJ|].
    mstepN H u0 sa. destruct (interrupt_service_JB fuel j i pre s sa Hpre HJ (Hl i (or_introl eq_refl)) E) as (Ja & Hk).
    apply (IH sa s' Ja); [|exact H]. intros y Hy. apply Hk. apply Hl. right. exact Hy.
  Qed.

  (* the sorted victims are customers of the node *)
  Lemma ins_key_desc_in k i : forall l p, In p (ins_key_desc k i l) -> p = (k, i) \/ In p l.
  Proof.
    induction l as [|[k' i'] r IH]; intros p Hp; cbn [ins_key_desc] in Hp; [destruct Hp as [<-|[]]; auto|].
    destruct (key_ge k' k).
    - destruct Hp as [<-|Hp]; [right; left; reflexivity|]. destruct (IH p Hp) as [E|Hin]; [left; exact E|right; right; exact Hin].
    - destruct Hp as [<-|Hp]; [left; reflexivity|right; exact Hp].
  Qed.
  Lemma sort_desc_in : forall l acc p, In p (fold_left (fun a q => ins_key_desc (fst q) (snd q) a) l acc) -> In p acc \/ In (snd p) (map snd l).
  Proof.
    induction l as [|q r IH]; intros acc p Hp; cbn [fold_left] in Hp; [left; exact Hp|].
    destruct (IH _ p Hp) as [Hin|Hin]; [|right; right; exact Hin].
    destruct (ins_key_desc_in _ _ _ _ Hin) as [->|Hin']; [right; left; reflexivity|left; exact Hin'].
  Qed.
  Lemma sort_by_key_desc_in l i : In i (sort_by_key_desc l) -> In i (map snd l).
  Proof.
    unfold sort_by_key_desc. intros Hi. apply in_map_iff in Hi as (p & <- & Hp). destruct (sort_desc_in l [] p Hp) as [[]|Hin]. exact Hin.
  Qed.
  Lemma keyed_spec : forall l s kl s', keyed l s = Ok (kl, s') -> s' = s /\ map snd kl = l.
  Proof.
    unfold keyed. induction l as [|a r IH]; intros s kl s' H; cbn [mapM] in H; [apply ret_spec in H as [-> ->]; auto|].
    mstep H as b. mstep E as x. apply ret_spec in E as [-> ->]. mstep H as bs. destruct (IH _ _ _ E) as [-> Hm].
    apply ret_spec in H as [-> ->]. split; [reflexivity|]. cbn. rewrite Hm. reflexivity.
  Qed.

  Lemma firstn_in {A} : forall n (l : list A) x, In x (firstn n l) -> In x l.
  Proof.
    induction n as [|n IH]; intros l x Hx; [destruct Hx|]. destruct l as [|a l]; [destruct Hx|]. cbn [firstn] in Hx.
    destruct Hx as [->|Hx]; [left; reflexivity|right; apply IH; exact Hx].
  Qed.

  Theorem slotted_service_journey_partial j s s' :
    (forall nc sl, nthZ (cf_nodes cf) (j - 1) = Some nc -> nc_srv nc = SSlot sl -> (sl_pre sl =? 4) = false) ->
    JstB s -> slotted_service cf j s = Ok (tt, s') -> JstB s' /\ Conserve2.WFx2 [] s' /\ JH an (h ++ log s') s' /\ Lq s'.
  Proof.
    intros Hp4 HJ H. cut (JstB s'); [intros (A & B & C); split; [split; [exact A|split; [exact B|exact C]]|split; [exact A|split; [exact B|exact C]]]|].
    unfold slotted_service in H. mstep H as nc. destruct (nc_srv nc) as [|sc|sl] eqn:Esrv; try discriminate H.
    pose proof (Hp4 nc sl Hc Esrv) as Hpre.
    mstep H as nd. mstep H as u0.
    assert (s0 = s) by (destruct (sl_b sl); [discriminate E|apply ret_spec in E as [_ ->]; reflexivity]). subst s0. clear E.
    mstepN H u1 sa.
    assert (Ja : JstB sa).
    { destruct (sl_cap sl && negb (sl_pre sl =? 0)); [|apply ret_spec in E as [_ ->]; exact HJ].
      destruct (0 <? n_insvc nd - fst (slot_values sl (Z.to_nat (n_spos nd)))); [|apply ret_spec in E as [_ ->]; exact HJ].
      mstep E as il. mstep E as kl. apply keyed_spec in E0 as [-> Hkl]. mstep E as fl.
      eapply (forM_interrupt_JB _ j (sl_pre sl) Hpre); [exact HJ| |exact E].
      intros i Hi. apply firstn_in in Hi. apply sort_by_key_desc_in in Hi. rewrite Hkl in Hi. apply filter_In in Hi as [Hi _].
      exists nd. split; [exact Hn|exact Hi]. }
    clear E. mstepN H u2 sb. destruct (JstB_keep _ sa tt sb (kjb_slot_loop _ j) Ja E) as (Jb & _). clear E.
    jbstep H Jb J' EJ'. exact J'.
  Qed.
End SlotB.

(* Why Part B cannot keep Journey2's invariant as it is: the network of Slot2.slot_example (pre-emptive capacitated slots, option
   resume; outside scope2r only by that).  The initial state satisfies Jrn2; after seven events (slot 4, size 1, two in service)
   customer 2 has been interrupted - continuation record (2, node 1, type 1, arrival 1, exit 10, no destination) - and sits on
   the interrupted list: NoInt, hence Jrn2, is FALSE there, while conservation, the journey invariant proper and the blocked-queue
   invariant hold (as slotted_service_journey_partial says); one event later (slot 5 resumes it) all of Jrn2 holds again.
   Known region (Journey2.v / Journey2s.v headers: "pre-emptive capacitated slots need an invariant for the interrupted list"). *)
Lemma noint_b_complete s : NoInt s -> noint_b s = true.
Proof.
  intros HN. unfold noint_b. apply forallb_forall. intros nd Hin. apply Z.leb_le. apply In_nth_error in Hin as (n & Hn).
  apply (HN (Z.of_nat n + 1) nd). unfold nodeZ, nthZ. destruct (Z.of_nat n + 1 - 1 <? 0) eqn:E; [apply Z.ltb_lt in E; lia|].
  replace (Z.of_nat n + 1 - 1) with (Z.of_nat n) by lia. rewrite Nat2Z.id. exact Hn.
Qed.
Theorem jrn2_not_kept_by_preemptive_slot :
  exists s h an, scope2r (Slot2.ex_cf 1) = false /\ Jrn2 (Slot2.ex_cf 1) jx_an0 Slot2.ex_s0 [] /\
    run_hist (Slot2.ex_cf 1) Slot2.ex_s0 [] jx_an0 (firstn 7 Slot2.ex_ds) = Ok (s, h, an) /\
    map jx_view (recs_of 2 h) = [(2, 1, 1, Some 1, Some 10, None)] /\ map n_interrupted (nodes s) = [[2]; []] /\
    ~ Jrn2 (Slot2.ex_cf 1) an s h /\
    Conserve2.wfx2_b s = true /\ jh_b an s h = true /\ lq_b s = true /\
    match run_hist (Slot2.ex_cf 1) Slot2.ex_s0 [] jx_an0 (firstn 8 Slot2.ex_ds) with Ok (s8, h8, an8) => jrn2_b (Slot2.ex_cf 1) an8 s8 h8 | _ => false end = true.
Proof.
  eexists. eexists. eexists. split; [vm_compute; reflexivity|]. split; [apply jrn2_b_sound; vm_compute; reflexivity|].
  split; [vm_compute; reflexivity|]. split; [vm_compute; reflexivity|]. split; [vm_compute; reflexivity|].
  split; [|vm_compute; auto].
  intros (_ & _ & _ & HN & _). apply noint_b_complete in HN. vm_compute in HN. discriminate HN.
Qed.

(* The other region rt_ok leaves out - a destination that has reroute pre-emption of its own - is not a witness either.  Two
   nodes, both with option reroute, routed 1 -> 2 and 2 -> 1, three priority classes.  Customer 1 (priority 2) is served at node 2,
   customer 2 (priority 1) at node 1; customer 3 (priority 0) arrives at node 1 at t = 3: it pre-empts 2, which is rerouted to
   node 2 and pre-empts 1 there, which is rerouted BACK to node 1 while customer 3 still waits for the server customer 2 left:
   its re-acceptance starts customer 3, and preempt() starts customer 3 again (F-11a through a cycle; number_in_service of
   node 2 ends at 0 with customer 2 in service, F-09b).  The executable invariant holds after each of the first five events;
   the records: (2, node 1, interruption, 2..3, to 2), (1, node 2, interruption, 1..3, to 1), later service records. *)
Definition cy_nc : ncfg := mkNcfg None None 0 SFixed 4 false [false; false; false] 0.
Definition cy_cf : config :=
  mkCfg 3 [cy_nc; cy_nc] [0; 1; 2] 3 None
    [RtNR [RDirect 2; RDirect 1]; RtNR [RDirect 2; RDirect 1]; RtNR [RDirect 2; RDirect 1]]
    [[None; None]; [None; None]; [None; None]] false [[false; false; false]; [false; false; false]; [false; false; false]].
Definition cy_node (j : Z) : node :=
  mkNode j 0 0 [[]; []; []] [Conserve2.ex_srv] [] 0 None [] (Some 1) 1 [] 0 [] [] [] 0 None 0 None None.
Definition cy_s0 : sim :=
  mkSim 1 0 (mkArr 0 0 [[Some 3; Some 2; None]; [None; None; Some 1]] 2 2 (Some 1)) [cy_node 1; cy_node 2] [] 0 0 []
        (mkDraws [] [] [] [] [] []) [] [[0; 0]; [0; 0]; [0; 0]].
Definition cy_d : draws := mkDraws [1000] [1] [100; 40; 50; 60] [0; 0] [] [].
Example reroute_cycle_not_a_witness : scope2r cy_cf = false /\ jrn2r_b cy_cf jx_an0 cy_s0 [] = true /\
  forallb (fun k => match run_hist cy_cf cy_s0 [] jx_an0 (repeat cy_d k) with
                    | Ok (s, h, an) => jrn2r_b cy_cf an s h | _ => false end) [1; 2; 3; 4; 5]%nat = true /\
  exists s h an, run_hist cy_cf cy_s0 [] jx_an0 (repeat cy_d 3) = Ok (s, h, an) /\
    map jx_view h = [(2, 1, 1, Some 2, Some 3, Some 2); (1, 2, 1, Some 1, Some 3, Some 1)] /\
    map all_individuals (nodes s) = [[3; 1]; [2]] /\ map n_insvc (nodes s) = [1; 0].
Proof.
  split; [vm_compute; reflexivity|]. split; [vm_compute; reflexivity|]. split; [vm_compute; reflexivity|].
  eexists. eexists. eexists. split; [vm_compute; reflexivity|]. vm_compute. auto.
Qed.

(* the names the framework uses for statements proved in a scope that leaves out regions neither proved nor refuted: rerouting
   into a reroute / slotted node or under (Flexible)ProcessBased routing (rt_ok), and everything Journey2.scope2 leaves out
   besides rerouting (pre-emptive schedules are Journey2s.v's; pre-emptive capacitated slots: section 7) *)
Theorem event_step_jrn2r_partial cf an s s' h : scope2r cf = true -> Jrn2 cf an s h -> event_step cf s = Ok (tt, s') ->
  Jrn2 cf (an_step s an) s' (h ++ log s').
Proof. apply event_step_jrn2r. Qed.
Theorem run_many_jrn2r_partial cf ds s h an s' : scope2r cf = true -> Jrn2 cf an s h -> run_many cf s ds = Ok s' ->
  exists h' an', run_hist cf s h an ds = Ok (s', h', an') /\ Jrn2 cf an' s' h' /\ exists t, h' = h ++ t.
Proof. apply run_many_jrn2r. Qed.

Print Assumptions event_step_jrn2r.
Print Assumptions run_hist_jrn2r.
Print Assumptions run_many_jrn2r.
Print Assumptions engine_journey2r.
Print Assumptions engine_journey2r_means.
Print Assumptions Jrn2r_means.
Print Assumptions reroute_record_followed.
Print Assumptions jrn2r_b_sound.
Print Assumptions scope2_scope2r.
Print Assumptions rx_run.
Print Assumptions rx_thm.
Print Assumptions f11a_not_a_witness.
Print Assumptions reroute_cycle_not_a_witness.
Print Assumptions slotted_service_journey_partial.
Print Assumptions jrn2_not_kept_by_preemptive_slot.

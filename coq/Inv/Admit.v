(* Admit.v -- T2 for the second sentence of C06 on the engine model, function level: an external arrival is rejected
   (sent to the exit at once with a rejection record showing the population seen) exactly when its node or the system is
   full at that instant, and is admitted (or baulks, by its own decision) otherwise. *)
From Coq Require Import ZArith List Bool Lia.
From RecordUpdate Require Import RecordUpdate.
From CiwV Require Import Sx Prelude Routing.
From CiwV.Engine Require Import State Engine Codec.
From CiwV.Inv Require Import Frame Conserve Samples.
Import ListNotations.
Open Scope Z_scope.

Section Admit.
  Variable cf : config.

  (* the admission test of ArrivalNode.release_individual, on the state in which the customer has just been created *)
  Definition node_full (nc : ncfg) (nd : node) : bool := match nc_cap nc with None => false | Some cap => cap <=? n_pop nd end.
  Definition system_full (s : sim) : bool := match cf_syscap cf with None => false | Some sc => sc <=? (a_created (arr s) - 1) - exit_n s end.

  (* what sending a customer to the exit with a type-ty record does *)
  Lemma br_exit j x ty s s' : (write_br_record j x ty ;;; exit_accept x false) s = Ok (tt, s') ->
    exists nd, nthZ (nodes s) (j - 1) = Some nd /\
      exit_ids s' = exit_ids s ++ [i_id x] /\ exit_n s' = exit_n s + 1 /\ exit_completed s' = exit_completed s /\
      nodes s' = nodes s /\ arr s' = arr s /\
      log s' = log s ++ [mkRec (i_id x) (i_pcls x) (i_ocls x) j ty (Some (now s)) None None None None None (Some (now s)) None (Some (n_pop nd)) None None].
  Proof.
    unfold write_br_record, exit_accept, bind, gets, log_rec, del_ind, modify. intros H.
    destruct (get_node j s) as [[nd s0]| |] eqn:E; try discriminate. apply get_node_spec in E as [-> Hn].
    injection H as <-. exists nd. cbn. rewrite Z.add_0_r. repeat split; auto.
  Qed.

  Theorem release_individual_admission j x s s' : release_individual cf j x s = Ok (tt, s') ->
    exists nd nc, nthZ (nodes s) (j - 1) = Some nd /\ nthZ (cf_nodes cf) (j - 1) = Some nc /\
      let s0 := s <| inds := put_ind_l x (inds s) |> in
      if node_full nc nd || system_full s then
        (* REJECTED: at the exit at once, a rejection record (type 4) showing the population seen; nobody is admitted, no node changes *)
        exit_ids s' = exit_ids s ++ [i_id x] /\ nodes s' = nodes s /\ arr s' = arr s /\
        log s' = log s ++ [mkRec (i_id x) (i_pcls x) (i_ocls x) j 4 (Some (now s)) None None None None None (Some (now s)) None (Some (n_pop nd)) None None]
      else
        (* not full: the customer baulks by its own decision (type 3, same shape) ... *)
        (exit_ids s' = exit_ids s ++ [i_id x] /\ nodes s' = nodes s /\ arr s' = arr s /\
         exists tb u, hd_error (d_unif (dr s)) = Some u /\
           (exists tabs, nthZ (cf_baulk cf) (i_cls x) = Some tabs /\ nthZ tabs (j - 1) = Some (Some tb)) /\
           4 * u < (match nth_error tb (Z.to_nat (Z.min (n_pop nd) (Z.of_nat (length tb) - 1))) with Some p => p | None => 0 end) * two53 /\
           log s' = log s ++ [mkRec (i_id x) (i_pcls x) (i_ocls x) j 3 (Some (now s)) None None None None None (Some (now s)) None (Some (n_pop nd)) None None]) \/
        (* ... or is ADMITTED: counted as accepted and handed to the node's accept *)
        (exists s1, a_accepted (arr s1) = a_accepted (arr s) + 1 /\ nodes s1 = nodes s /\ exit_ids s1 = exit_ids s /\ log s1 = log s /\
                    accept cf j x s1 = Ok (tt, s')).
  Proof.
    unfold release_individual. intros H.
    unfold bind at 1 in H. destruct (get_node j s) as [[nd sa]| |] eqn:E0; try discriminate. apply get_node_spec in E0 as [-> Hn].
    unfold bind at 1 in H. unfold ncfg_of at 1 in H. destruct (nthZ (cf_nodes cf) (j - 1)) as [nc|] eqn:Enc; [|discriminate H]. cbn [lift ret] in H.
    unfold bind at 1 in H. unfold sys_population, bind, gets, ret in H. cbn beta iota in H.
    exists nd, nc. split; [exact Hn|]. split; [reflexivity|]. cbn zeta.
    unfold put_ind, modify in H. cbn beta iota in H.
    set (s0 := s <| inds := put_ind_l x (inds s) |>) in *.
    unfold node_full, system_full.
    destruct ((match nc_cap nc with None => false | Some cap => cap <=? n_pop nd end) || (match cf_syscap cf with None => false | Some sc => sc <=? a_created (arr s) - 1 - exit_n s end)) eqn:Efull.
    - destruct (br_exit j x 4 s0 s' H) as (nd0 & Hn0 & A & _ & _ & B & C & D).
      assert (nd0 = nd) by (subst s0; cbn in Hn0; congruence). subst nd0.
      split; [exact A|]. split; [exact B|]. split; [exact C|exact D].
    - destruct (nthZ (cf_baulk cf) (i_cls x)) as [tabs|] eqn:Et; [|discriminate H]. cbn [lift ret] in H.
      destruct (nthZ tabs (j - 1)) as [tab|] eqn:Etab; [|discriminate H]. cbn [lift ret] in H.
      destruct tab as [tb|].
      + unfold draw_unif at 1 in H. destruct (d_unif (dr s0)) as [|u ur] eqn:Eu; [discriminate H|].
        match type of H with (if ?c then _ else _) _ = _ => destruct c eqn:Eb end.
        * left.
          match type of H with match write_br_record j x 3 ?sb with _ => _ end = _ => destruct (br_exit j x 3 sb s' H) as (nd0 & Hn0 & A & _ & _ & B & C & D) end.
          assert (nd0 = nd) by (subst s0; cbn in Hn0; congruence). subst nd0.
          split; [exact A|]. split; [exact B|]. split; [exact C|].
          exists tb, u. split; [subst s0; cbn in Eu; rewrite Eu; reflexivity|]. split; [exists tabs; split; [reflexivity|exact Etab]|].
          split; [apply Z.ltb_lt in Eb; exact Eb|exact D].
        * right. eexists. split; [|split; [|split; [|split; [|exact H]]]]; reflexivity.
      + right. eexists. split; [|split; [|split; [|split; [|exact H]]]]; reflexivity.
  Qed.

  (* "exactly when": the rejection record (type 4) is written if and only if the node or the system is full *)
  Corollary rejected_iff_full j x s s' nd nc : release_individual cf j x s = Ok (tt, s') ->
    nthZ (nodes s) (j - 1) = Some nd -> nthZ (cf_nodes cf) (j - 1) = Some nc -> (forall r, In r (log s) -> r_type r <> 4) ->
    ((exists r, In r (log s') /\ r_type r = 4 /\ r_id r = i_id x) <-> node_full nc nd || system_full s = true) .
  Proof.
    intros H Hn Hc Hlog. destruct (release_individual_admission _ _ _ _ H) as (nd0 & nc0 & Hn0 & Hc0 & Hr).
    rewrite Hn in Hn0. injection Hn0 as <-. rewrite Hc in Hc0. injection Hc0 as <-. cbn zeta in Hr.
    destruct (node_full nc nd || system_full s) eqn:Ef.
    - destruct Hr as (_ & _ & _ & Hl). split; [reflexivity|]. intros _. eexists. split; [rewrite Hl; apply in_or_app; right; left; reflexivity|]. split; reflexivity.
    - split; [|discriminate]. intros (r & Hin & Ht & Hid). exfalso.
      destruct Hr as [(_ & _ & _ & tb & u & _ & _ & _ & Hl)|(s1 & _ & _ & _ & Hl1 & Hacc)].
      + rewrite Hl in Hin. apply in_app_or in Hin as [Hin|[<-|[]]]; [apply (Hlog r Hin Ht)|cbn in Ht; discriminate].
      + (* accept writes no record *)
        assert (Hk : log s' = log s1).
        { refine (Samples.w_accept cf log _ _ _ _ j x s1 tt s' Hacc).
          - intros sa a sb E. unfold draw_svc in E. destruct (d_svc (dr sa)); inversion E; reflexivity.
          - intros sa a sb E. unfold draw_unif in E. destruct (d_unif (dr sa)); inversion E; reflexivity.
          - intros; reflexivity.
          - intros; reflexivity. }
        rewrite Hk, Hl1 in Hin. apply (Hlog r Hin Ht).
  Qed.
End Admit.

Print Assumptions release_individual_admission.
Print Assumptions rejected_iff_full.

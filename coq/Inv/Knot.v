(* Knot.v -- T2 for C18 on the engine model (stage 1): a structural deadlock is genuine, i.e. permanent.
   A knot is a non-empty set K of nodes with finitely many servers, all of whose servers are busy with customers that are
   flagged blocked with a destination in K.  Theorem: in every configuration, from every state that satisfies the stage-1
   invariants SrvInv (Servers.v: conservation + server exclusivity) and Who (Blocking.v: who is in the blocked queues), for
   every oracle of draws and any number of events: every node of K keeps exactly the same server objects (same customers,
   same busy flags, same dates) and the records of those customers are untouched -- nobody in the knot moves, finishes,
   or is unblocked, ever; in particular K is still a knot.
   Why: (1) finish_service is never executed at a node of K (the customers listed as "next to finish" are not blocked and
   hold no server there, so the call would raise); (2) `release` is only ever called for the active node (not in K) and,
   in the unblocking cascade, for the node `from` of the head (from, y) of the blocked queue of a node that is not in K:
   an entry (from, y) with `from` in K sits in the blocked queue of a node of K, because y then holds a server of `from`
   and the customers on the servers of K are blocked towards K; (3) a node of K may still ACCEPT customers into its
   waiting room when it has space (the definition does not say that the nodes of K are full), but all its servers are
   busy, so nobody starts service there; (4) every customer record the engine writes is that of a new customer, of the
   customer being released (it sits in a node outside K) or of a waiting customer of a node outside K.
   Structure: the definitions; an invariant G relative to a reference state s0, in the style of Clock.v (`spec`); the walk
   over the engine functions; one event; any number of events; the property in words; an executable test; the tie to the
   decision procedure of Sub/Deadlock.v (deadlocked_b: does the state contain a knot?); examples. *)
From Coq Require Import ZArith List Bool Lia Permutation.
From RecordUpdate Require Import RecordUpdate.
From CiwV Require Import Sx Prelude Routing.
From CiwV Require Deadlock.
From CiwV.Engine Require Import State Engine Codec.
From CiwV.Inv Require Import Frame Conserve ConserveRun Capacity CapacityRun Servers Blocking.
From CiwV.Inv Require Clock.
Import ListNotations.
Open Scope Z_scope.

(* ====================================================================================================================
   The definitions
   ==================================================================================================================== *)

(* the customers held by the servers of a node *)
Definition custs_of (nd : node) : list Z :=
  flat_map (fun sv => match sv_cust sv with Some i => [i] | None => [] end) (n_servers nd).
(* ... of the nodes of K *)
Definition knot_custs (s : sim) (K : list Z) : list Z :=
  flat_map (fun j => match nodeZ s j with Some nd => custs_of nd | None => [] end) K.

(* server sv is busy with a customer that is flagged blocked, with a destination in K *)
Definition KnotSv (s : sim) (K : list Z) (sv : server) : Prop :=
  sv_busy sv = true /\
  exists i x d, sv_cust sv = Some i /\ find_ind i (inds s) = Some x /\ i_blocked x = true /\ i_dest x = Some d /\ In d K.
(* node j exists, has finitely many servers, and every one of them is such a server *)
Definition KnotNode (cf : config) (s : sim) (K : list Z) (j : Z) : Prop :=
  exists nd nc c, nodeZ s j = Some nd /\ nthZ (cf_nodes cf) (j - 1) = Some nc /\ nc_c nc = Some c /\
                  forall sv, In sv (n_servers nd) -> KnotSv s K sv.
Definition Knot (cf : config) (s : sim) (K : list Z) : Prop := K <> [] /\ forall j, In j K -> KnotNode cf s K j.

(* between s and s': every node of K has the same server objects, and the records of their customers are the same *)
Definition Same (K : list Z) (s s' : sim) : Prop :=
  forall j nd, In j K -> nodeZ s j = Some nd ->
    exists nd', nodeZ s' j = Some nd' /\ n_servers nd' = n_servers nd /\
                forall i, In i (custs_of nd) -> find_ind i (inds s') = find_ind i (inds s).

Lemma custs_of_In nd i : In i (custs_of nd) <-> exists sv, In sv (n_servers nd) /\ sv_cust sv = Some i.
Proof.
  unfold custs_of. rewrite in_flat_map. split.
  - intros (sv & Hsv & Hi). exists sv. split; [exact Hsv|]. destruct (sv_cust sv) as [c|]; [destruct Hi as [->|[]]; reflexivity|destruct Hi].
  - intros (sv & Hsv & Hc). exists sv. split; [exact Hsv|]. rewrite Hc. left. reflexivity.
Qed.
Lemma knot_custs_In s K i : In i (knot_custs s K) <-> exists j nd, In j K /\ nodeZ s j = Some nd /\ In i (custs_of nd).
Proof.
  unfold knot_custs. rewrite in_flat_map. split.
  - intros (j & Hj & Hi). destruct (nodeZ s j) as [nd|] eqn:En; [|destruct Hi]. exists j, nd. auto.
  - intros (j & nd & Hj & Hn & Hi). exists j. split; [exact Hj|]. rewrite Hn. exact Hi.
Qed.

Lemma Same_refl K s : Same K s s.
Proof. intros j nd _ Hn. exists nd. auto. Qed.
Lemma Same_trans K a b c : Same K a b -> Same K b c -> Same K a c.
Proof.
  intros H1 H2 j nd Hj Hn. destruct (H1 j nd Hj Hn) as (nd1 & Hn1 & Hs1 & Hf1). destruct (H2 j nd1 Hj Hn1) as (nd2 & Hn2 & Hs2 & Hf2).
  exists nd2. split; [exact Hn2|]. split; [congruence|]. intros i Hi. rewrite <- (Hf1 i Hi). apply Hf2.
  unfold custs_of in *. rewrite Hs1. exact Hi.
Qed.

(* Knot and Same only look at the nodes and at the customer table *)
Lemma Knot_same cf K s s' : nodes s' = nodes s -> inds s' = inds s -> Knot cf s K -> Knot cf s' K.
Proof.
  intros En Ei [Hne H]. split; [exact Hne|]. intros j Hj. destruct (H j Hj) as (nd & nc & c & Hn & Hc & Hcc & Hsv).
  exists nd, nc, c. unfold nodeZ in *. rewrite En. split; [exact Hn|]. split; [exact Hc|]. split; [exact Hcc|].
  intros sv Hin. destruct (Hsv sv Hin) as (Hb & i & x & d & A). split; [exact Hb|]. exists i, x, d. rewrite Ei. exact A.
Qed.
Lemma Same_same_l K s1 s s' : nodes s1 = nodes s -> inds s1 = inds s -> Same K s1 s' -> Same K s s'.
Proof. intros En Ei H j nd Hj Hn. unfold nodeZ in *. rewrite <- En in Hn. destruct (H j nd Hj Hn) as (nd' & A & B & D). exists nd'. rewrite <- Ei. auto. Qed.

(* a knot is carried along by Same *)
Lemma Knot_Same cf K s s' : Knot cf s K -> Same K s s' -> Knot cf s' K.
Proof.
  intros [Hne H] HS. split; [exact Hne|]. intros j Hj. destruct (H j Hj) as (nd & nc & c & Hn & Hc & Hcc & Hsv).
  destruct (HS j nd Hj Hn) as (nd' & Hn' & Hs' & Hf). exists nd', nc, c. split; [exact Hn'|]. split; [exact Hc|]. split; [exact Hcc|].
  intros sv Hin. rewrite Hs' in Hin. destruct (Hsv sv Hin) as (Hb & i & x & d & A & B & D). split; [exact Hb|].
  exists i, x, d. split; [exact A|]. split; [|exact D].
  rewrite Hf; [exact B|]. apply custs_of_In. eauto.
Qed.

(* ---------- list facts ---------- *)
Lemma length_upd {A} (l : list A) k x : length (upd l k x) = length l.
Proof. revert k; induction l as [|a l IH]; intros [|k]; cbn; auto. Qed.
Lemma length_updZ {A} (l : list A) k x : length (updZ l k x) = length l.
Proof. unfold updZ. destruct (k <? 0); [reflexivity|apply length_upd]. Qed.
Lemma nthZ_length {A} (l l' : list A) k x : length l' = length l -> nthZ l k = Some x -> exists x', nthZ l' k = Some x'.
Proof.
  unfold nthZ. destruct (k <? 0); [discriminate|]. intros HL H.
  assert (Hlt : (Z.to_nat k < length l)%nat) by (apply nth_error_Some; congruence).
  destruct (nth_error l' (Z.to_nat k)) as [x'|] eqn:E; [eauto|]. apply nth_error_None in E. lia.
Qed.
Lemma find_free_server_busy l : (forall sv, In sv l -> sv_busy sv = true) -> find_free_server l = None.
Proof.
  induction l as [|sv r IH]; intros H; cbn; [reflexivity|]. rewrite (H sv (or_introl eq_refl)). apply IH. intros x Hx. apply H. right. exact Hx.
Qed.

(* the queues after a customer joined / left *)
Lemma accept_queue_in (qs qs' : list (list Z)) p x :
  match nthZ qs p with Some q => Some (updZ qs p (q ++ [x])) | None => None end = Some qs' ->
  forall i, In i (concat qs') -> i = x \/ In i (concat qs).
Proof.
  destruct (nthZ qs p) as [q|] eqn:Eq; [|discriminate]. intros H. injection H as <-.
  destruct (nthZ_nat _ _ _ Eq) as (k & -> & Hk). rewrite updZ_nat. intros i Hi. apply (in_concat_upd_add qs k q x i Hk). exact Hi.
Qed.
Lemma release_queue_in (qs : list (list Z)) p q q' i :
  nthZ qs p = Some q -> remove_first i q = Some q' ->
  In i (concat qs) /\ forall i', In i' (concat (updZ qs p q')) -> In i' (concat qs).
Proof.
  intros Eq Hr. destruct (nthZ_nat _ _ _ Eq) as (k & -> & Hk). rewrite updZ_nat.
  split; [apply (in_concat_upd_rm qs k q q' i i Hk Hr); left; reflexivity|].
  intros i' Hi'. apply (in_concat_upd_rm qs k q q' i i' Hk Hr). right. exact Hi'.
Qed.

Lemma quiet_sys_population : quiet sys_population.
Proof. unfold sys_population. repeat bk_q_step. Qed.

(* invert one bind, with names chosen by the caller *)
Ltac mnv H a s1 E :=
  match type of H with
  | bind ?m ?f ?s = Ok _ => unfold bind in H at 1; destruct (m s) as [[a s1]| |] eqn:E; [|discriminate H|discriminate H]
  end.

(* ====================================================================================================================
   The invariant during and between events, relative to a reference state s0 in which K is a knot
   ==================================================================================================================== *)
Section Frozen.
  Variable cf : config.
  Variable K : list Z.
  Variable s0 : sim.
  Local Notation C := (knot_custs s0 K).

  (* what the walk uses of the knot in s0: the nodes of K exist, have finitely many servers, all busy *)
  Definition Base : Prop :=
    forall j, In j K -> exists nd0 nc c, nodeZ s0 j = Some nd0 /\ nthZ (cf_nodes cf) (j - 1) = Some nc /\ nc_c nc = Some c /\
                                         forall sv, In sv (n_servers nd0) -> sv_busy sv = true.
  Hypothesis H0 : Base.

  (* a node as the engine may write it:
     - a node of K has the server objects it has in s0;
     - the customers queued at a node outside K are not the customers on the servers of K;
     - an entry (from, y) of a blocked queue with `from` in K is in the blocked queue of a node of K *)
  Definition NOK (nd : node) : Prop :=
    (In (n_id nd) K -> option_map n_servers (nodeZ s0 (n_id nd)) = Some (n_servers nd)) /\
    (~ In (n_id nd) K -> forall i, In i (all_individuals nd) -> ~ In i C) /\
    (forall from y, In (from, y) (n_bq nd) -> In from K -> In (n_id nd) K).

  Definition G (s : sim) : Prop :=
    Idx s /\ length (nodes s) = length (nodes s0) /\ (forall nd, In nd (nodes s) -> NOK nd) /\
    (forall i, In i C -> find_ind i (inds s) = find_ind i (inds s0)) /\
    (forall i, In i C -> i <= a_created (arr s)).

  Lemma G_same s s' : nodes s' = nodes s -> inds s' = inds s -> a_created (arr s') = a_created (arr s) -> G s -> G s'.
  Proof. intros E1 E2 E3 (A & B & D & E & F). unfold G, Idx. rewrite E1, E2, E3. auto. Qed.

  Lemma NOK_upd nd nd' : NOK nd -> n_id nd' = n_id nd ->
    (In (n_id nd) K -> n_servers nd' = n_servers nd) ->
    (~ In (n_id nd) K -> forall i, In i (all_individuals nd') -> In i (all_individuals nd) \/ ~ In i C) ->
    (~ In (n_id nd) K -> forall from y, In (from, y) (n_bq nd') -> In (from, y) (n_bq nd) \/ ~ In from K) ->
    NOK nd'.
  Proof.
    intros (A & B & D) Hid Hs Hq Hb. unfold NOK. rewrite Hid. split; [|split].
    - intros HK. rewrite (Hs HK). apply A. exact HK.
    - intros HK i Hi. destruct (Hq HK i Hi) as [Hi'|Hi']; [apply (B HK i Hi')|exact Hi'].
    - intros from y Hin Hf. destruct (in_dec Z.eq_dec (n_id nd) K) as [HK|HK]; [exact HK|].
      destruct (Hb HK from y Hin) as [Hin'|Hn]; [apply (D from y Hin' Hf)|contradiction].
  Qed.

  (* nodes of K: finitely many servers, none free *)
  Lemma inf_notK j : infb cf j = true -> ~ In j K.
  Proof. intros Hi HK. destruct (H0 j HK) as (nd0 & nc & c & _ & Hc & Hcc & _). unfold infb in Hi. rewrite Hc, Hcc in Hi. discriminate. Qed.
  Lemma K_no_free nd : NOK nd -> In (n_id nd) K -> find_free_server (n_servers nd) = None.
  Proof.
    intros (A & _) HK. destruct (H0 _ HK) as (nd0 & nc & c & Hn & _ & _ & Hb). specialize (A HK). rewrite Hn in A. cbn in A. injection A as A.
    rewrite <- A. apply find_free_server_busy. exact Hb.
  Qed.

  (* ---------- specifications: the action keeps G and its result satisfies phi ---------- *)
  Definition spec {A} (m : M A) (phi : A -> Prop) : Prop := forall s a s', G s -> m s = Ok (a, s') -> G s' /\ phi a.

  Lemma spec_bind {A B} (m : M A) (f : A -> M B) phi psi : spec m phi -> (forall a, phi a -> spec (f a) psi) -> spec (bind m f) psi.
  Proof.
    intros Hm Hf s b s' HG H. unfold bind in H. destruct (m s) as [[a s1]| |] eqn:E; try discriminate.
    destruct (Hm _ _ _ HG E) as [HG1 Hp]. eapply Hf; eauto.
  Qed.
  Lemma spec_bind_keeps {A B} (m : M A) (f : A -> M B) psi : spec m (fun _ => True) -> (forall a, spec (f a) psi) -> spec (bind m f) psi.
  Proof. intros Hm Hf. eapply spec_bind; [exact Hm|]. intros a _. apply Hf. Qed.
  Lemma spec_conseq {A} (m : M A) (phi psi : A -> Prop) : spec m phi -> (forall a, phi a -> psi a) -> spec m psi.
  Proof. intros H Hi s a s' HG E. destruct (H _ _ _ HG E). auto. Qed.
  Lemma spec_weakenI {A} (m : M A) phi : spec m phi -> spec m (fun _ => True).
  Proof. intros H. eapply spec_conseq; [exact H|auto]. Qed.
  Lemma spec_quiet {A} (m : M A) : quiet m -> spec m (fun _ => True).
  Proof. intros Hq s a s' HG H. destruct (Hq _ _ _ H) as (A1 & A2 & A3 & _). split; [eapply G_same; eauto|exact I]. Qed.
  Lemma spec_ret {A} (x : A) : spec (ret x) (fun a => a = x).
  Proof. intros s a s' HG H. apply ret_spec in H as [-> ->]. auto. Qed.
  Lemma spec_retI {A} (x : A) : spec (ret x) (fun _ => True).
  Proof. eapply spec_weakenI, spec_ret. Qed.
  Lemma spec_fail {A} e phi : spec (@fail A e) phi.
  Proof. intros s a s' _ H. discriminate. Qed.
  Lemma spec_gets {A} (f : sim -> A) : spec (gets f) (fun _ => True).
  Proof. apply spec_quiet, quiet_gets. Qed.
  Lemma spec_lift {A} e (o : option A) : spec (lift e o) (fun a => o = Some a).
  Proof. intros s a s' HG H. apply lift_spec in H as [-> ->]. auto. Qed.
  Lemma spec_get_node j : spec (get_node j) (fun nd => NOK nd /\ n_id nd = j).
  Proof.
    intros s nd s' HG H. apply get_node_spec in H as [-> Hn]. split; [exact HG|].
    destruct HG as (HI & _ & HN & _). split; [apply HN; eapply Clock.nthZ_In; eauto|eapply Idx_get; eauto].
  Qed.
  Lemma spec_get_ind i : spec (get_ind i) (fun x => i_id x = i).
  Proof. intros s x s' HG H. apply get_ind_id in H as [-> Hx]. auto. Qed.
  Lemma spec_modify_same (f : sim -> sim) :
    (forall s, nodes (f s) = nodes s /\ inds (f s) = inds s /\ a_created (arr (f s)) = a_created (arr s)) -> spec (modify f) (fun _ => True).
  Proof. intros Hf s a s' HG H. apply modify_spec in H. rewrite H. split; [|exact I]. destruct (Hf s) as (E1 & E2 & E3). eapply G_same; eauto. Qed.
  Lemma spec_log_rec r : spec (log_rec r) (fun _ => True).
  Proof. apply spec_quiet, quiet_log_rec. Qed.
  Lemma spec_put_ind x : ~ In (i_id x) C -> spec (put_ind x) (fun _ => True).
  Proof.
    intros Hx s a s' (A & B & D & E & F) H. unfold put_ind in H. apply modify_spec in H. rewrite H. split; [|exact I].
    unfold G, Idx. cbn. split; [exact A|]. split; [exact B|]. split; [exact D|]. split; [|exact F].
    intros i Hi. rewrite find_put_ind. destruct (i =? i_id x) eqn:Ei; [apply Z.eqb_eq in Ei; subst i; contradiction|apply E; exact Hi].
  Qed.
  Lemma spec_del_ind i : ~ In i C -> spec (del_ind i) (fun _ => True).
  Proof.
    intros Hx s a s' (A & B & D & E & F) H. unfold del_ind in H. apply modify_spec in H. rewrite H. split; [|exact I].
    unfold G, Idx. cbn. split; [exact A|]. split; [exact B|]. split; [exact D|]. split; [|exact F].
    intros i' Hi. rewrite find_del_ind; [apply E; exact Hi|]. intros ->. contradiction.
  Qed.
  Lemma spec_put_node nd : NOK nd -> spec (put_node nd) (fun _ => True).
  Proof.
    intros Hnd s a s' (A & B & D & E & F) H. unfold put_node in H. apply modify_spec in H. rewrite H. split; [|exact I].
    unfold G, Idx. cbn. split; [apply Clock.Idx_updZ; exact A|]. split; [rewrite length_updZ; exact B|]. split; [|split; [exact E|exact F]].
    intros x Hx. apply Clock.In_updZ in Hx as [->|Hx]; [exact Hnd|apply D; exact Hx].
  Qed.
  Lemma spec_draw_svc : spec draw_svc (fun _ => True). Proof. apply spec_quiet, quiet_draw_svc. Qed.
  Lemma spec_draw_arr : spec draw_arr (fun _ => True). Proof. apply spec_quiet, quiet_draw_arr. Qed.
  Lemma spec_draw_batch : spec draw_batch (fun _ => True). Proof. apply spec_quiet, quiet_draw_batch. Qed.
  Lemma spec_draw_unif : spec draw_unif (fun _ => True). Proof. apply spec_quiet, quiet_draw_unif. Qed.
  Lemma spec_ncfg_of j : spec (ncfg_of cf j) (fun nc => nthZ (cf_nodes cf) (j - 1) = Some nc).
  Proof. apply spec_lift. Qed.
  Lemma spec_is_inf j : spec (is_inf cf j) (fun b => b = infb cf j).
  Proof. intros s b s' HG H. apply bk_is_inf_spec in H as [-> ->]. auto. Qed.
  Lemma spec_choose nd : spec (choose_next_customer cf nd) (fun cand => forall c, cand = Some c -> In c (all_individuals nd)).
  Proof.
    intros s a s' HG H. split; [exact (proj1 (spec_quiet _ (q_choose_next_customer cf nd) _ _ _ HG H))|].
    intros c ->. apply bk_choose_next_customer_spec in H. apply bk_first_waiting_spec in H. exact (proj1 H).
  Qed.

  (* ---------- tactics ---------- *)
  (* a node written back: same identity; outside K, or with the same servers *)
  Ltac nok :=
    match goal with
    | H : NOK ?nd |- NOK _ =>
      solve [ apply (NOK_upd nd _ H);
              [ reflexivity
              | first [ (intros _; reflexivity) | (let HK := fresh in intros HK; exfalso; cbn in *; congruence) ]
              | (let Hq := fresh in intros _ ? Hq; left; exact Hq)
              | (let Hq := fresh in intros _ ? ? Hq; left; exact Hq) ] ]
    end.
  Ltac notinC := solve [ cbn; first [ assumption | congruence ] ].

  Ltac sp_prim :=
    first [ apply spec_get_node | apply spec_get_ind | apply spec_lift | apply spec_ncfg_of | apply spec_is_inf | apply spec_choose ].
  Ltac sp_intro :=
    let a := fresh "v" in let H := fresh "F" in
    intros a H; cbv beta in H;
    try match type of H with _ /\ _ => let H1 := fresh "F" in let H2 := fresh "F" in destruct H as [H1 H2] end;
    try match type of H with a = _ => subst a end.
  Ltac sp1 :=
    first
      [ apply spec_retI | apply spec_fail | apply spec_gets | apply spec_log_rec
      | apply spec_draw_svc | apply spec_draw_arr | apply spec_draw_batch | apply spec_draw_unif
      | (apply spec_put_ind; notinC) | (apply spec_del_ind; notinC)
      | (apply spec_put_node; nok)
      | (apply spec_modify_same; intros ?; repeat split; reflexivity)
      | (eapply spec_bind; [sp_prim|sp_intro])
      | (eapply spec_bind_keeps; [|intros ?])
      | (eapply spec_weakenI; sp_prim)
      | match goal with
        | |- spec (if ?b then _ else _) _ => destruct b
        | |- spec (match ?x with _ => _ end) _ => destruct x
        end ].

  (* ---------- the engine functions ---------- *)
  Lemma k_choice_uniform {A} (l : list A) : spec (choice_uniform l) (fun _ => True).
  Proof. apply spec_quiet, q_choice_uniform. Qed.
  Lemma k_choice_weighted den P : spec (choice_weighted den P) (fun _ => True).
  Proof. apply spec_quiet, q_choice_weighted. Qed.
  Lemma k_write_br_record j x ty : spec (write_br_record j x ty) (fun _ => True).
  Proof. apply spec_quiet, q_write_br_record. Qed.
  Lemma k_sys_population : spec sys_population (fun _ => True).
  Proof. apply spec_quiet, quiet_sys_population. Qed.

  Lemma k_start_service j i srv : ~ In j K -> ~ In i C -> spec (start_service j i srv) (fun _ => True).
  Proof.
    intros Hj Hi. unfold start_service. repeat sp1.
  Qed.

  Lemma k_bsip_accept j i : ~ In i C -> spec (begin_service_if_possible_accept cf j i) (fun _ => True).
  Proof.
    intros Hi. unfold begin_service_if_possible_accept.
    eapply spec_bind_keeps; [apply spec_gets|intros t].
    eapply spec_bind; [apply spec_get_ind|intros x Hx]. cbv beta in Hx.
    eapply spec_bind_keeps; [apply spec_put_ind; notinC|intros _].
    eapply spec_bind; [apply spec_is_inf|intros inf Hinf]. cbv beta in Hinf.
    eapply spec_bind; [apply spec_get_node|intros nd [Hnd Hid]].
    eapply (spec_bind _ _ (fun cand => forall c, cand = Some c -> (inf = true /\ c = i) \/ (inf = false /\ In c (all_individuals nd)))).
    - destruct inf.
      + eapply spec_conseq; [apply spec_ret|]. intros a -> c Hc. injection Hc as <-. left. auto.
      + eapply spec_conseq; [apply spec_choose|]. intros a Ha c Hc. right. auto.
    - intros cand Hcand. destruct cand as [c|]; [|apply spec_retI].
      destruct (Hcand c eq_refl) as [[Ei ->]|[Ei Hc]]; rewrite Ei.
      + apply k_start_service; [apply inf_notK; congruence|exact Hi].
      + destruct (find_free_server (n_servers nd)) as [sv|] eqn:Eff; [|apply spec_retI].
        assert (HjK : ~ In j K).
        { intros HjK. rewrite <- Hid in HjK. rewrite (K_no_free nd Hnd HjK) in Eff. discriminate. }
        apply k_start_service; [exact HjK|]. destruct Hnd as (_ & B & _). apply B; [rewrite Hid; exact HjK|exact Hc].
  Qed.

  Lemma k_accept j x : ~ In (i_id x) C -> spec (accept cf j x) (fun _ => True).
  Proof.
    intros Hx. unfold accept.
    eapply spec_bind; [apply spec_get_node|intros nd [Hnd Hid]].
    eapply spec_bind_keeps; [apply spec_put_ind; notinC|intros _].
    eapply spec_bind; [apply spec_lift|intros qs Hqs]. cbv beta in Hqs.
    eapply spec_bind_keeps; [|intros _; apply k_bsip_accept; exact Hx].
    apply spec_put_node. apply (NOK_upd nd _ Hnd).
    - reflexivity.
    - intros _. reflexivity.
    - intros _ i Hi. destruct (accept_queue_in _ _ _ _ Hqs i Hi) as [->|Hi']; [right; exact Hx|left; exact Hi'].
    - intros _ from y Hin. left. exact Hin.
  Qed.

  Lemma k_exit_accept x c : ~ In (i_id x) C -> spec (exit_accept x c) (fun _ => True).
  Proof. intros Hx. unfold exit_accept. repeat sp1. Qed.

  Lemma k_write_individual_record j x : ~ In (i_id x) C -> spec (write_individual_record cf j x) (fun _ => True).
  Proof. intros Hx. unfold write_individual_record. repeat sp1. Qed.

  Lemma k_bsip_release j freed : ~ In j K -> spec (begin_service_if_possible_release cf j freed) (fun _ => True).
  Proof.
    intros Hj. unfold begin_service_if_possible_release. destruct freed as [sid|]; [|apply spec_retI].
    eapply spec_bind; [apply spec_get_node|intros nd [Hnd Hid]].
    destruct (find_server sid (n_servers nd)) as [sv|]; [|apply spec_retI].
    eapply spec_bind; [apply spec_choose|intros cand Hcand]. cbv beta in Hcand.
    destruct cand as [c|]; [|apply spec_retI].
    apply k_start_service; [exact Hj|]. destruct Hnd as (_ & B & _). apply B; [rewrite Hid; exact Hj|apply Hcand; reflexivity].
  Qed.

  Lemma k_block_individual j i d : ~ In j K -> ~ In i C -> spec (block_individual j i d) (fun _ => True).
  Proof.
    intros Hj Hi. unfold block_individual.
    eapply spec_bind; [apply spec_get_ind|intros x Hx]. cbv beta in Hx.
    eapply spec_bind_keeps; [apply spec_put_ind; notinC|intros _].
    eapply spec_bind; [apply spec_get_node|intros dn [Hdn Hid]].
    apply spec_put_node. apply (NOK_upd dn _ Hdn).
    - reflexivity.
    - intros _. reflexivity.
    - intros _ i' Hi'. left. exact Hi'.
    - intros _ from y Hin. cbn in Hin. apply in_app_or in Hin as [Hin|[Hin|[]]]; [left; exact Hin|]. injection Hin as <- <-. right. exact Hj.
  Qed.

  (* release: the releasing node is not in K; neither is the node of the head of its blocked queue *)
  Lemma k_release : forall f j i d, ~ In j K -> spec (release cf f j i d) (fun _ => True).
  Proof.
    induction f as [|f IH]; intros j i d Hj; cbn [release]; [intros s a s' _ H; discriminate|].
    eapply spec_bind_keeps; [apply spec_gets|intros t].
    eapply spec_bind; [apply spec_get_ind|intros x Hx]. cbv beta in Hx.
    eapply spec_bind; [apply spec_get_node|intros nd [Hnd Hid]].
    eapply spec_bind; [apply spec_lift|intros q Hq]. cbv beta in Hq.
    eapply spec_bind; [apply spec_lift|intros q' Hq']. cbv beta in Hq'.
    destruct (release_queue_in _ _ _ _ _ Hq Hq') as [Hin Hsub].
    assert (Hi : ~ In i C) by (destruct Hnd as (_ & B & _); apply B; [rewrite Hid; exact Hj|exact Hin]).
    eapply spec_bind_keeps.
    { apply spec_put_node. apply (NOK_upd nd _ Hnd); [reflexivity|intros HK; exfalso; rewrite Hid in HK; contradiction| |intros _ from y Hb; left; exact Hb].
      intros _ i' Hi'. left. apply Hsub. exact Hi'. }
    intros _.
    eapply spec_bind_keeps; [apply spec_put_ind; notinC|intros _].
    eapply spec_bind_keeps; [apply k_write_individual_record; notinC|intros _].
    eapply spec_bind_keeps; [apply (spec_weakenI _ _ (spec_is_inf j))|intros inf].
    eapply spec_bind_keeps; [repeat sp1|intros freed].
    eapply spec_bind; [apply spec_get_ind|intros x2 Hx2]. cbv beta in Hx2.
    eapply spec_bind_keeps; [apply spec_put_ind; notinC|intros _].
    eapply spec_bind_keeps; [apply k_bsip_release; exact Hj|intros _].
    eapply spec_bind_keeps; [destruct (d =? 0); [apply k_exit_accept|apply k_accept]; notinC|intros _].
    eapply spec_bind; [apply spec_get_node|intros nd3 [Hnd3 Hid3]].
    eapply spec_bind_keeps; [apply (spec_weakenI _ _ (spec_ncfg_of j))|intros nc].
    match goal with |- spec (if ?b then _ else _) _ => destruct b end; [|apply spec_retI].
    destruct (n_bq nd3) as [|[from y] rest] eqn:Ebq; [apply spec_fail|].
    assert (Hfrom : ~ In from K).
    { intros HF. apply Hj. rewrite <- Hid3. destruct Hnd3 as (_ & _ & D). apply (D from y); [rewrite Ebq; left; reflexivity|exact HF]. }
    eapply spec_bind_keeps; [apply (spec_weakenI _ _ (spec_get_node from))|intros fnd].
    eapply spec_bind_keeps; [destruct (memZ y (all_individuals fnd)); [apply spec_retI|apply spec_fail]|intros _].
    eapply spec_bind_keeps; [|intros _; apply IH; exact Hfrom].
    apply spec_put_node. apply (NOK_upd nd3 _ Hnd3); [reflexivity|intros _; reflexivity|intros _ i' Hi'; left; exact Hi'|].
    intros _ f' y' Hb. left. rewrite Ebq. right. exact Hb.
  Qed.

  (* finish_service after the customer has been picked (the text of Engine.finish_service from `x <- get_ind i` on) *)
  Definition fs_tail (j i : Z) : M unit :=
    x <- get_ind i ;;
    nc <- ncfg_of cf j ;;
    x1 <- (match nc_ccm nc with
           | None => ret x
           | Some m =>
             row <- lift E_Config (nthZ m (i_cls x)) ;;
             k <- choice_weighted 8 row ;;
             let c' := Z.of_nat k in
             p' <- lift E_Config (nthZ (cf_prio cf) c') ;;
             ret (x <| i_pcls := i_cls x |> <| i_cls := c' |> <| i_pprio := i_prio x |> <| i_prio := p' |>)
           end) ;;
    rows <- lift E_Config (nthZ (cf_tm cf) (i_cls x1)) ;;
    row <- lift E_Config (nthZ rows (j - 1)) ;;
    k <- choice_weighted 8 (row ++ [8 - zsum row]) ;;
    let d := if Nat.ltb k (length row) then Z.of_nat k + 1 else 0 in
    let x2 := x1 <| i_dest := Some (if d =? 0 then -1 else d) |> in
    put_ind x2 ;;;
    inf <- is_inf cf j ;;
    (if inf then ret tt
     else sid <- lift E_NoServer (i_server x2) ;;
          nd1 <- get_node j ;;
          sv <- lift E_NoServer (find_server sid (n_servers nd1)) ;;
          put_node (nd1 <| n_servers := put_server_l (sv <| sv_next_end := None |>) (n_servers nd1) |>)) ;;;
    space <- (if d =? 0 then ret true
              else dn <- get_node d ;; dc <- ncfg_of cf d ;;
                   ret (match nc_cap dc with None => true | Some cap => n_pop dn <? cap end)) ;;
    if space then (fl <- gets fuel_of ;; release cf fl j i d) else block_individual j i d.
  Lemma finish_service_eq j : finish_service cf j =
    (nd <- get_node j ;;
     i <- (match n_next_inds nd with [] => fail E_NoInd | [a] => ret a | l => choice_uniform l end) ;;
     fs_tail j i).
  Proof. reflexivity. Qed.

  Lemma k_fs_tail j i : ~ In j K -> ~ In i C -> spec (fs_tail j i) (fun _ => True).
  Proof.
    intros Hj Hi. unfold fs_tail.
    eapply spec_bind; [apply spec_get_ind|intros x Hx]. cbv beta in Hx.
    eapply spec_bind_keeps; [apply (spec_weakenI _ _ (spec_ncfg_of j))|intros nc].
    eapply (spec_bind _ _ (fun x1 => i_id x1 = i)).
    { destruct (nc_ccm nc) as [m|]; [|eapply spec_conseq; [apply spec_ret|intros a ->; exact Hx]].
      eapply spec_bind_keeps; [eapply spec_weakenI; apply spec_lift|intros row].
      eapply spec_bind_keeps; [apply k_choice_weighted|intros k].
      eapply spec_bind_keeps; [eapply spec_weakenI; apply spec_lift|intros p'].
      eapply spec_conseq; [apply spec_ret|intros a ->; cbn; exact Hx]. }
    intros x1 Hx1.
    eapply spec_bind_keeps; [eapply spec_weakenI; apply spec_lift|intros rows].
    eapply spec_bind_keeps; [eapply spec_weakenI; apply spec_lift|intros row].
    eapply spec_bind_keeps; [apply k_choice_weighted|intros k].
    eapply spec_bind_keeps; [apply spec_put_ind; notinC|intros _].
    eapply spec_bind_keeps; [apply (spec_weakenI _ _ (spec_is_inf j))|intros inf].
    eapply spec_bind_keeps; [repeat sp1|intros _].
    eapply spec_bind_keeps; [repeat sp1|intros space].
    destruct space.
    - eapply spec_bind_keeps; [apply spec_gets|intros fl]. apply k_release. exact Hj.
    - apply k_block_individual; assumption.
  Qed.

  (* ---------- the arrival node ---------- *)
  Lemma k_release_individual j x : ~ In (i_id x) C -> spec (release_individual cf j x) (fun _ => True).
  Proof.
    intros Hx. unfold release_individual.
    repeat first [ apply k_sys_population | apply k_write_br_record | (apply k_exit_accept; notinC) | (apply k_accept; notinC) | sp1 ].
  Qed.

  Lemma k_batch_loop : forall n j c p, spec (batch_loop cf n j c p) (fun _ => True).
  Proof.
    induction n as [|n IH]; intros j c p; cbn [batch_loop]; [apply spec_retI|].
    intros s a s' HG H.
    unfold bind at 1 in H. unfold modify at 1 in H. unfold bind at 1 in H. unfold gets at 1 in H.
    set (s1 := s <| arr := arr s <| a_created := a_created (arr s) + 1 |> |>) in H.
    assert (G1 : G s1).
    { destruct HG as (A & B & D & E & F). unfold G, Idx. cbn. split; [exact A|]. split; [exact B|]. split; [exact D|]. split; [exact E|].
      intros i Hi. specialize (F i Hi). lia. }
    assert (Hnew : ~ In (i_id (new_ind (a_created (arr s1)) c p)) C).
    { cbn. intros Hin. destruct HG as (_ & _ & _ & _ & F). specialize (F _ Hin). lia. }
    exact (spec_bind_keeps _ _ _ (k_release_individual j _ Hnew) (fun _ => IH j c p) _ _ _ G1 H).
  Qed.

  Lemma k_arrival_have_event : spec (arrival_have_event cf) (fun _ => True).
  Proof.
    unfold arrival_have_event.
    repeat first [ apply k_batch_loop | (apply spec_quiet; apply q_find_next_event_date) | sp1 ].
  Qed.

  (* ---------- every node recomputes its next date; the next active node is chosen ---------- *)
  Lemma k_update_next_event_date j : spec (update_next_event_date cf j) (fun _ => True).
  Proof. unfold update_next_event_date. repeat sp1. Qed.
  Lemma k_update_all js : spec (update_all cf js) (fun _ => True).
  Proof.
    induction js as [|j r IH]; cbn [update_all]; [apply spec_retI|].
    eapply spec_bind_keeps; [apply k_update_next_event_date|intros _; exact IH].
  Qed.
  Lemma k_find_next_active_node : spec find_next_active_node (fun _ => True).
  Proof. apply spec_quiet, q_find_next_active_node. Qed.

  (* ---------- one event: the active node is not in K (finish_service raises there) and the customer it picks is its own ---------- *)
  Lemma event_step_G s s' : G s -> NextOk s ->
    (forall j s1, In j K -> finish_service cf j (s <| log := [] |>) = Ok (tt, s1) -> False) ->
    event_step cf s = Ok (tt, s') -> G s'.
  Proof.
    intros HG HN HF H. unfold event_step in H.
    mnv H u0 sL E0. apply modify_spec in E0. subst sL.
    assert (G1 : G (s <| log := [] |>)) by (eapply G_same; [| | |exact HG]; reflexivity).
    mnv H k sk Ek. apply gets_spec in Ek as [-> ->].
    mnv H u1 sB EB.
    assert (GB : G sB).
    { destruct (next_active (s <| log := [] |>) =? 0); [exact (proj1 (k_arrival_have_event _ _ _ G1 EB))|].
      set (k := next_active (s <| log := [] |>)) in *.
      destruct (in_dec Z.eq_dec k K) as [HK|HK]; [exfalso; destruct u1; exact (HF k sB HK EB)|].
      rewrite finish_service_eq in EB.
      mnv EB nd sn En. apply get_node_spec in En as [-> Hn].
      mnv EB i sA Ei.
      pose proof (pick_In _ _ _ _ Ei) as Hi.
      destruct (HN k nd i Hn Hi) as [Hin _].
      assert (HiC : ~ In i C).
      { destruct G1 as (HI & _ & HNk & _). destruct (HNk nd (Clock.nthZ_In _ _ _ Hn)) as (_ & B & _).
        apply B; [rewrite (Idx_get _ _ _ HI Hn); exact HK|exact Hin]. }
      assert (GA : G sA).
      { refine (proj1 (spec_quiet _ _ _ _ _ G1 Ei)).
        destruct (n_next_inds nd) as [|a0 [|b0 r0]]; [apply quiet_fail|apply quiet_ret|apply q_choice_uniform]. }
      exact (proj1 (k_fs_tail k i HK HiC _ _ _ GA EB)). }
    mnv H ns sN EN. apply gets_spec in EN as [-> ->].
    mnv H u2 sU EU.
    pose proof (proj1 (k_update_all _ _ _ _ GB EU)) as GU.
    exact (proj1 (k_find_next_active_node _ _ _ GU H)).
  Qed.
End Frozen.

(* ====================================================================================================================
   From the stage-1 invariants to G, and back
   ==================================================================================================================== *)

(* what server exclusivity (Servers.Srv) says at a node with finitely many servers *)
Lemma nthZ_cf_nat (cf : config) k nc : nthZ (cf_nodes cf) (Z.of_nat k + 1 - 1) = Some nc -> nth_error (cf_nodes cf) k = Some nc.
Proof.
  unfold nthZ. replace (Z.of_nat k + 1 - 1) with (Z.of_nat k) by lia.
  destruct (Z.of_nat k <? 0) eqn:E; [discriminate|]. rewrite Nat2Z.id. auto.
Qed.
Lemma srv_cust cf s j nd nc c sv i : Servers.Srv cf s -> nodeZ s j = Some nd -> nthZ (cf_nodes cf) (j - 1) = Some nc -> nc_c nc = Some c ->
  In sv (n_servers nd) -> sv_cust sv = Some i -> In i (all_individuals nd) /\ isv (inds s) i = Some (sv_id sv).
Proof.
  intros HS Hn Hc Hcc Hsv Hcu. apply nodeZ_nat in Hn as (k & -> & Hk). apply nthZ_cf_nat in Hc.
  pose proof (HS k nd nc Hk Hc) as HN. rewrite Hcc in HN. cbn in HN. destruct HN as [_ _ _ Cc _]. exact (Cc sv i Hsv Hcu).
Qed.
Lemma srv_holder cf s j nd nc c i k0 : Servers.Srv cf s -> nodeZ s j = Some nd -> nthZ (cf_nodes cf) (j - 1) = Some nc -> nc_c nc = Some c ->
  In i (all_individuals nd) -> isv (inds s) i = Some k0 -> exists sv, In sv (n_servers nd) /\ sv_id sv = k0 /\ sv_cust sv = Some i.
Proof.
  intros HS Hn Hc Hcc Hin Hk0. apply nodeZ_nat in Hn as (k & -> & Hk). apply nthZ_cf_nat in Hc.
  pose proof (HS k nd nc Hk Hc) as HN. rewrite Hcc in HN. cbn in HN. destruct HN as [_ _ _ _ Dd]. exact (Dd i k0 Hin Hk0).
Qed.

Lemma Base_of_Knot cf K s : Knot cf s K -> Base cf K s.
Proof.
  intros [_ H] j Hj. destruct (H j Hj) as (nd & nc & c & Hn & Hc & Hcc & Hsv). exists nd, nc, c.
  split; [exact Hn|]. split; [exact Hc|]. split; [exact Hcc|]. intros sv Hin. apply (Hsv sv Hin).
Qed.

(* the customers on the servers of K are customers of the nodes of K *)
Lemma knot_cust_place cf K s i : Knot cf s K -> Servers.Srv cf s -> In i (knot_custs s K) ->
  exists j nd, In j K /\ nodeZ s j = Some nd /\ In i (all_individuals nd).
Proof.
  intros HK HS Hi. apply knot_custs_In in Hi as (j & nd & Hj & Hn & Hic). apply custs_of_In in Hic as (sv & Hsv & Hcu).
  destruct (proj2 HK j Hj) as (nd' & nc & c & Hn' & Hc & Hcc & _). rewrite Hn in Hn'. injection Hn' as <-.
  exists j, nd. split; [exact Hj|]. split; [exact Hn|]. exact (proj1 (srv_cust cf s j nd nc c sv i HS Hn Hc Hcc Hsv Hcu)).
Qed.

(* in a state that satisfies the stage-1 invariants, a knot gives G relative to the state itself *)
Lemma G_init cf K s : Knot cf s K -> SrvInv cf s -> Who cf s -> G K s s.
Proof.
  intros HK [HW HS] [[_ HWh] _]. pose proof (WFx_Idx _ _ HW) as HI.
  unfold G. split; [exact HI|]. split; [reflexivity|]. split; [|split; [reflexivity|]].
  - intros nd Hin. apply In_nth_error in Hin as [k Hk]. pose proof (HI k nd Hk) as Hid.
    assert (Hn : nodeZ s (n_id nd) = Some nd) by (rewrite Hid, nodeZ_of_nat; exact Hk).
    unfold NOK. split; [|split].
    + intros _. rewrite Hn. reflexivity.
    + intros HnK i Hi HiC. destruct (knot_cust_place cf K s i HK HS HiC) as (j & ndj & Hj & Hnj & Hin).
      apply HnK. rewrite (WFx_place _ _ _ _ _ _ _ HW Hn Hnj Hi Hin). exact Hj.
    + intros from y Hb Hf.
      destruct (w_ent _ _ _ HWh (n_id nd) from y (ex_intro _ nd (conj Hn Hb))) as (x & Hx & Hbl & Hd & (ndf & Hnf & Hyf) & Hsrv).
      destruct (proj2 HK from Hf) as (ndf' & nc & c & Hnf' & Hc & Hcc & Hsvs). rewrite Hnf in Hnf'. injection Hnf' as <-.
      destruct Hsrv as [Hinf|Hsrv]; [unfold infb in Hinf; rewrite Hc, Hcc in Hinf; discriminate|].
      destruct (i_server x) as [k0|] eqn:Ek0; [|congruence].
      assert (Hisv : isv (inds s) y = Some k0) by (unfold isv; rewrite Hx; exact Ek0).
      destruct (srv_holder cf s from ndf nc c y k0 HS Hnf Hc Hcc Hyf Hisv) as (sv & Hsv & _ & Hcu).
      destruct (Hsvs sv Hsv) as (_ & i' & x' & d' & Hcu' & Hx' & _ & Hd' & HdK).
      rewrite Hcu in Hcu'. injection Hcu' as <-. rewrite Hx in Hx'. injection Hx' as <-. rewrite Hd in Hd'. injection Hd' as <-. exact HdK.
  - intros i Hi. destruct (knot_cust_place cf K s i HK HS Hi) as (j & ndj & _ & Hnj & Hin).
    destruct (WFx_means _ HW) as (HP & _).
    assert (Hids : In i (ids_of s)).
    { unfold ids_of. apply in_or_app. left. apply in_concat. exists (all_individuals ndj). split; [apply in_map; eapply nodeZ_In; eauto|exact Hin]. }
    apply (Permutation_in _ HP) in Hids. apply zseq_In in Hids. lia.
Qed.

(* G relative to s0 says that the nodes of K and their customers are as in s0 *)
Lemma G_Same K s0 s' : G K s0 s' -> Same K s0 s'.
Proof.
  intros (HI & HL & HN & HF & _) j nd Hj Hn. destruct (nthZ_length (nodes s0) (nodes s') (j - 1) nd HL Hn) as [nd' Hn'].
  exists nd'. split; [exact Hn'|].
  destruct (HN nd' (Clock.nthZ_In _ _ _ Hn')) as (A & _). rewrite (Idx_get _ _ _ HI Hn') in A. specialize (A Hj).
  rewrite Hn in A. cbn in A. injection A as A. split; [symmetry; exact A|].
  intros i Hi. apply HF. apply knot_custs_In. exists j, nd. auto.
Qed.

(* finish_service at a node of K raises: the customer it picks is not blocked, so it holds no server of the node *)
Lemma fs_K_fails cf K s j s' : Knot cf s K -> Servers.Srv cf s -> NextOk s -> In j K -> finish_service cf j s = Ok (tt, s') -> False.
Proof.
  intros HK HS HN Hj H. destruct (proj2 HK j Hj) as (nd & nc & c & Hn & Hc & Hcc & Hsvs).
  unfold finish_service in H.
  mnv H nd' sn En. apply get_node_spec in En as [-> Hn']. unfold nodeZ in Hn. rewrite Hn in Hn'. injection Hn' as <-.
  mnv H i sA Ei. pose proof (pick_In _ _ _ _ Ei) as Hi. destruct (HN j nd i Hn Hi) as (Hin & x0 & Hx0 & Hb0).
  assert (EA : inds sA = inds s).
  { assert (Hq : quiet (match n_next_inds nd with [] => fail E_NoInd | [a] => ret a | l => choice_uniform l end)).
    { destruct (n_next_inds nd) as [|a0 [|b0 r0]]; [apply quiet_fail|apply quiet_ret|apply q_choice_uniform]. }
    exact (proj1 (Hq _ _ _ Ei)). }
  mnv H x sX Ex. apply get_ind_spec in Ex as [-> [Hx _]]. rewrite EA, Hx0 in Hx. injection Hx as <-.
  mnv H nc' sc Ec. unfold ncfg_of in Ec. apply lift_spec in Ec as [-> Hc'].
  mnv H x1 s1 E1.
  assert (Hs1 : i_server x1 = i_server x0).
  { destruct (nc_ccm nc') as [m|]; [|apply ret_spec in E1 as [_ ->]; reflexivity].
    mnv E1 row sr Er. mnv E1 kk sk Ek. mnv E1 p' sp Ep. apply ret_spec in E1 as [_ ->]. reflexivity. }
  mnv H rows s2 E2. mnv H row s3 E3. mnv H kk s4 E4. mnv H u5 s5 E5. mnv H inf s6 E6. apply bk_is_inf_spec in E6 as [-> ->].
  assert (Einf : infb cf j = false) by (unfold infb; rewrite Hc, Hcc; reflexivity). rewrite Einf in H.
  mnv H u7 s7 E7. mnv E7 sid s8 E8. apply lift_spec in E8 as [_ Hsid]. cbn in Hsid.
  assert (Hisv : isv (inds s) i = Some sid) by (unfold isv; rewrite Hx0; congruence).
  destruct (srv_holder cf s j nd nc c i sid HS Hn Hc Hcc Hin Hisv) as (sv & Hsv & _ & Hcu).
  destruct (Hsvs sv Hsv) as (_ & i' & x' & d' & Hcu' & Hx' & Hb' & _).
  rewrite Hcu in Hcu'. injection Hcu' as <-. rewrite Hx0 in Hx'. injection Hx' as <-. congruence.
Qed.

(* ====================================================================================================================
   T2 for C18: a knot is permanent
   ==================================================================================================================== *)

(* the invariant: K is a knot, in a state that satisfies conservation + server exclusivity and the blocking invariant *)
Definition KnotInv (cf : config) (K : list Z) (s : sim) : Prop := Knot cf s K /\ SrvInv cf s /\ Who cf s.

(* one event: every node of K keeps its server objects, their customers keep their records; K is still a knot *)
Theorem event_step_same cf K s s' : KnotInv cf K s -> event_step cf s = Ok (tt, s') -> Same K s s'.
Proof.
  intros (HK & HS & HW) H. apply G_Same.
  apply (event_step_G cf K s (Base_of_Knot cf K s HK) s s' (G_init cf K s HK HS HW) (proj2 HW)); [|exact H].
  intros j s1 Hj Hf. eapply (fs_K_fails cf K (s <| log := [] |>)); [| | |exact Hj|exact Hf].
  - eapply Knot_same; [| |exact HK]; reflexivity.
  - apply Srv_log0. exact (proj2 HS).
  - intros j' nd i Hn Hi. exact (proj2 HW j' nd i Hn Hi).
Qed.

Theorem event_step_knot cf K s s' : KnotInv cf K s -> event_step cf s = Ok (tt, s') -> KnotInv cf K s'.
Proof.
  intros HI H. pose proof (event_step_same cf K s s' HI H) as HS. destruct HI as (HK & HSrv & HW).
  split; [eapply Knot_Same; eauto|]. split; [eapply event_step_srv; eauto|eapply event_step_who; eauto].
Qed.

Lemma KnotInv_dr cf K s d : KnotInv cf K s -> KnotInv cf K (s <| dr := d |>).
Proof.
  intros (HK & [A B] & [HQ HN1]). split; [eapply Knot_same; [| |exact HK]; reflexivity|]. split.
  - split; [eapply WFx_shape; [|exact A]; reflexivity|apply Srv_dr; exact B].
  - split; [eapply Q_same; [| | | | |exact HQ]; reflexivity|eapply N1_same; [| |exact HN1]; reflexivity].
Qed.

(* any number of events, each with its own draws; no hypothesis on the draws is needed *)
Theorem run_many_knot cf K : forall ds s s', KnotInv cf K s -> run_many cf s ds = Ok s' -> KnotInv cf K s' /\ Same K s s'.
Proof.
  induction ds as [|d r IH]; intros s s' HI H; cbn [run_many] in H; [injection H as <-; split; [exact HI|apply Same_refl]|].
  destruct (event_step cf (s <| dr := d |>)) as [[u s1]| |] eqn:E; try discriminate. destruct u.
  pose proof (KnotInv_dr cf K s d HI) as HI0.
  pose proof (event_step_same cf K _ _ HI0 E) as HS1. pose proof (event_step_knot cf K _ _ HI0 E) as HI1.
  destruct (IH _ _ HI1 H) as [HI2 HS2]. split; [exact HI2|].
  eapply Same_trans; [|exact HS2]. eapply Same_same_l; [| |exact HS1]; reflexivity.
Qed.

(* C18: a structural deadlock is genuine.  In the words of the property: if, in a state that satisfies the stage-1
   invariants, K is a knot, then after ANY number of events, whatever the draws, K is still a knot with the SAME customers
   on the same servers: every node of K has exactly the server objects it had (same customer, busy flag and dates on each),
   each of these customers is still a customer of that node, and its record is untouched (still blocked, same
   destination, same server, same dates) -- nobody of the knot has moved, finished service or been unblocked. *)
Theorem knot_is_permanent cf K ds s s' : Knot cf s K -> SrvInv cf s -> Who cf s -> run_many cf s ds = Ok s' ->
  Knot cf s' K /\
  forall j nd, In j K -> nodeZ s j = Some nd ->
    exists nd', nodeZ s' j = Some nd' /\ n_servers nd' = n_servers nd /\
      forall sv i, In sv (n_servers nd) -> sv_cust sv = Some i ->
        In i (all_individuals nd') /\ find_ind i (inds s') = find_ind i (inds s).
Proof.
  intros HK HS HW H. destruct (run_many_knot cf K ds s s' (conj HK (conj HS HW)) H) as [(HK' & HS' & _) HSame].
  split; [exact HK'|]. intros j nd Hj Hn. destruct (HSame j nd Hj Hn) as (nd' & Hn' & Hsv' & Hf). exists nd'.
  split; [exact Hn'|]. split; [exact Hsv'|]. intros sv i Hsv Hcu. split; [|apply Hf; apply custs_of_In; eauto].
  destruct (proj2 HK' j Hj) as (nd2 & nc & c & Hn2 & Hc & Hcc & _). rewrite Hn' in Hn2. injection Hn2 as <-.
  rewrite <- Hsv' in Hsv. exact (proj1 (srv_cust cf s' j nd' nc c sv i (proj2 HS') Hn' Hc Hcc Hsv Hcu)).
Qed.

(* ====================================================================================================================
   The invariant in the words of the property
   ==================================================================================================================== *)
Theorem knot_means cf K s : KnotInv cf K s ->
  K <> [] /\
  forall j, In j K -> exists nd,
    nodeZ s j = Some nd /\
    (* every server of the node is busy, has no end-of-service date, and its customer is a customer of the node that is
       flagged blocked, knows this server, wants a node d of K and sits in the blocked queue of d *)
    (forall sv, In sv (n_servers nd) -> sv_busy sv = true /\ sv_next_end sv = None /\
       exists i x d, sv_cust sv = Some i /\ In i (all_individuals nd) /\ find_ind i (inds s) = Some x /\
                     i_blocked x = true /\ i_server x = Some (sv_id sv) /\ i_dest x = Some d /\ In d K /\ entry s d j i) /\
    (* no server is free: a customer that is let into the waiting room of the node cannot start service *)
    find_free_server (n_servers nd) = None /\
    (* the node cannot execute an end-of-service event *)
    (forall s', finish_service cf j s = Ok (tt, s') -> False).
Proof.
  intros (HK & [HW HS] & [[HW' HWh] HN]). split; [exact (proj1 HK)|]. intros j Hj.
  destruct (proj2 HK j Hj) as (nd & nc & c & Hn & Hc & Hcc & Hsvs). exists nd. split; [exact Hn|]. split; [|split].
  - intros sv Hsv. destruct (Hsvs sv Hsv) as (Hb & i & x & d & Hcu & Hx & Hbl & Hd & HdK). split; [exact Hb|].
    destruct (srv_cust cf s j nd nc c sv i HS Hn Hc Hcc Hsv Hcu) as [Hin Hisv].
    split.
    + destruct (sv_next_end sv) as [e|] eqn:He; [|reflexivity].
      destruct (w_live _ _ _ HWh j nd sv e i Hn Hsv He Hcu) as (_ & x' & Hx' & Hb' & _). congruence.
    + exists i, x, d. split; [exact Hcu|]. split; [exact Hin|]. split; [exact Hx|]. split; [exact Hbl|].
      split; [unfold isv in Hisv; rewrite Hx in Hisv; exact Hisv|]. split; [exact Hd|]. split; [exact HdK|].
      pose proof (find_ind_id _ _ _ Hx) as Hid.
      destruct (w_blk _ _ _ HWh x (find_In _ _ _ Hx) Hbl) as [[]|(d' & from & He)]. rewrite Hid in He.
      destruct (w_ent _ _ _ HWh d' from i He) as (x' & Hx' & _ & Hd' & (ndf & Hnf & Hif) & _).
      assert (d' = d) by congruence. subst d'.
      rewrite (WFx_place _ _ _ _ _ _ _ HW Hn Hnf Hin Hif). exact He.
  - apply find_free_server_busy. intros sv Hsv. apply (Hsvs sv Hsv).
  - intros s' Hf. exact (fs_K_fails cf K s j s' HK HS HN Hj Hf).
Qed.

(* with the blocking invariant Blk (C07) and the capacity invariant J (C06): every node that a customer of the knot
   wants is exactly full -- the test `has space` that would let that customer in is false *)
Theorem knot_targets_full cf K s : KnotInv cf K s -> Blk cf s -> J cf s ->
  forall j nd sv i x d, In j K -> nodeZ s j = Some nd -> In sv (n_servers nd) -> sv_cust sv = Some i ->
    find_ind i (inds s) = Some x -> i_dest x = Some d ->
    In d K /\ exists ndd, nodeZ s d = Some ndd /\ cap_of cf d = Some (n_pop ndd).
Proof.
  intros HI HB HJ j nd sv i x d Hj Hn Hsv Hcu Hx Hd.
  destruct (proj2 (knot_means cf K s HI) j Hj) as (nd' & Hn' & Hsvs & _). rewrite Hn in Hn'. injection Hn' as <-.
  destruct (Hsvs sv Hsv) as (_ & _ & i' & x' & d' & Hcu' & _ & Hx' & _ & _ & Hd' & HdK & (ndd & Hnd & Hin)).
  assert (i' = i) by congruence. subst i'. assert (x' = x) by congruence. subst x'. assert (d' = d) by congruence. subst d'.
  split; [exact HdK|]. exists ndd. split; [exact Hnd|].
  apply nodeZ_nat in Hnd as (k & -> & Hk). apply (blk_full cf s HB HJ k ndd Hk). intros E. rewrite E in Hin. destruct Hin.
Qed.

(* ====================================================================================================================
   An executable test of the hypotheses
   ==================================================================================================================== *)
Definition knot_sv_b (s : sim) (K : list Z) (sv : server) : bool :=
  sv_busy sv &&
  match sv_cust sv with
  | Some i => match find_ind i (inds s) with
              | Some x => i_blocked x && match i_dest x with Some d => memZ d K | None => false end
              | None => false
              end
  | None => false
  end.
Definition knot_node_b (cf : config) (s : sim) (K : list Z) (j : Z) : bool :=
  match nodeZ s j, nthZ (cf_nodes cf) (j - 1) with
  | Some nd, Some nc => match nc_c nc with Some _ => forallb (knot_sv_b s K) (n_servers nd) | None => false end
  | _, _ => false
  end.
Definition knot_b (cf : config) (s : sim) (K : list Z) : bool :=
  negb (match K with [] => true | _ => false end) && forallb (knot_node_b cf s K) K.
(* the invariant of the theorems: the knot together with the stage-1 invariants it needs *)
Definition knotinv_b (cf : config) (K : list Z) (s : sim) : bool := knot_b cf s K && srv_b cf s && who_b cf s.

Theorem knot_b_sound cf s K : knot_b cf s K = true -> Knot cf s K.
Proof.
  unfold knot_b. intros H. apply andb_true_iff in H as [H1 H2]. split; [intros ->; discriminate|].
  rewrite forallb_forall in H2. intros j Hj. specialize (H2 j Hj). unfold knot_node_b in H2.
  destruct (nodeZ s j) as [nd|] eqn:En; [|discriminate]. destruct (nthZ (cf_nodes cf) (j - 1)) as [nc|] eqn:Ec; [|discriminate].
  destruct (nc_c nc) as [c|] eqn:Ecc; [|discriminate]. exists nd, nc, c. split; [exact En|]. split; [exact Ec|]. split; [exact Ecc|].
  rewrite forallb_forall in H2. intros sv Hsv. specialize (H2 sv Hsv). unfold knot_sv_b in H2.
  apply andb_true_iff in H2 as [Hb H2]. split; [exact Hb|].
  destruct (sv_cust sv) as [i|] eqn:Ecu; [|discriminate]. destruct (find_ind i (inds s)) as [x|] eqn:Ex; [|discriminate].
  apply andb_true_iff in H2 as [Hbl H2]. destruct (i_dest x) as [d|] eqn:Ed; [|discriminate].
  exists i, x, d. split; [first [exact Ecu|reflexivity]|]. split; [first [exact Ex|reflexivity]|]. split; [exact Hbl|]. split; [first [exact Ed|reflexivity]|apply memZ_In; exact H2].
Qed.
Theorem knotinv_b_sound cf K s : knotinv_b cf K s = true -> KnotInv cf K s.
Proof.
  unfold knotinv_b. intros H. apply andb_true_iff in H as [H H3]. apply andb_true_iff in H as [H1 H2].
  split; [apply knot_b_sound; exact H1|]. split; [apply srv_b_sound; exact H2|apply who_b_sound; exact H3].
Qed.

(* L [cfg; state; L [A j; ...]] -> A 1 when K is a knot of the snapshot and the snapshot satisfies SrvInv and Who, A 0 otherwise *)
Definition run_knotb (inp : sx) : sx :=
  match inp with
  | L [c; s; k] =>
    match dec_cfg c, dec_sim s (L [L []; L []; L []; L []]), getZs k with
    | Some cf, Some st, Some K => A (if knotinv_b cf K st then 1 else 0)
    | _, _, _ => A (-1)
    end
  | _ => A (-1)
  end.

(* ====================================================================================================================
   Does the state contain a knot?  The decision procedure of Sub/Deadlock.v on the wait-for graph of the NODES:
   an edge (j, d) for every server of node j whose customer is blocked towards d, an edge (j, 0) for every other server
   (0 is no node: such a node cannot be in a closed set); vertices = the nodes with finitely many servers.
   ==================================================================================================================== *)
Definition sv_target (s : sim) (sv : server) : Z :=
  match sv_cust sv with
  | Some i => match find_ind i (inds s) with
              | Some x => if sv_busy sv && i_blocked x then match i_dest x with Some d => d | None => 0 end else 0
              | None => 0
              end
  | None => 0
  end.
Definition knot_graph (s : sim) : Deadlock.graph :=
  flat_map (fun nd => map (fun sv => (n_id nd, sv_target s sv)) (n_servers nd)) (nodes s).
Definition fin_b (cf : config) (j : Z) : bool :=
  match nthZ (cf_nodes cf) (j - 1) with Some nc => match nc_c nc with Some _ => true | None => false end | None => false end.
Definition knot_V (cf : config) (s : sim) : list Z := filter (fin_b cf) (map n_id (nodes s)).
(* the state contains a knot all of whose nodes have at least one server *)
Definition deadlocked_b (cf : config) (s : sim) : bool := Deadlock.deadlocked (knot_graph s) (knot_V cf s).

Lemma succs_knot_graph s j w : In w (Deadlock.succs (knot_graph s) j) <->
  exists nd sv, In nd (nodes s) /\ n_id nd = j /\ In sv (n_servers nd) /\ w = sv_target s sv.
Proof.
  unfold Deadlock.succs, knot_graph. rewrite in_map_iff. split.
  - intros ([a b] & Hw & Hf). apply filter_In in Hf as [Hin Heq]. cbn in Hw, Heq. apply Z.eqb_eq in Heq.
    apply in_flat_map in Hin as (nd & Hnd & He). apply in_map_iff in He as (sv & E & Hsv). injection E as E1 E2.
    exists nd, sv. split; [exact Hnd|]. split; [congruence|]. split; [exact Hsv|congruence].
  - intros (nd & sv & Hnd & Hid & Hsv & Hw). exists (j, w). split; [reflexivity|]. apply filter_In. split; [|cbn; apply Z.eqb_refl].
    apply in_flat_map. exists nd. split; [exact Hnd|]. apply in_map_iff. exists sv. split; [congruence|exact Hsv].
Qed.
Lemma Idx_node_unique s nd j : Idx s -> In nd (nodes s) -> n_id nd = j -> nodeZ s j = Some nd.
Proof. intros HI Hin Hid. apply In_nth_error in Hin as [k Hk]. rewrite <- Hid, (HI k nd Hk), nodeZ_of_nat. exact Hk. Qed.
Lemma knot_V_In cf s j : In j (knot_V cf s) <->
  (exists nd, In nd (nodes s) /\ n_id nd = j) /\ exists nc c, nthZ (cf_nodes cf) (j - 1) = Some nc /\ nc_c nc = Some c.
Proof.
  unfold knot_V. rewrite filter_In, in_map_iff. unfold fin_b. split.
  - intros [(nd & Hid & Hin) Hf]. split; [eauto|]. destruct (nthZ (cf_nodes cf) (j - 1)) as [nc|]; [|discriminate].
    destruct (nc_c nc) as [c|] eqn:Ec; [eauto|discriminate].
  - intros [(nd & Hin & Hid) (nc & c & Hc & Hcc)]. split; [eauto|]. rewrite Hc, Hcc. reflexivity.
Qed.
Lemma sv_target_knot s K sv : KnotSv s K sv -> In (sv_target s sv) K.
Proof. intros (Hb & i & x & d & Hcu & Hx & Hbl & Hd & HdK). unfold sv_target. rewrite Hcu, Hx, Hb, Hbl, Hd. exact HdK. Qed.
Lemma sv_target_inv s K sv : In (sv_target s sv) K -> ~ In 0 K -> KnotSv s K sv.
Proof.
  unfold sv_target, KnotSv. intros H H0K.
  destruct (sv_cust sv) as [i|]; [|contradiction]. destruct (find_ind i (inds s)) as [x|] eqn:Ex; [|contradiction].
  destruct (sv_busy sv) eqn:Eb; [|contradiction]. destruct (i_blocked x) eqn:Ebl; [|contradiction]. cbn in H.
  destruct (i_dest x) as [d|] eqn:Ed; [|contradiction]. split; [reflexivity|]. exists i, x, d. auto.
Qed.

(* a non-empty closed set of the graph is a knot ... *)
Theorem closed_knot cf s K : Idx s -> K <> [] -> incl K (knot_V cf s) -> Deadlock.closed (knot_graph s) K -> Knot cf s K.
Proof.
  intros HI Hne Hincl Hcl.
  assert (H0K : ~ In 0 K).
  { intros H0. apply Hincl, knot_V_In in H0 as [(nd & Hin & Hid) _]. apply In_nth_error in Hin as [k Hk]. specialize (HI k nd Hk). lia. }
  split; [exact Hne|]. intros j Hj. destruct (proj1 (knot_V_In cf s j) (Hincl j Hj)) as [(nd & Hin & Hid) (nc & c & Hc & Hcc)].
  exists nd, nc, c. split; [apply Idx_node_unique; assumption|]. split; [exact Hc|]. split; [exact Hcc|].
  intros sv Hsv. apply sv_target_inv; [|exact H0K]. apply (proj2 (Hcl j Hj)). apply succs_knot_graph. exists nd, sv. auto.
Qed.
(* ... and a knot whose nodes have servers is a non-empty closed set *)
Theorem knot_closed cf s K : Idx s -> Knot cf s K -> (forall j nd, In j K -> nodeZ s j = Some nd -> n_servers nd <> []) ->
  incl K (knot_V cf s) /\ Deadlock.closed (knot_graph s) K.
Proof.
  intros HI [_ HK] Hsv. split.
  - intros j Hj. destruct (HK j Hj) as (nd & nc & c & Hn & Hc & Hcc & _). apply knot_V_In. split; [|eauto].
    exists nd. split; [eapply nodeZ_In; eauto|eapply Idx_get; eauto].
  - intros j Hj. destruct (HK j Hj) as (nd & nc & c & Hn & Hc & Hcc & Hsvs). split.
    + destruct (n_servers nd) as [|sv r] eqn:Es; [exfalso; exact (Hsv j nd Hj Hn Es)|].
      intros E. assert (Hin : In (sv_target s sv) (Deadlock.succs (knot_graph s) j)); [|rewrite E in Hin; destruct Hin].
      apply succs_knot_graph. exists nd, sv. split; [eapply nodeZ_In; eauto|]. split; [eapply Idx_get; eauto|]. split; [rewrite Es; left; reflexivity|reflexivity].
    + intros w Hw. apply succs_knot_graph in Hw as (nd' & sv & Hin' & Hid' & Hsv' & ->).
      pose proof (Idx_node_unique s nd' j HI Hin' Hid') as Hn'. rewrite Hn in Hn'. injection Hn' as <-.
      apply sv_target_knot. apply (Hsvs sv Hsv').
Qed.

(* the computation decides whether the state contains a knot (whose nodes have servers) *)
Theorem deadlocked_b_iff cf s : Idx s ->
  (deadlocked_b cf s = true <-> exists K, Knot cf s K /\ forall j nd, In j K -> nodeZ s j = Some nd -> n_servers nd <> []).
Proof.
  intros HI. unfold deadlocked_b. rewrite Deadlock.deadlocked_iff_D. split.
  - intros (K & Hne & Hincl & Hcl). exists K. split; [apply closed_knot; assumption|].
    intros j nd Hj Hn Es. destruct (Hcl j Hj) as [Hs _]. apply Hs.
    destruct (Deadlock.succs (knot_graph s) j) as [|w r] eqn:E; [reflexivity|exfalso].
    assert (Hw : In w (Deadlock.succs (knot_graph s) j)) by (rewrite E; left; reflexivity).
    apply succs_knot_graph in Hw as (nd' & sv & Hin' & Hid' & Hsv' & _).
    pose proof (Idx_node_unique s nd' j HI Hin' Hid') as Hn'. rewrite Hn in Hn'. injection Hn' as <-. rewrite Es in Hsv'. destruct Hsv'.
  - intros (K & HK & Hsv). destruct (knot_closed cf s K HI HK Hsv) as [Hincl Hcl]. exists K. split; [exact (proj1 HK)|]. split; assumption.
Qed.

(* C18, soundness of stopping: when the structural computation says "deadlock" in a state that satisfies the stage-1
   invariants, there is a set of nodes none of whose servers' customers ever moves again, and the computation says
   "deadlock" after any number of further events, whatever the draws *)
Theorem deadlock_is_permanent cf s : SrvInv cf s -> Who cf s -> deadlocked_b cf s = true ->
  exists K, Knot cf s K /\
    forall ds s', run_many cf s ds = Ok s' -> Knot cf s' K /\ Same K s s' /\ deadlocked_b cf s' = true.
Proof.
  intros HS HW Hd. pose proof (WFx_Idx _ _ (proj1 HS)) as HI.
  apply (deadlocked_b_iff cf s HI) in Hd as (K & HK & Hsv). exists K. split; [exact HK|].
  intros ds s' H. destruct (run_many_knot cf K ds s s' (conj HK (conj HS HW)) H) as [(HK' & HS' & _) HSame].
  split; [exact HK'|]. split; [exact HSame|].
  apply (deadlocked_b_iff cf s' (WFx_Idx _ _ (proj1 HS'))). exists K. split; [exact HK'|].
  intros j nd' Hj Hn' Es. destruct (proj2 HK j Hj) as (nd & _ & _ & Hn & _).
  destruct (HSame j nd Hj Hn) as (nd2 & Hn2 & Hs2 & _). rewrite Hn' in Hn2. injection Hn2 as <-.
  apply (Hsv j nd Hj Hn). rewrite <- Hs2. exact Es.
Qed.

(* L [cfg; state] -> L [A d; A h]: d = 1 when the snapshot contains a knot (deadlocked_b), h = 1 when it satisfies the
   hypotheses SrvInv and Who of deadlock_is_permanent *)
Definition run_deadlockedb (inp : sx) : sx :=
  match inp with
  | L [c; s] =>
    match dec_cfg c, dec_sim s (L [L []; L []; L []; L []]) with
    | Some cf, Some st => L [A (if deadlocked_b cf st then 1 else 0); A (if srv_b cf st && who_b cf st then 1 else 0)]
    | _, _ => A (-1)
    end
  | _ => A (-1)
  end.

(* ====================================================================================================================
   Non-vacuity: two single-server nodes without waiting room that feed each other, both customers blocked
   ==================================================================================================================== *)
Definition kn_cf : config :=
  mkCfg 1 [mkNcfg (Some 1) (Some 1) None 0; mkNcfg (Some 1) (Some 1) None 0] [0] 1 None [[[0; 8]; [8; 0]]] [[None; None]].
(* customer 1 finished at node 1 at time 3 and wants node 2; customer 2 finished at node 2 at time 5 and wants node 1 *)
Definition kn_i1 : ind := mkInd 1 0 0 0 0 0 (Some 1) (Some 0) (Some 0) (Some 3) (Some 3) None true (Some 1) (Some 2) (Some 0) None 0.
Definition kn_i2 : ind := mkInd 2 0 0 0 0 0 (Some 2) (Some 1) (Some 1) (Some 4) (Some 5) None true (Some 1) (Some 1) (Some 0) None 0.
Definition kn_n1 : node := mkNode 1 1 1 [[1]] [mkServer 1 (Some 1) true None 0 None 0] [(2, 2)] 1 None [].
Definition kn_n2 : node := mkNode 2 1 1 [[2]] [mkServer 1 (Some 2) true None 0 None 0] [(1, 1)] 1 None [].
Definition kn_s : sim :=
  mkSim 7 0 (mkArr 2 2 [[Some 7]; [None]] 1 0 (Some 7)) [kn_n1; kn_n2] [] 0 0 [kn_i1; kn_i2] (mkDraws [] [] [] []) [].
(* one external arrival per event (batch of 1, next inter-arrival time 3): the node is full, the customer is rejected *)
Definition kn_d : draws := mkDraws [3] [1] [] [].

Example kn_hyps : knot_b kn_cf kn_s [1; 2] = true /\ srv_b kn_cf kn_s = true /\ who_b kn_cf kn_s = true /\ blk_b kn_cf kn_s = true /\ cap_b kn_cf kn_s = true.
Proof. vm_compute. auto. Qed.
Example kn_Knot : Knot kn_cf kn_s [1; 2].
Proof. apply knot_b_sound. vm_compute. reflexivity. Qed.
Example kn_KnotInv : KnotInv kn_cf [1; 2] kn_s.
Proof. apply knotinv_b_sound. vm_compute. reflexivity. Qed.
(* three events are three rejected arrivals (customers 3, 4, 5 go straight to the exit); the knot is still there, by computation *)
Example kn_run : exists s3, run_many kn_cf kn_s [kn_d; kn_d; kn_d] = Ok s3 /\
  now s3 = 16 /\ exit_ids s3 = [3; 4; 5] /\ map all_individuals (nodes s3) = [[1]; [2]] /\
  map n_servers (nodes s3) = map n_servers (nodes kn_s) /\ inds s3 = inds kn_s /\ knotinv_b kn_cf [1; 2] s3 = true.
Proof. eexists. split; [vm_compute; reflexivity|]. vm_compute. auto 8. Qed.
(* ... and after any number of events, whatever the draws, by the theorem *)
Example kn_forever : forall ds s', run_many kn_cf kn_s ds = Ok s' ->
  Knot kn_cf s' [1; 2] /\
  (exists nd1, nodeZ s' 1 = Some nd1 /\ n_servers nd1 = n_servers kn_n1 /\ In 1 (all_individuals nd1)) /\
  (exists nd2, nodeZ s' 2 = Some nd2 /\ n_servers nd2 = n_servers kn_n2 /\ In 2 (all_individuals nd2)) /\
  find_ind 1 (inds s') = Some kn_i1 /\ find_ind 2 (inds s') = Some kn_i2.
Proof.
  intros ds s' H. destruct kn_KnotInv as (HK & HS & HW).
  destruct (knot_is_permanent kn_cf [1; 2] ds kn_s s' HK HS HW H) as [HK' HP]. split; [exact HK'|].
  destruct (HP 1 kn_n1 ltac:(left; reflexivity) eq_refl) as (nd1 & Hn1 & Hs1 & Hf1).
  destruct (HP 2 kn_n2 ltac:(right; left; reflexivity) eq_refl) as (nd2 & Hn2 & Hs2 & Hf2).
  destruct (Hf1 _ 1 ltac:(left; reflexivity) eq_refl) as [A1 B1]. destruct (Hf2 _ 2 ltac:(left; reflexivity) eq_refl) as [A2 B2].
  split; [exists nd1; auto|]. split; [exists nd2; auto|]. split; [exact B1|exact B2].
Qed.

(* the nodes of a knot need not be full: the same knot when node 1 has a waiting room for one customer.  The first
   arrival (customer 3) is let into the waiting room of node 1 and waits there for ever (every server is busy); the later
   ones are rejected; the servers and the two blocked customers are as they were *)
Definition kn_cf2 : config :=
  mkCfg 1 [mkNcfg (Some 1) (Some 2) None 0; mkNcfg (Some 1) (Some 1) None 0] [0] 1 None [[[0; 8]; [8; 0]]] [[None; None]].
Example kn2_KnotInv : KnotInv kn_cf2 [1; 2] kn_s.
Proof. apply knotinv_b_sound. vm_compute. reflexivity. Qed.
Example kn2_run : exists s3, run_many kn_cf2 kn_s [kn_d; kn_d; kn_d] = Ok s3 /\
  exit_ids s3 = [4; 5] /\ map all_individuals (nodes s3) = [[1; 3]; [2]] /\ map n_pop (nodes s3) = [2; 1] /\
  map n_servers (nodes s3) = map n_servers (nodes kn_s) /\
  find_ind 1 (inds s3) = Some kn_i1 /\ find_ind 2 (inds s3) = Some kn_i2 /\
  option_map (fun x => (i_server x, i_sst x)) (find_ind 3 (inds s3)) = Some (None, None) /\
  knotinv_b kn_cf2 [1; 2] s3 = true.
Proof. eexists. split; [vm_compute; reflexivity|]. vm_compute. auto 10. Qed.
(* a set that is not a knot is refused by the test: node 1 alone (its customer wants node 2) *)
Example kn_deadlocked : deadlocked_b kn_cf kn_s = true /\ deadlocked_b kn_cf2 kn_s = true /\ deadlocked_b c07ex_cf c07ex_s0 = false.
Proof. vm_compute. auto. Qed.
Example kn_not_knot : knot_b kn_cf kn_s [1] = false /\ knot_b kn_cf kn_s [] = false /\ knot_b kn_cf kn_s [1; 2; 3] = false.
Proof. vm_compute. auto. Qed.

Print Assumptions event_step_same.
Print Assumptions event_step_knot.
Print Assumptions run_many_knot.
Print Assumptions knot_is_permanent.
Print Assumptions knot_means.
Print Assumptions knot_targets_full.
Print Assumptions deadlocked_b_iff.
Print Assumptions deadlock_is_permanent.
Print Assumptions knot_b_sound.
Print Assumptions knotinv_b_sound.
Print Assumptions kn_run.
Print Assumptions kn_forever.
Print Assumptions kn2_run.

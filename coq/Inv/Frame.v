(* Frame.v -- reasoning about the engine monad: inversion of bind, specifications of the primitives, and the frame
   lemmas: which engine functions leave the "shape" of the state (node identities, populations, queue contents, exit
   list, creation counter) untouched.  Partial correctness throughout: nothing is claimed when a function errs. *)
From Coq Require Import ZArith List Bool Lia.
From RecordUpdate Require Import RecordUpdate.
From CiwV Require Import Sx Prelude Routing.
From CiwV.Engine Require Import State Engine.
Import ListNotations.
Open Scope Z_scope.

(* ---------- shape ---------- *)
Definition nshape (nd : node) : Z * Z * list (list Z) := (n_id nd, n_pop nd, n_queues nd).
Definition shp (s : sim) := (map nshape (nodes s), exit_ids s, exit_n s, a_created (arr s)).
Definition pres {A} (m : M A) : Prop := forall s a s', m s = Ok (a, s') -> shp s' = shp s.

Lemma pres_ret {A} (a : A) : pres (ret a).
Proof. intros s a0 s' H. inversion H. reflexivity. Qed.
Lemma pres_fail {A} e : pres (@fail A e).
Proof. intros s a s' H. discriminate. Qed.
Lemma pres_bind {A B} (m : M A) (f : A -> M B) : pres m -> (forall a, pres (f a)) -> pres (bind m f).
Proof.
  intros Hm Hf s b s' H. unfold bind in H. destruct (m s) as [[a s1]| |] eqn:E; try discriminate.
  rewrite (Hf a _ _ _ H). eapply Hm; eauto.
Qed.
Lemma pres_gets {A} (f : sim -> A) : pres (gets f).
Proof. intros s a s' H. inversion H. reflexivity. Qed.
Lemma pres_lift {A} e (o : option A) : pres (lift e o).
Proof. destruct o; [apply pres_ret|apply pres_fail]. Qed.
Lemma pres_modify (f : sim -> sim) : (forall s, shp (f s) = shp s) -> pres (modify f).
Proof. intros Hf s a s' H. inversion H. apply Hf. Qed.
Lemma pres_if {A} (b : bool) (x y : M A) : pres x -> pres y -> pres (if b then x else y).
Proof. destruct b; auto. Qed.

Lemma pres_get_node j : pres (get_node j).
Proof. intros s a s' H. unfold get_node in H. destruct (nthZ (nodes s) (j - 1)); inversion H. reflexivity. Qed.
Lemma pres_get_ind i : pres (get_ind i).
Proof. intros s a s' H. unfold get_ind in H. destruct (find_ind i (inds s)); inversion H. reflexivity. Qed.
Lemma pres_put_ind x : pres (put_ind x).
Proof. apply pres_modify. reflexivity. Qed.
Lemma pres_del_ind i : pres (del_ind i).
Proof. apply pres_modify. reflexivity. Qed.
Lemma pres_log_rec r : pres (log_rec r).
Proof. apply pres_modify. reflexivity. Qed.
Lemma pres_ncfg_of cf j : pres (ncfg_of cf j).
Proof. apply pres_lift. Qed.
Lemma pres_is_inf cf j : pres (is_inf cf j).
Proof. unfold is_inf. apply pres_bind; [apply pres_ncfg_of|intros; apply pres_ret]. Qed.
Lemma pres_draw_arr : pres draw_arr.
Proof. intros s a s' H. unfold draw_arr in H. destruct (d_arr (dr s)); inversion H. reflexivity. Qed.
Lemma pres_draw_batch : pres draw_batch.
Proof. intros s a s' H. unfold draw_batch in H. destruct (d_batch (dr s)); inversion H. reflexivity. Qed.
Lemma pres_draw_svc : pres draw_svc.
Proof. intros s a s' H. unfold draw_svc in H. destruct (d_svc (dr s)); inversion H. reflexivity. Qed.
Lemma pres_draw_unif : pres draw_unif.
Proof. intros s a s' H. unfold draw_unif in H. destruct (d_unif (dr s)); inversion H. reflexivity. Qed.
Lemma pres_choice_uniform {A} (l : list A) : pres (choice_uniform l).
Proof. unfold choice_uniform. apply pres_bind; [apply pres_draw_unif|intros; apply pres_lift]. Qed.
Lemma pres_choice_weighted den P : pres (choice_weighted den P).
Proof.
  unfold choice_weighted. destruct P as [|p0 rest]; [apply pres_fail|].
  apply pres_if; [apply pres_ret|]. apply pres_bind; [apply pres_draw_unif|]. intros u. destruct (rc_loop den u p0 rest 0); [apply pres_ret|apply pres_fail].
Qed.

(* ---------- put_node ---------- *)
Lemma upd_map {A B} (f : A -> B) (l : list A) k x : map f (upd l k x) = upd (map f l) k (f x).
Proof. revert k; induction l as [|a l IH]; intros [|k]; cbn; try reflexivity; f_equal; apply IH. Qed.
Lemma upd_same {A} (l : list A) k x : nth_error l k = Some x -> upd l k x = l.
Proof. revert k; induction l as [|a l IH]; intros [|k] H; cbn in *; try discriminate; [injection H as ->; reflexivity|f_equal; auto]. Qed.

(* writing back a node whose identity, population and queues are those of the node in its slot leaves the shape alone *)
Lemma put_node_shape nd s s' : put_node nd s = Ok (tt, s') ->
  forall nd0, nthZ (nodes s) (n_id nd - 1) = Some nd0 -> nshape nd0 = nshape nd -> shp s' = shp s.
Proof.
  intros H nd0 Hn He. unfold put_node, modify in H. inversion H. subst s'. clear H.
  unfold shp. cbn. f_equal. f_equal. f_equal.
  unfold updZ, nthZ in *. destruct (n_id nd - 1 <? 0); [discriminate|].
  rewrite upd_map. apply upd_same. rewrite nth_error_map, Hn. cbn. f_equal. exact He.
Qed.

Lemma get_node_spec j s nd s' : get_node j s = Ok (nd, s') -> s' = s /\ nthZ (nodes s) (j - 1) = Some nd.
Proof. unfold get_node. destruct (nthZ (nodes s) (j - 1)) eqn:E; intros H; inversion H. subst. auto. Qed.

(* node identities are their positions *)
Definition Idx (s : sim) : Prop := forall k nd, nth_error (nodes s) k = Some nd -> n_id nd = Z.of_nat k + 1.
Lemma Idx_shape s s' : shp s' = shp s -> Idx s -> Idx s'.
Proof.
  intros H HI k nd Hk. unfold shp in H. injection H as H _ _ _.
  assert (Hm : nth_error (map nshape (nodes s)) k = Some (nshape nd)) by (rewrite <- H, nth_error_map, Hk; reflexivity).
  rewrite nth_error_map in Hm. destruct (nth_error (nodes s) k) as [nd0|] eqn:E0; [|discriminate]. cbn in Hm. injection Hm as Hm.
  specialize (HI _ _ E0). congruence.
Qed.
Lemma Idx_get s j nd : Idx s -> nthZ (nodes s) (j - 1) = Some nd -> n_id nd = j.
Proof.
  intros HI H. unfold nthZ in H. destruct (j - 1 <? 0) eqn:E; [discriminate|]. apply Z.ltb_ge in E.
  specialize (HI _ _ H). lia.
Qed.

(* a monadic action that reads node j and writes it back with the same identity, population and queues *)
Definition presI {A} (m : M A) : Prop := forall s a s', Idx s -> m s = Ok (a, s') -> shp s' = shp s.
Lemma pres_presI {A} (m : M A) : pres m -> presI m.
Proof. intros H s a s' _ E. eapply H; eauto. Qed.
Lemma presI_bind {A B} (m : M A) (f : A -> M B) : presI m -> (forall a, presI (f a)) -> presI (bind m f).
Proof.
  intros Hm Hf s b s' HI H. unfold bind in H. destruct (m s) as [[a s1]| |] eqn:E; try discriminate.
  pose proof (Hm _ _ _ HI E) as E1. rewrite (Hf a _ _ _ (Idx_shape _ _ E1 HI) H). exact E1.
Qed.
Lemma presI_if {A} (b : bool) (x y : M A) : presI x -> presI y -> presI (if b then x else y).
Proof. destruct b; auto. Qed.

(* the common pattern: nd <- get_node j ;; put_node (g nd) with g keeping the shape of the node *)
Lemma presI_update_node j (g : node -> node) : (forall nd, nshape (g nd) = nshape nd) ->
  presI (nd <- get_node j ;; put_node (g nd)).
Proof.
  intros Hg s a s' HI H. unfold bind in H. destruct (get_node j s) as [[nd s1]| |] eqn:E; try discriminate.
  apply get_node_spec in E as [-> Hn]. destruct a.
  pose proof (Idx_get _ _ _ HI Hn) as Hid.
  assert (Hid' : n_id (g nd) = j) by (specialize (Hg nd); unfold nshape in Hg; injection Hg as -> _ _; exact Hid).
  eapply put_node_shape; [exact H|rewrite Hid'; exact Hn|symmetry; apply Hg].
Qed.

(* ---------- read-only actions ---------- *)
Definition ro {A} (m : M A) : Prop := forall s a s', m s = Ok (a, s') -> s' = s.
Lemma ro_ret {A} (a : A) : ro (ret a). Proof. intros s a0 s' H; inversion H; reflexivity. Qed.
Lemma ro_gets {A} (f : sim -> A) : ro (gets f). Proof. intros s a s' H; inversion H; reflexivity. Qed.
Lemma ro_lift {A} e (o : option A) : ro (lift e o). Proof. destruct o as [x|]; intros s y s' H; inversion H; reflexivity. Qed.
Lemma ro_get_node j : ro (get_node j). Proof. intros s a s' H. apply get_node_spec in H. tauto. Qed.
Lemma ro_get_ind i : ro (get_ind i).
Proof. intros s a s' H. unfold get_ind in H. destruct (find_ind i (inds s)); inversion H; reflexivity. Qed.
Lemma ro_bind {A B} (m : M A) (f : A -> M B) : ro m -> (forall a, ro (f a)) -> ro (bind m f).
Proof.
  intros Hm Hf s b s' H. unfold bind in H. destruct (m s) as [[a s1]| |] eqn:E; try discriminate.
  apply Hm in E. subst s1. eapply Hf; eauto.
Qed.
Lemma ro_ncfg_of cf j : ro (ncfg_of cf j). Proof. apply ro_lift. Qed.
Lemma ro_is_inf cf j : ro (is_inf cf j). Proof. apply ro_bind; [apply ro_ncfg_of|intros; apply ro_ret]. Qed.

Ltac minv H :=
  match type of H with
  | bind ?m ?f ?s = Ok _ =>
    let a := fresh "a" in let s1 := fresh "s" in let E := fresh "E" in
    unfold bind in H at 1; destruct (m s) as [[a s1]| |] eqn:E; [|discriminate H|discriminate H]
  end.

(* ---------- frame lemmas for the engine functions that never move a customer ---------- *)
Section Frames.
  Variable cf : config.

  Lemma pres_choose_next_customer nd : pres (choose_next_customer cf nd).
  Proof.
    unfold choose_next_customer. apply pres_bind; [apply pres_gets|]. intros il.
    destruct (first_waiting (n_queues nd) il) as [|w0 wr]; [apply pres_ret|].
    apply pres_bind; [apply pres_ncfg_of|]. intros nc.
    apply pres_if; [apply pres_ret|]. apply pres_if; [apply pres_ret|].
    apply pres_bind; [apply pres_choice_uniform|intros; apply pres_ret].
  Qed.

  Lemma presI_start_service j i srv : presI (start_service j i srv).
  Proof.
    unfold start_service.
    apply presI_bind; [apply pres_presI, pres_gets|]. intros t.
    apply presI_bind; [apply pres_presI, pres_get_ind|]. intros x.
    apply presI_bind; [apply pres_presI, pres_draw_svc|]. intros st.
    apply presI_bind; [apply pres_presI, pres_put_ind|]. intros _.
    apply (presI_update_node j (fun nd => nd <| n_insvc := n_insvc nd + 1 |> <| n_servers := match srv with
                    | Some sv => put_server_l (sv <| sv_cust := Some i |> <| sv_busy := true |> <| sv_next_end := Some (t + st) |>) (n_servers nd)
                    | None => n_servers nd end |>)).
    intros nd. reflexivity.
  Qed.

  Lemma presI_bsip_accept j i : presI (begin_service_if_possible_accept cf j i).
  Proof.
    unfold begin_service_if_possible_accept.
    apply presI_bind; [apply pres_presI, pres_gets|]. intros t.
    apply presI_bind; [apply pres_presI, pres_get_ind|]. intros x.
    apply presI_bind; [apply pres_presI, pres_put_ind|]. intros _.
    apply presI_bind; [apply pres_presI, pres_is_inf|]. intros inf.
    apply presI_bind; [apply pres_presI, pres_get_node|]. intros nd.
    apply presI_bind; [apply pres_presI; destruct inf; [apply pres_ret|apply pres_choose_next_customer]|]. intros cand.
    destruct cand as [c|]; [|apply pres_presI, pres_ret].
    destruct inf; [apply presI_start_service|].
    destruct (find_free_server (n_servers nd)); [apply presI_start_service|apply pres_presI, pres_ret].
  Qed.

  Lemma pres_write_individual_record j x : pres (write_individual_record cf j x).
  Proof.
    unfold write_individual_record. apply pres_bind; [apply pres_is_inf|]. intros inf.
    apply pres_bind; [apply pres_log_rec|intros; apply pres_put_ind].
  Qed.
  Lemma pres_write_br_record j x ty : pres (write_br_record j x ty).
  Proof.
    unfold write_br_record. apply pres_bind; [apply pres_gets|]. intros t.
    apply pres_bind; [apply pres_get_node|intros; apply pres_log_rec].
  Qed.

  Lemma presI_bsip_release j freed : presI (begin_service_if_possible_release cf j freed).
  Proof.
    unfold begin_service_if_possible_release. destruct freed as [sid|]; [|apply pres_presI, pres_ret].
    apply presI_bind; [apply pres_presI, pres_get_node|]. intros nd.
    destruct (find_server sid (n_servers nd)); [|apply pres_presI, pres_ret].
    apply presI_bind; [apply pres_presI, pres_choose_next_customer|]. intros cand.
    destruct cand; [apply presI_start_service|apply pres_presI, pres_ret].
  Qed.

  Lemma presI_block_individual j i d : presI (block_individual j i d).
  Proof.
    unfold block_individual.
    apply presI_bind; [apply pres_presI, pres_get_ind|]. intros x.
    apply presI_bind; [apply pres_presI, pres_put_ind|]. intros _.
    apply (presI_update_node d (fun dn => dn <| n_bq := n_bq dn ++ [(j, i)] |> <| n_lenbq := n_lenbq dn + 1 |>)).
    intros nd. reflexivity.
  Qed.

  Lemma presI_update_next_event_date j : presI (update_next_event_date cf j).
  Proof.
    intros s a s' HI H. unfold update_next_event_date in H.
    minv H. apply get_node_spec in E as [-> Hn].
    minv H. apply ro_is_inf in E. subst.
    minv H. apply ro_gets in E. subst.
    minv H. apply ro_gets in E. subst.
    destruct (if a1 then scan_inds a2 (all_individuals a0) a3 None [] else scan_servers (n_servers a0) None []) as [d l].
    destruct a. pose proof (Idx_get _ _ _ HI Hn) as Hid.
    eapply put_node_shape; [exact H|cbn; rewrite Hid; exact Hn|reflexivity].
  Qed.

  Lemma presI_update_all js : presI (update_all cf js).
  Proof.
    induction js as [|j r IH]; cbn [update_all]; [apply pres_presI, pres_ret|].
    apply presI_bind; [apply presI_update_next_event_date|intros; exact IH].
  Qed.

  Lemma pres_find_next_event_date : pres find_next_event_date.
  Proof.
    apply pres_modify. intros s. destruct (find_min_dates 1 (a_dates (arr s)) (None, 0, 0)) as [[d j] c]. reflexivity.
  Qed.

  Lemma pres_find_next_active_node : pres find_next_active_node.
  Proof.
    unfold find_next_active_node. apply pres_bind; [apply pres_gets|]. intros s0.
    destruct (scan_active 0 (a_next_date (arr s0) :: map n_next_date (nodes s0)) None [] true) as [d cands].
    apply pres_bind.
    - destruct cands as [|a [|b r]]; [apply pres_fail|apply pres_ret|apply pres_choice_uniform].
    - intros k. apply pres_modify. reflexivity.
  Qed.
End Frames.

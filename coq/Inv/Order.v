(* Order.v -- T2 for C08 on the engine model, function level: what choose_next_customer returns is the customer the
   property prescribes (first priority class with anyone waiting; FIFO = first in queue order, LIFO = last, SIRO = any
   waiting one), the service-start block is reached only with that customer, and nothing else about any other customer
   changes in a service start.  Queue order is arrival order: accept appends at the tail of the class's queue. *)
From Coq Require Import ZArith List Bool Lia.
From RecordUpdate Require Import RecordUpdate.
From CiwV Require Import Sx Prelude Routing.
From CiwV.Engine Require Import State Engine Codec.
From CiwV.Inv Require Import Frame Conserve.
Import ListNotations.
Open Scope Z_scope.

(* a customer is waiting when it is known and has no server *)
Definition iswait (il : list ind) (i : Z) : bool :=
  match find_ind i il with Some x => match i_server x with None => true | Some _ => false end | None => false end.

Lemma waiting_of_filter q il : waiting_of q il = filter (iswait il) q.
Proof.
  induction q as [|i r IH]; cbn; [reflexivity|]. unfold iswait at 1.
  destruct (find_ind i il) as [x|]; [destruct (i_server x)|]; cbn; rewrite IH; reflexivity.
Qed.

(* the first priority class (lowest index) in which somebody waits, in queue order *)
Lemma first_waiting_spec qs il :
  (first_waiting qs il = [] /\ Forall (fun q => filter (iswait il) q = []) qs) \/
  (exists pre q post, qs = pre ++ q :: post /\ Forall (fun q' => filter (iswait il) q' = []) pre /\
     first_waiting qs il = filter (iswait il) q /\ filter (iswait il) q <> []).
Proof.
  induction qs as [|q r IH]; cbn [first_waiting]; [left; split; [reflexivity|constructor]|].
  rewrite waiting_of_filter. destruct (filter (iswait il) q) as [|w0 wr] eqn:E.
  - destruct IH as [[H1 H2]|(pre & q0 & post & H1 & H2 & H3 & H4)].
    + left. split; [exact H1|constructor; assumption].
    + right. exists (q :: pre), q0, post. split; [rewrite H1; reflexivity|]. split; [constructor; assumption|]. split; assumption.
  - right. exists [], q, r. split; [reflexivity|]. split; [constructor|]. rewrite E. split; [reflexivity|discriminate].
Qed.

Lemma find_put_ind x l i : find_ind i (put_ind_l x l) = if i =? i_id x then Some x else find_ind i l.
Proof.
  induction l as [|y r IH]; cbn.
  - rewrite (Z.eqb_sym (i_id x) i). reflexivity.
  - destruct (i_id y =? i_id x) eqn:E; cbn.
    + apply Z.eqb_eq in E. rewrite (Z.eqb_sym (i_id x) i). destruct (i =? i_id x) eqn:E2; [reflexivity|].
      rewrite E. rewrite (Z.eqb_sym (i_id x) i), E2. reflexivity.
    + destruct (i_id y =? i) eqn:E2; [|exact IH].
      apply Z.eqb_eq in E2. apply Z.eqb_neq in E. destruct (i =? i_id x) eqn:E3; [apply Z.eqb_eq in E3; lia|reflexivity].
Qed.

Lemma last_cons {A} (r : list A) : forall d a, last (a :: r) d = last r a.
Proof. induction r as [|b r IH]; intros d a; [reflexivity|]. change (last (a :: b :: r) d) with (last (b :: r) d). rewrite (IH d b), (IH a b). reflexivity. Qed.
Lemma last_In {A} (r : list A) : forall d, In (last r d) (d :: r).
Proof. induction r as [|b r IH]; intros d; [left; reflexivity|]. right. rewrite last_cons. apply IH. Qed.

Section Order.
  Variable cf : config.

  Definition disc_of (j : Z) : option Z := option_map nc_disc (nthZ (cf_nodes cf) (j - 1)).

  (* ---- what choose_next_customer returns ---- *)
  Theorem choose_next_customer_spec nd s r s' : choose_next_customer cf nd s = Ok (r, s') ->
    inds s' = inds s /\ nodes s' = nodes s /\
    let w := first_waiting (n_queues nd) (inds s) in
    match r with
    | None => w = []
    | Some c => In c w /\ exists d, disc_of (n_id nd) = Some d /\
                  (d = 0 -> hd_error w = Some c) /\ (d = 1 -> last w c = c /\ w <> [])
    end.
  Proof.
    unfold choose_next_customer, bind, gets. intros H.
    destruct (first_waiting (n_queues nd) (inds s)) as [|w0 wr] eqn:W.
    - inversion H. subst. auto.
    - unfold ncfg_of, lift, disc_of in *. destruct (nthZ (cf_nodes cf) (n_id nd - 1)) as [nc|]; [|discriminate H].
      cbn [ret option_map] in *. destruct (nc_disc nc =? 0) eqn:D0; [|destruct (nc_disc nc =? 1) eqn:D1].
      + inversion H. subst. split; [reflexivity|]. split; [reflexivity|]. cbn. split; [left; reflexivity|].
        exists (nc_disc nc). split; [reflexivity|]. split; [reflexivity|]. apply Z.eqb_eq in D0. intros; lia.
      + inversion H. subst. split; [reflexivity|]. split; [reflexivity|]. cbn zeta. split.
        * apply last_In.
        * exists (nc_disc nc). split; [reflexivity|]. apply Z.eqb_neq in D0. split; [intros; lia|]. intros _. split; [|discriminate].
          apply last_cons.
      + unfold choice_uniform, bind, draw_unif in H. destruct (d_unif (dr s)) as [|u ur]; [discriminate H|].
        unfold lift in H. destruct (nth_error (w0 :: wr) (rc_uniform (length (w0 :: wr)) u)) as [c|] eqn:N; [|discriminate H].
        cbn in H. inversion H. subst. split; [reflexivity|]. split; [reflexivity|]. cbn zeta. split; [eapply nth_error_In; exact N|].
        exists (nc_disc nc). apply Z.eqb_neq in D0, D1. split; [reflexivity|]. split; intros; lia.
  Qed.

  (* in the property's words: the chosen customer waits, is in the first class with anyone waiting, and no customer
     of a more urgent class waits; FIFO: nobody of its class that waits stands before it; LIFO: nobody after it *)
  Corollary chosen_is_prescribed nd s c s' : choose_next_customer cf nd s = Ok (Some c, s') ->
    exists pre q post d, n_queues nd = pre ++ q :: post /\ disc_of (n_id nd) = Some d /\
      In c q /\ iswait (inds s) c = true /\
      (forall q' i, In q' pre -> In i q' -> iswait (inds s) i = false) /\
      (d = 0 -> exists a b, q = a ++ c :: b /\ forall i, In i a -> iswait (inds s) i = false) /\
      (d = 1 -> exists a b, q = a ++ c :: b /\ forall i, In i b -> iswait (inds s) i = false).
  Proof.
    intros H. destruct (choose_next_customer_spec _ _ _ _ H) as (_ & _ & Hin & d & Hd & H0 & H1).
    destruct (first_waiting_spec (n_queues nd) (inds s)) as [[E _]|(pre & q & post & Eq & Hpre & Ew & Hne)].
    - rewrite E in Hin. destruct Hin.
    - exists pre, q, post, d. rewrite Ew in Hin, H0, H1. apply filter_In in Hin as [Hq Hw].
      split; [exact Eq|]. split; [exact Hd|]. split; [exact Hq|]. split; [exact Hw|]. split.
      + intros q' i Hq' Hi. rewrite Forall_forall in Hpre. specialize (Hpre q' Hq').
        destruct (iswait (inds s) i) eqn:E; [|reflexivity]. exfalso.
        assert (In i (filter (iswait (inds s)) q')) by (apply filter_In; auto). rewrite Hpre in H2. destruct H2.
      + split.
        * intros D. specialize (H0 D). clear -H0. induction q as [|a r IH]; cbn in H0; [discriminate|].
          destruct (iswait (inds s) a) eqn:E.
          -- cbn in H0. injection H0 as ->. exists [], r. split; [reflexivity|]. intros i [].
          -- destruct (IH H0) as (x & y & -> & Hx). exists (a :: x), y. split; [reflexivity|]. intros i [<-|Hi]; [exact E|apply Hx; exact Hi].
        * intros D. destruct (H1 D) as [Hl Hn]. clear -Hl Hn.
          induction q as [|a r IH]; cbn in *; [congruence|].
          destruct (iswait (inds s) a) eqn:E.
          -- destruct (filter (iswait (inds s)) r) as [|b t] eqn:F.
             ++ cbn in Hl. subst a. exists [], r. split; [reflexivity|]. intros i Hi.
                destruct (iswait (inds s) i) eqn:Ei; [|reflexivity]. exfalso.
                assert (In i (filter (iswait (inds s)) r)) by (apply filter_In; auto). rewrite F in H. destruct H.
             ++ assert (Hl' : last (b :: t) c = c) by (cbn [last] in Hl; exact Hl).
                destruct (IH Hl') as (x & y & -> & Hy); [discriminate|]. exists (a :: x), y. split; [reflexivity|exact Hy].
          -- destruct (IH Hl Hn) as (x & y & -> & Hy). exists (a :: x), y. split; [reflexivity|exact Hy].
  Qed.

  (* ---- a service start changes the chosen customer only ---- *)
  Lemma start_service_frame j i srv s s' : start_service j i srv s = Ok (tt, s') ->
    forall i', i' <> i -> find_ind i' (inds s') = find_ind i' (inds s).
  Proof.
    unfold start_service, bind, gets. intros H i' Hne.
    destruct (get_ind i s) as [[x s1]| |] eqn:E1; try discriminate. apply get_ind_id in E1 as [-> Hid].
    destruct (draw_svc s) as [[st s2]| |] eqn:E2; try discriminate.
    assert (Hi2 : inds s2 = inds s) by (unfold draw_svc in E2; destruct (d_svc (dr s)); inversion E2; reflexivity).
    unfold put_ind, modify in H. cbn in H.
    match type of H with context [get_node j ?s3] => destruct (get_node j s3) as [[nd s4]| |] eqn:E4; try discriminate;
      apply get_node_spec in E4 as [-> _] end.
    unfold put_node, modify in H. inversion H. cbn. rewrite find_put_ind. cbn. rewrite Hid, Hi2.
    destruct (i' =? i) eqn:E; [apply Z.eqb_eq in E; contradiction|reflexivity].
  Qed.

  (* after a release the freed server is given to the discipline's choice and to nobody else *)
  Theorem bsip_release_starts_chosen j sid s s' : begin_service_if_possible_release cf j (Some sid) s = Ok (tt, s') ->
    inds s' = inds s \/
    exists nd c s1, nthZ (nodes s) (j - 1) = Some nd /\ choose_next_customer cf nd s = Ok (Some c, s1) /\
      forall i', i' <> c -> find_ind i' (inds s') = find_ind i' (inds s).
  Proof.
    unfold begin_service_if_possible_release, bind. intros H.
    destruct (get_node j s) as [[nd s0]| |] eqn:E0; try discriminate. apply get_node_spec in E0 as [-> Hn].
    destruct (find_server sid (n_servers nd)) as [sv|]; [|inversion H; left; reflexivity].
    destruct (choose_next_customer cf nd s) as [[r s1]| |] eqn:E1; try discriminate.
    destruct r as [c|]; [|inversion H; subst; left; apply (choose_next_customer_spec _ _ _ _ E1)].
    right. exists nd, c, s1. split; [exact Hn|]. split; [exact E1|]. intros i' Hne.
    rewrite (start_service_frame _ _ _ _ _ H i' Hne). destruct (choose_next_customer_spec _ _ _ _ E1) as [-> _]. reflexivity.
  Qed.

  (* at an arrival to a node with servers: the service started (if any) is the discipline's choice among those waiting,
     the arriving customer included *)
  Theorem bsip_accept_starts_chosen j i s s' nc c0 : nthZ (cf_nodes cf) (j - 1) = Some nc -> nc_c nc = Some c0 ->
    begin_service_if_possible_accept cf j i s = Ok (tt, s') ->
    exists s0, (forall i', i' <> i -> find_ind i' (inds s0) = find_ind i' (inds s)) /\ nodes s0 = nodes s /\
    ((forall i', i' <> i -> find_ind i' (inds s') = find_ind i' (inds s0)) /\ find_ind i (inds s') = find_ind i (inds s0) \/
     exists nd c s1, nthZ (nodes s0) (j - 1) = Some nd /\ choose_next_customer cf nd s0 = Ok (Some c, s1) /\
       forall i', i' <> c -> find_ind i' (inds s') = find_ind i' (inds s0)).
  Proof.
    intros Hnc Hc. unfold begin_service_if_possible_accept, bind, gets. intros H.
    destruct (get_ind i s) as [[x s1]| |] eqn:E1; try discriminate. apply get_ind_id in E1 as [-> Hid].
    unfold put_ind, modify in H. cbn in H.
    set (s0 := s <| inds := put_ind_l (x <| i_arr := Some (now s) |>) (inds s) |>) in *.
    exists s0. split.
    { intros i' Hne. subst s0. cbn. rewrite find_put_ind. cbn. rewrite Hid. destruct (i' =? i) eqn:E; [apply Z.eqb_eq in E; contradiction|reflexivity]. }
    split; [reflexivity|].
    unfold is_inf, bind, ncfg_of, lift in H. rewrite Hnc in H. cbn in H. rewrite Hc in H.
    destruct (get_node j s0) as [[nd s2]| |] eqn:E2; try discriminate. apply get_node_spec in E2 as [-> Hn].
    destruct (choose_next_customer cf nd s0) as [[r s3]| |] eqn:E3; try discriminate.
    destruct (choose_next_customer_spec _ _ _ _ E3) as (Hi3 & _).
    destruct r as [c|]; [|inversion H; subst; left; rewrite Hi3; split; reflexivity].
    destruct (find_free_server (n_servers nd)) as [sv|]; [|inversion H; subst; left; rewrite Hi3; split; reflexivity].
    right. exists nd, c, s3. split; [exact Hn|]. split; [exact E3|]. intros i' Hne.
    rewrite (start_service_frame _ _ _ _ _ H i' Hne), Hi3. reflexivity.
  Qed.

  (* ---- queue order is arrival order: accept puts the customer at the tail of the queue of its declared priority ---- *)
  Theorem accept_appends j x s s' : Idx s -> accept cf j x s = Ok (tt, s') ->
    exists nd nd' q, nthZ (nodes s) (j - 1) = Some nd /\ nthZ (nodes s') (j - 1) = Some nd' /\
      nthZ (n_queues nd) (i_prio x) = Some q /\ n_queues nd' = updZ (n_queues nd) (i_prio x) (q ++ [i_id x]).
  Proof.
    intros HI H. unfold accept in H. unfold bind at 1 in H.
    destruct (get_node j s) as [[nd s0]| |] eqn:E0; try discriminate. apply get_node_spec in E0 as [-> Hn].
    pose proof (Idx_get _ _ _ HI Hn) as Hid.
    unfold bind at 1 in H. unfold put_ind, modify in H. cbn [fst snd] in H.
    unfold bind at 1 in H. destruct (nthZ (n_queues nd) (i_prio x)) as [q|] eqn:Eq; [|discriminate H]. cbn [lift ret] in H.
    unfold bind at 1 in H. unfold put_node at 1, modify in H.
    match type of H with begin_service_if_possible_accept _ _ _ ?s2 = _ => set (s2' := s2) in * end.
    assert (Hsh : shp s' = shp s2') by (eapply presI_bsip_accept; [|exact H];
      intros k nd0 Hk; subst s2'; cbn in Hk; cbn [n_id] in Hk;
      destruct (nthZ_nat _ _ _ Hn) as (k0 & Hk0 & Hnk); rewrite Hid, Hk0, updZ_nat in Hk;
      destruct (Nat.eq_dec k0 k) as [<-|Hne]; [rewrite (nth_error_upd_eq _ _ _ _ Hnk) in Hk; injection Hk as <-; cbn; lia|
      rewrite nth_error_upd_neq in Hk by exact Hne; apply (HI _ _ Hk)]).
    assert (Hn2 : nthZ (nodes s2') (j - 1) = Some (nd <| n_queues := updZ (n_queues nd) (i_prio x) (q ++ [i_id x]) |> <| n_pop := n_pop nd + 1 |>)).
    { subst s2'. cbn. cbn [n_id]. rewrite Hid. destruct (nthZ_nat _ _ _ Hn) as (k0 & Hk0 & Hnk). rewrite Hk0, updZ_nat.
      unfold nthZ. destruct (Z.of_nat k0 <? 0) eqn:E; [apply Z.ltb_lt in E; lia|]. rewrite Nat2Z.id. apply (nth_error_upd_eq _ _ _ _ Hnk). }
    assert (Hsh' : map nshape (nodes s') = map nshape (nodes s2')) by (unfold shp in Hsh; injection Hsh as E _ _ _; exact E).
    clear Hsh. rename Hsh' into Hsh.
    destruct (nthZ_nat _ _ _ Hn2) as (k & Hk & Hnk).
    assert (Hm : nth_error (map nshape (nodes s')) k = Some (nshape (nd <| n_queues := updZ (n_queues nd) (i_prio x) (q ++ [i_id x]) |> <| n_pop := n_pop nd + 1 |>)))
      by (rewrite Hsh, nth_error_map, Hnk; reflexivity).
    rewrite nth_error_map in Hm. destruct (nth_error (nodes s') k) as [nd'|] eqn:En; [|discriminate Hm]. cbn in Hm. injection Hm as _ _ Hq.
    exists nd, nd', q. split; [exact Hn|]. split; [|split; [exact Eq|exact Hq]].
    unfold nthZ. rewrite Hk. destruct (Z.of_nat k <? 0) eqn:E; [apply Z.ltb_lt in E; lia|]. rewrite Nat2Z.id. exact En.
  Qed.
End Order.

(* non-vacuity: a node whose class-0 queue holds customer 5 (in service) and 7, 9 (waiting), class 1 holds 3 (waiting) *)
Example choose_example :
  let mk i srv := mkInd i 0 0 0 0 0 (Some 1) None None None None None false srv None None None 0 in
  let il := [mk 5 (Some 1); mk 7 None; mk 9 None; mk 3 None] in
  first_waiting [[5; 7; 9]; [3]] il = [7; 9].
Proof. vm_compute. reflexivity. Qed.

Print Assumptions choose_next_customer_spec.
Print Assumptions chosen_is_prescribed.
Print Assumptions bsip_release_starts_chosen.
Print Assumptions bsip_accept_starts_chosen.
Print Assumptions accept_appends.

(* Conserve.v -- T2 for C01 on the engine model: every event of the engine preserves customer conservation, for every
   configuration, every state satisfying the invariant and every oracle (draws).  The invariant WFx fl says: node
   identities are positions, every population counter is the number of customers queued at that node, the exit counter
   is the length of the exit list, and the identifiers found in the queues and at the exit, together with the
   customers "in flight" fl (removed from one place and not yet put into the next), are exactly 1..created. *)
From Coq Require Import ZArith List Bool Lia Permutation.
From RecordUpdate Require Import RecordUpdate.
From CiwV Require Import Sx Prelude Routing.
From CiwV.Engine Require Import State Engine.
From CiwV.Inv Require Import Frame.
Import ListNotations.
Open Scope Z_scope.

Definition shape := (list (Z * Z * list (list Z)) * list Z * Z * Z)%type.
Definition sh_ids (sh : shape) : list Z := let '(ns, ex, _, _) := sh in concat (map (fun t => concat (snd t)) ns) ++ ex.
Definition sh_counts (sh : shape) : Prop :=
  let '(ns, ex, en, _) := sh in Forall (fun t => snd (fst t) = zlen (concat (snd t))) ns /\ en = zlen ex.
Definition sh_created (sh : shape) : Z := let '(_, _, _, c) := sh in c.
Definition sh_idx (sh : shape) : Prop :=
  let '(ns, _, _, _) := sh in forall k t, nth_error ns k = Some t -> fst (fst t) = Z.of_nat k + 1.

Definition WFsh (fl : list Z) (sh : shape) : Prop :=
  sh_idx sh /\ sh_counts sh /\ 0 <= sh_created sh /\ Permutation (sh_ids sh ++ fl) (zseq 1 (Z.to_nat (sh_created sh))).
Definition WFx (fl : list Z) (s : sim) : Prop := WFsh fl (shp s).

Lemma WFx_Idx fl s : WFx fl s -> Idx s.
Proof.
  intros (A & _). intros k nd Hk. unfold shp, sh_idx in A.
  specialize (A k (nshape nd)). rewrite nth_error_map, Hk in A. apply (A eq_refl).
Qed.
Lemma WFx_shape fl s s' : shp s' = shp s -> WFx fl s -> WFx fl s'.
Proof. unfold WFx. intros ->. auto. Qed.
Lemma WFx_presI {A} (m : M A) fl s a s' : presI m -> WFx fl s -> m s = Ok (a, s') -> WFx fl s'.
Proof. intros Hm HW H. eapply WFx_shape; [|exact HW]. eapply Hm; [eapply WFx_Idx; exact HW|exact H]. Qed.
Lemma WFx_pres {A} (m : M A) fl s a s' : pres m -> WFx fl s -> m s = Ok (a, s') -> WFx fl s'.
Proof. intros Hm. apply WFx_presI. apply pres_presI. exact Hm. Qed.

(* ---------- list facts ---------- *)
Lemma remove_first_perm i l l' : remove_first i l = Some l' -> Permutation l (i :: l').
Proof.
  revert l'; induction l as [|h t IH]; cbn; intros l' H; [discriminate|].
  destruct (h =? i) eqn:E.
  - apply Z.eqb_eq in E. subst. injection H as <-. reflexivity.
  - destruct (remove_first i t) as [t'|] eqn:Et; cbn in H; [|discriminate]. injection H as <-.
    rewrite (IH _ eq_refl). apply perm_swap.
Qed.

Lemma concat_upd_perm {A} (ls : list (list A)) k l l' x :
  nth_error ls k = Some l -> Permutation l' (x :: l) -> Permutation (concat (upd ls k l')) (x :: concat ls).
Proof.
  revert k; induction ls as [|h t IH]; intros [|k] Hn Hp; cbn in *; try discriminate.
  - injection Hn as ->. rewrite Hp. reflexivity.
  - rewrite (IH _ Hn Hp). rewrite Permutation_middle. reflexivity.
Qed.
Lemma concat_upd_perm_rm {A} (ls : list (list A)) k l l' x :
  nth_error ls k = Some l -> Permutation l (x :: l') -> Permutation (x :: concat (upd ls k l')) (concat ls).
Proof.
  revert k; induction ls as [|h t IH]; intros [|k] Hn Hp; cbn in *; try discriminate.
  - injection Hn as ->. rewrite Hp. reflexivity.
  - rewrite <- (IH _ Hn Hp). rewrite Permutation_middle. reflexivity.
Qed.

Lemma Forall_upd {A} (P : A -> Prop) l k x : Forall P l -> P x -> Forall P (upd l k x).
Proof. revert k; induction l as [|a l IH]; intros [|k] H Hx; cbn; auto; inversion H; subst; constructor; auto. Qed.

Lemma zseq_snoc s n : zseq s (S n) = zseq s n ++ [s + Z.of_nat n].
Proof. replace (S n) with (n + 1)%nat by lia. rewrite zseq_app. reflexivity. Qed.

(* the shape after writing a node back into its own slot *)
Lemma shp_put_node nd s s' k nd0 : put_node nd s = Ok (tt, s') -> n_id nd - 1 = Z.of_nat k -> nth_error (nodes s) k = Some nd0 ->
  shp s' = (upd (map nshape (nodes s)) k (nshape nd), exit_ids s, exit_n s, a_created (arr s)).
Proof.
  intros H Hk Hn. unfold put_node, modify in H. inversion H. subst s'. clear H. unfold shp. cbn. f_equal. f_equal. f_equal.
  unfold updZ. rewrite Hk. destruct (Z.of_nat k <? 0) eqn:E; [apply Z.ltb_lt in E; lia|]. rewrite Nat2Z.id. apply upd_map.
Qed.

Lemma nthZ_nat {A} (l : list A) j x : nthZ l j = Some x -> exists k, j = Z.of_nat k /\ nth_error l k = Some x.
Proof. unfold nthZ. destruct (j <? 0) eqn:E; [discriminate|]. apply Z.ltb_ge in E. intros H. exists (Z.to_nat j). split; [lia|exact H]. Qed.

Lemma find_ind_id i l x : find_ind i l = Some x -> i_id x = i.
Proof. induction l as [|y r IH]; cbn; [discriminate|]. destruct (i_id y =? i) eqn:E; [intros H; injection H as <-; apply Z.eqb_eq; exact E|exact IH]. Qed.
Lemma get_ind_id i s x s' : get_ind i s = Ok (x, s') -> s' = s /\ i_id x = i.
Proof. unfold get_ind. destruct (find_ind i (inds s)) eqn:E; intros H; inversion H. subst. split; [reflexivity|eapply find_ind_id; eauto]. Qed.


(* ---------- the four ways the shape changes ---------- *)
Lemma nth_error_upd_eq {A} (l : list A) k x y : nth_error l k = Some y -> nth_error (upd l k x) k = Some x.
Proof. revert k; induction l as [|a l IH]; intros [|k] H; cbn in *; try discriminate; auto. Qed.
Lemma nth_error_upd_neq {A} (l : list A) k k' x : k <> k' -> nth_error (upd l k x) k' = nth_error l k'.
Proof. revert k k'; induction l as [|a l IH]; intros [|k] [|k'] H; cbn; auto; try congruence. Qed.

Lemma map_concat_upd_add (ns : list (Z * Z * list (list Z))) k t t' x :
  nth_error ns k = Some t -> Permutation (concat (snd t')) (x :: concat (snd t)) ->
  Permutation (concat (map (fun t => concat (snd t)) (upd ns k t'))) (x :: concat (map (fun t => concat (snd t)) ns)).
Proof.
  revert k; induction ns as [|h r IH]; intros [|k] Hn Hp; cbn in *; try discriminate.
  - injection Hn as ->. rewrite Hp. reflexivity.
  - rewrite (IH _ Hn Hp). rewrite Permutation_middle. reflexivity.
Qed.
Lemma map_concat_upd_rm (ns : list (Z * Z * list (list Z))) k t t' x :
  nth_error ns k = Some t -> Permutation (concat (snd t)) (x :: concat (snd t')) ->
  Permutation (x :: concat (map (fun t => concat (snd t)) (upd ns k t'))) (concat (map (fun t => concat (snd t)) ns)).
Proof.
  revert k; induction ns as [|h r IH]; intros [|k] Hn Hp; cbn in *; try discriminate.
  - injection Hn as ->. rewrite Hp. reflexivity.
  - rewrite <- (IH _ Hn Hp). rewrite Permutation_middle. reflexivity.
Qed.

Lemma sh_idx_upd ns ex en c k t t' : sh_idx (ns, ex, en, c) -> nth_error ns k = Some t -> fst (fst t') = fst (fst t) ->
  sh_idx (upd ns k t', ex, en, c).
Proof.
  intros HI Hn He k' u Hu. destruct (Nat.eq_dec k k') as [<-|Hne].
  - rewrite (nth_error_upd_eq _ _ _ _ Hn) in Hu. injection Hu as <-. rewrite He. apply (HI k t Hn).
  - rewrite nth_error_upd_neq in Hu by exact Hne. apply (HI k' u Hu).
Qed.

(* customer x, in flight, is appended to a queue of node k *)
Lemma WFsh_add fl ns ex en c k t t' x :
  WFsh (x :: fl) (ns, ex, en, c) -> nth_error ns k = Some t ->
  fst (fst t') = fst (fst t) -> snd (fst t') = snd (fst t) + 1 -> Permutation (concat (snd t')) (x :: concat (snd t)) ->
  WFsh fl (upd ns k t', ex, en, c).
Proof.
  intros (HI & (HC & HE) & H0 & HP) Hn Hid Hpop Hperm. split; [|split; [|split]].
  - eapply sh_idx_upd; eauto.
  - split; [|exact HE]. apply Forall_upd; [exact HC|].
    rewrite Forall_forall in HC. specialize (HC t (nth_error_In _ _ Hn)). cbn in *.
    rewrite Hpop, HC. unfold zlen. rewrite (Permutation_length Hperm). cbn [length]. lia.
  - exact H0.
  - cbn [sh_ids sh_created] in *. rewrite (map_concat_upd_add _ _ _ _ _ Hn Hperm).
    etransitivity; [|exact HP]. cbn. apply Permutation_cons_app. reflexivity.
Qed.

(* customer x leaves a queue of node k and is in flight *)
Lemma WFsh_rm fl ns ex en c k t t' x :
  WFsh fl (ns, ex, en, c) -> nth_error ns k = Some t ->
  fst (fst t') = fst (fst t) -> snd (fst t') = snd (fst t) - 1 -> Permutation (concat (snd t)) (x :: concat (snd t')) ->
  WFsh (x :: fl) (upd ns k t', ex, en, c).
Proof.
  intros (HI & (HC & HE) & H0 & HP) Hn Hid Hpop Hperm. split; [|split; [|split]].
  - eapply sh_idx_upd; eauto.
  - split; [|exact HE]. apply Forall_upd; [exact HC|].
    rewrite Forall_forall in HC. specialize (HC t (nth_error_In _ _ Hn)). cbn in *.
    rewrite Hpop, HC. unfold zlen. rewrite (Permutation_length Hperm). cbn [length]. lia.
  - exact H0.
  - cbn [sh_ids sh_created] in *. etransitivity; [|exact HP].
    rewrite <- (map_concat_upd_rm _ _ _ _ _ Hn Hperm). cbn. rewrite app_nil_r || idtac.
    symmetry. apply Permutation_cons_app. reflexivity.
Qed.

(* customer x, in flight, joins the exit list *)
Lemma WFsh_exit fl ns ex en c x : WFsh (x :: fl) (ns, ex, en, c) -> WFsh fl (ns, ex ++ [x], en + 1, c).
Proof.
  intros (HI & (HC & HE) & H0 & HP). split; [exact HI|split; [|split]].
  - split; [exact HC|]. rewrite HE. unfold zlen. rewrite app_length. cbn. lia.
  - exact H0.
  - cbn [sh_ids sh_created] in *. etransitivity; [|exact HP]. rewrite <- !app_assoc. cbn. reflexivity.
Qed.

(* a customer is created: the next identifier is in flight *)
Lemma WFsh_spawn ns ex en c : WFsh [] (ns, ex, en, c) -> WFsh [c + 1] (ns, ex, en, c + 1).
Proof.
  intros (HI & HC & H0 & HP). split; [exact HI|split; [exact HC|split]].
  - cbn in *. lia.
  - cbn [sh_ids sh_created] in *. rewrite app_nil_r in HP.
    replace (Z.to_nat (c + 1)) with (S (Z.to_nat c)) by lia. rewrite zseq_snoc.
    apply Permutation_app; [exact HP|]. replace (1 + Z.of_nat (Z.to_nat c)) with (c + 1) by lia. reflexivity.
Qed.

Lemma put_ind_nodes x s s' : put_ind x s = Ok (tt, s') -> nodes s' = nodes s /\ shp s' = shp s.
Proof. unfold put_ind, modify. intros H. inversion H. split; reflexivity. Qed.

Lemma updZ_nat {A} (l : list A) k x : updZ l (Z.of_nat k) x = upd l k x.
Proof. unfold updZ. destruct (Z.of_nat k <? 0) eqn:E; [apply Z.ltb_lt in E; lia|]. rewrite Nat2Z.id. reflexivity. Qed.

Lemma gets_spec {A} (f : sim -> A) s a s' : gets f s = Ok (a, s') -> s' = s /\ a = f s.
Proof. intros H. inversion H. auto. Qed.

Section Conserve.
  Variable cf : config.

  (* ---------- a customer in flight lands in a node ---------- *)
  Lemma accept_spec j x fl s s' : WFx (i_id x :: fl) s -> accept cf j x s = Ok (tt, s') -> WFx fl s'.
  Proof.
    intros HW H. unfold accept in H.
    minv H. apply get_node_spec in E as [-> Hn].
    minv H. destruct a0. destruct (put_ind_nodes _ _ _ E) as [En Es]. clear E.
    assert (W1 : WFx (i_id x :: fl) s0) by (eapply WFx_shape; eauto).
    rewrite <- En in Hn. clear HW En Es.
    minv H.
    destruct (nthZ (n_queues a) (i_prio x)) as [q|] eqn:Eq; [|discriminate E]. cbn in E. inversion E. subst a0 s1. clear E.
    minv H. destruct a0.
    assert (W2 : WFx fl s1).
    { destruct (nthZ_nat _ _ _ Hn) as (k & Hk & Hnk).
      pose proof (Idx_get _ _ _ (WFx_Idx _ _ W1) Hn) as Hid.
      destruct (nthZ_nat _ _ _ Eq) as (kp & Hkp & Hqk).
      assert (Hsh := shp_put_node _ _ _ k a E ltac:(cbn; lia) Hnk).
      unfold WFx. rewrite Hsh. unfold WFx, shp in W1.
      eapply WFsh_add; [exact W1|rewrite nth_error_map, Hnk; reflexivity|reflexivity|reflexivity|].
      cbn. rewrite Hkp, updZ_nat. eapply concat_upd_perm; [exact Hqk|]. rewrite Permutation_app_comm. reflexivity. }
    eapply WFx_presI; [apply presI_bsip_accept|exact W2|exact H].
  Qed.

  Lemma exit_accept_spec x c fl s s' : WFx (i_id x :: fl) s -> exit_accept x c s = Ok (tt, s') -> WFx fl s'.
  Proof.
    intros HW H. unfold exit_accept in H. minv H. destruct a.
    assert (W1 : WFx (i_id x :: fl) s0) by (eapply WFx_pres; [apply pres_del_ind|exact HW|exact E]).
    unfold modify in H. inversion H. subst s'. unfold WFx, shp in *. cbn.
    apply WFsh_exit. exact W1.
  Qed.

  (* ---------- release and the unblocking cascade ---------- *)
  Lemma release_spec : forall f j i d fl s s', WFx fl s -> release cf f j i d s = Ok (tt, s') -> WFx fl s'.
  Proof.
    induction f as [|f IH]; intros j i d fl s s' HW H; [discriminate|].
    cbn [release] in H.
    minv H. apply ro_gets in E. subst s0.
    minv H. apply get_ind_id in E as [-> Hxi].
    minv H. apply get_node_spec in E as [-> Hn].
    minv H. destruct (nthZ (n_queues a1) (i_pprio a0)) as [q|] eqn:Eq; [|discriminate E]. cbn in E. inversion E. subst a2 s0. clear E.
    minv H. destruct (remove_first i q) as [q'|] eqn:Er; [|discriminate E]. cbn in E. inversion E. subst a2 s0. clear E.
    (* the customer leaves its queue *)
    minv H. destruct a2.
    assert (W1 : WFx (i :: fl) s0).
    { destruct (nthZ_nat _ _ _ Hn) as (k & Hk & Hnk).
      pose proof (Idx_get _ _ _ (WFx_Idx _ _ HW) Hn) as Hid.
      destruct (nthZ_nat _ _ _ Eq) as (kp & Hkp & Hqk).
      assert (Hsh := shp_put_node _ _ _ k a1 E ltac:(cbn; lia) Hnk).
      unfold WFx. rewrite Hsh. unfold WFx, shp in HW.
      eapply WFsh_rm; [exact HW|rewrite nth_error_map, Hnk; reflexivity|reflexivity|reflexivity|].
      cbn. rewrite Hkp, updZ_nat. symmetry. eapply concat_upd_perm_rm; [exact Hqk|]. apply remove_first_perm. exact Er. }
    clear HW E.
    minv H. assert (W2 : WFx (i :: fl) s1) by (eapply WFx_pres; [apply pres_put_ind|exact W1|exact E]). clear W1 E.
    minv H. assert (W3 : WFx (i :: fl) s2) by (eapply WFx_pres; [apply pres_write_individual_record|exact W2|exact E]). clear W2 E.
    minv H. apply ro_is_inf in E. subst s3.
    minv H.
    assert (W4 : WFx (i :: fl) s3).
    { destruct a4.
      - inversion E. subst. exact W3.
      - minv E. apply ro_lift in E0. subst s4.
        minv E. apply get_node_spec in E0 as [-> Hn2].
        minv E. apply ro_lift in E0. subst s4.
        minv E. apply ro_lift in E0. subst s4.
        minv E. destruct a9. inversion E. subst s3.
        eapply WFx_shape; [|exact W3].
        pose proof (Idx_get _ _ _ (WFx_Idx _ _ W3) Hn2) as Hid.
        eapply put_node_shape; [exact E0|cbn; rewrite Hid; exact Hn2|reflexivity]. }
    clear W3 E.
    minv H. apply get_ind_id in E as [-> Hx2].
    minv H. assert (W5 : WFx (i :: fl) s4) by (eapply WFx_pres; [apply pres_put_ind|exact W4|exact E]). clear W4 E.
    minv H. assert (W6 : WFx (i :: fl) s5) by (eapply WFx_presI; [apply presI_bsip_release|exact W5|exact E]). clear W5 E.
    (* the customer lands *)
    minv H.
    assert (W7 : WFx fl s6).
    { destruct a9. destruct (d =? 0).
      - eapply exit_accept_spec; [|exact E]. cbn. rewrite Hx2. exact W6.
      - eapply accept_spec; [|exact E]. cbn. rewrite Hx2. exact W6. }
    clear W6 E.
    (* release_blocked_individual *)
    minv H. apply get_node_spec in E as [-> Hn3].
    minv H. apply ro_ncfg_of in E. subst s7.
    destruct ((0 <? n_lenbq a10) && match nc_cap a11 with Some cap => n_pop a10 <? cap | None => true end); [|inversion H; subst; exact W7].
    destruct (n_bq a10) as [|[from y] rest]; [discriminate|].
    minv H. apply get_node_spec in E as [-> Hnf].
    minv H. assert (s7 = s6) by (destruct (memZ y (all_individuals a12)); [inversion E; reflexivity|discriminate E]). subst s7. clear E.
    minv H. destruct a14.
    assert (W8 : WFx fl s7).
    { eapply WFx_shape; [|exact W7].
      pose proof (Idx_get _ _ _ (WFx_Idx _ _ W7) Hn3) as Hid.
      eapply put_node_shape; [exact E|cbn; rewrite Hid; exact Hn3|reflexivity]. }
    eapply IH; eauto.
  Qed.

  (* ---------- tactics: invert one bind; read-only actions are substituted away ---------- *)
  Ltac mstep H :=
    match type of H with
    | bind ?m ?f ?s = Ok _ =>
      let a := fresh "a" in let s1 := fresh "s" in let E := fresh "E" in
      unfold bind in H at 1; destruct (m s) as [[a s1]| |] eqn:E; [|discriminate H|discriminate H];
      first [ (apply gets_spec in E as [-> ->])
            | (apply ro_gets in E; subst s1)
            | (apply ro_lift in E; subst s1)
            | (apply ro_ncfg_of in E; subst s1)
            | (apply ro_is_inf in E; subst s1)
            | (let Hn := fresh "Hn" in apply get_node_spec in E as [-> Hn])
            | (let Hi := fresh "Hid" in apply get_ind_id in E as [-> Hi])
            | idtac ]
    end.
  (* carry the invariant over an action that keeps the shape *)
  Ltac wfp lem :=
    match goal with
    | W : WFx ?fl ?s, E : _ ?s = Ok (_, ?s1) |- _ =>
      let W' := fresh "W" in assert (W' : WFx fl s1) by (eapply WFx_pres; [apply lem|exact W|exact E]); clear W E
    end.
  Ltac wfpI lem :=
    match goal with
    | W : WFx ?fl ?s, E : _ ?s = Ok (_, ?s1) |- _ =>
      let W' := fresh "W" in assert (W' : WFx fl s1) by (eapply WFx_presI; [apply lem|exact W|exact E]); clear W E
    end.
  Ltac wfmod :=
    match goal with
    | W : WFx ?fl ?s, E : modify _ ?s = Ok (_, ?s1) |- _ =>
      let W' := fresh "W" in assert (W' : WFx fl s1) by (refine (WFx_pres _ _ _ _ _ _ W E); apply pres_modify; intros ?; reflexivity); clear W E
    end.
  (* write back node j with unchanged identity, population and queues *)
  Ltac wfput :=
    match goal with
    | W : WFx ?fl ?s, Hn : nthZ (nodes ?s) (?j - 1) = Some ?nd, E : put_node _ ?s = Ok (_, ?s1) |- _ =>
      let W' := fresh "W" in
      assert (W' : WFx fl s1) by
        (eapply WFx_shape; [|exact W];
         eapply put_node_shape; [exact E|cbn; rewrite (Idx_get _ _ _ (WFx_Idx _ _ W) Hn); exact Hn|reflexivity]);
      clear W E
    end.

  (* ---------- finish_service ---------- *)
  Lemma finish_service_spec j fl s s' : WFx fl s -> finish_service cf j s = Ok (tt, s') -> WFx fl s'.
  Proof.
    intros HW H. unfold finish_service in H.
    mstep H.
    mstep H.
    match goal with E : (match ?l with _ => _ end) s = Ok (_, ?s1) |- _ =>
      assert (W1 : WFx fl s1) by
        (destruct l as [|i0 [|i1 r]]; [discriminate E|inversion E; subst; exact HW|
         eapply WFx_pres; [apply pres_choice_uniform|exact HW|exact E]]); clear HW E end.
    mstep H. mstep H.
    mstep H.
    match goal with E : (match nc_ccm ?nc with _ => _ end) ?s0 = Ok (_, ?s1) |- _ =>
      assert (W2 : WFx fl s1);
      [ destruct (nc_ccm nc) as [m|]; [|inversion E; subst; exact W1];
        mstep E; mstep E; wfp pres_choice_weighted; mstep E; inversion E; subst; assumption
      | clear W1 E ] end.
    mstep H. mstep H.
    mstep H. wfp pres_choice_weighted.
    mstep H. wfp pres_put_ind.
    mstep H.
    mstep H.
    match goal with E : (if ?inf then _ else _) ?s0 = Ok (_, ?s1), W : WFx fl ?s0 |- _ =>
      assert (W5 : WFx fl s1);
      [ destruct inf; [inversion E; subst; exact W|];
        mstep E; mstep E; mstep E;
        match goal with E' : put_node _ _ = Ok (?u, _) |- _ => destruct u end; wfput; assumption
      | clear W E ] end.
    mstep H.
    match goal with E : (if ?b then _ else _) ?s0 = Ok (_, ?s1) |- _ =>
      assert (s1 = s0) by
        (destruct b; [inversion E; reflexivity|]; mstep E; mstep E; inversion E; reflexivity); subst; clear E end.
    match type of H with (if ?sp then _ else _) _ = _ => destruct sp end.
    - mstep H. eapply release_spec; eauto.
    - eapply WFx_presI; [apply presI_block_individual| |exact H]. assumption.
  Qed.

  (* ---------- the arrival node ---------- *)
  Lemma release_individual_spec j x fl s s' : WFx (i_id x :: fl) s -> release_individual cf j x s = Ok (tt, s') -> WFx fl s'.
  Proof.
    intros HW H. unfold release_individual in H.
    mstep H. mstep H.
    mstep H.
    try match goal with E : sys_population _ = Ok (_, ?s1) |- _ =>
      assert (s1 = s) by (unfold sys_population in E; mstep E; inversion E; reflexivity); subst; clear E end.
    mstep H. wfp pres_put_ind.
    match type of H with (if ?b then _ else _) _ = _ => destruct b end.
    - mstep H. wfp pres_write_br_record. eapply exit_accept_spec; eauto.
    - mstep H. mstep H.
      match type of H with (match ?t with _ => _ end) _ = _ => destruct t as [tb|] end.
      + mstep H. wfp pres_draw_unif.
        match type of H with (if ?b then _ else _) _ = _ => destruct b end.
        * mstep H. wfp pres_write_br_record. eapply exit_accept_spec; eauto.
        * mstep H. wfmod. eapply accept_spec; eauto.
      + mstep H. wfmod. eapply accept_spec; eauto.
  Qed.

  Lemma batch_loop_spec : forall n j c p s s', WFx [] s -> batch_loop cf n j c p s = Ok (tt, s') -> WFx [] s'.
  Proof.
    induction n as [|n IH]; intros j c p s s' HW H; cbn [batch_loop] in H; [inversion H; subst; exact HW|].
    mstep H.
    match goal with E : modify _ s = Ok (_, ?s1) |- _ =>
      assert (W1 : WFx [a_created (arr s) + 1] s1 /\ a_created (arr s1) = a_created (arr s) + 1) by
        (unfold modify in E; inversion E; subst; split; [|reflexivity]; unfold WFx, shp in *; cbn; apply WFsh_spawn; exact HW);
      destruct W1 as [W1 Ec]; clear HW E end.
    mstep H.
    mstep H.
    match goal with E : release_individual _ _ _ ?s0 = Ok (?u, ?s1) |- _ =>
      destruct u; assert (W2 : WFx [] s1) by (eapply release_individual_spec; [|exact E]; cbn [new_ind i_id]; rewrite Ec; exact W1) end.
    eapply IH; eauto.
  Qed.

  Lemma arrival_have_event_spec s s' : WFx [] s -> arrival_have_event cf s = Ok (tt, s') -> WFx [] s'.
  Proof.
    intros HW H. unfold arrival_have_event in H.
    mstep H.
    mstep H. wfp pres_draw_batch.
    mstep H.
    match goal with E : (if ?b then _ else _) ?s0 = Ok (_, ?s1) |- _ =>
      assert (s1 = s0) by (destruct b; [discriminate E|inversion E; reflexivity]); subst; clear E end.
    mstep H.
    mstep H.
    match goal with E : batch_loop _ _ _ _ _ ?s0 = Ok (?u, ?s1), W : WFx [] ?s0 |- _ =>
      destruct u; assert (W2 : WFx [] s1) by (eapply batch_loop_spec; eauto); clear W E end.
    mstep H. wfp pres_draw_arr.
    mstep H. mstep H. mstep H.
    mstep H. wfmod.
    eapply WFx_pres; [apply pres_find_next_event_date| |exact H]. assumption.
  Qed.

  (* ---------- T2 for C01: one event ---------- *)
  Theorem event_step_conserves s s' : WFx [] s -> event_step cf s = Ok (tt, s') -> WFx [] s'.
  Proof.
    intros HW H. unfold event_step in H.
    mstep H. wfmod.
    mstep H.
    mstep H.
    match goal with E : (if ?b then _ else _) ?s0 = Ok (?u, ?s1), W : WFx [] ?s0 |- _ =>
      destruct u; assert (W2 : WFx [] s1) by (destruct b; [eapply arrival_have_event_spec; eauto|eapply finish_service_spec; eauto]); clear W E end.
    mstep H.
    mstep H. wfpI presI_update_all.
    eapply WFx_pres; [apply pres_find_next_active_node| |exact H]. assumption.
  Qed.
End Conserve.
